"""Canonical form of matrix-product chains:  A @ B @ C,  A.dot(B).dot(C),  (X).tocsr()
-> list of factor strings, with a trailing '.T' normalised."""
import ast

from .program import src

FORMAT_METHODS = ('tocsr', 'tocsc', 'tocoo', 'asformat', 'toarray', 'tolil')


def factors(e):
    """Flatten a product expression into its ordered factors (as source strings)."""
    if isinstance(e, ast.Call) and isinstance(e.func, ast.Attribute):
        if e.func.attr in FORMAT_METHODS:
            return factors(e.func.value)
        if e.func.attr == 'dot' and len(e.args) == 1:
            return factors(e.func.value) + factors(e.args[0])
    if isinstance(e, ast.BinOp) and isinstance(e.op, ast.MatMult):
        return factors(e.left) + factors(e.right)
    if isinstance(e, ast.Attribute) and e.attr == 'T':
        inner = factors(e.value)
        if len(inner) > 1:
            # (A B)^T = B^T A^T
            return [transpose(f) for f in reversed(inner)]
        return [transpose(inner[0])]
    return [src(e).replace(' ', '')]


def transpose(f):
    return f[:-2] if f.endswith('.T') else f + '.T'


def transposed_chain(fs):
    return [transpose(f) for f in reversed(fs)]

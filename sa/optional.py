"""A4 (part): Optional fields and their dereferences.

A field ``self.f`` of a class is *Optional* if some assignment in the class stores
``None`` (or a None-defaulted constructor parameter that is not normalised on all
paths) into it.  Every dereference through ``self`` (iteration, len, subscript,
attribute, call) must then be dominated by a None/truth guard, an assertion, an
ensure-assignment, or a call to an ensure-method of the class.
"""
import ast

from .program import src, own_nodes, parent, call_name
from . import guards


def _self_attr(e, name=None):
    return (isinstance(e, ast.Attribute) and isinstance(e.value, ast.Name) and e.value.id == 'self'
            and (name is None or e.attr == name))


def mangled(cls_name, attr):
    if attr.startswith('__') and not attr.endswith('__'):
        return '_%s%s' % (cls_name.lstrip('_'), attr)
    return attr


def optional_fields(cls):
    """{field: node of the None-storing assignment}"""
    out = {}
    for mname, m in cls.methods.items():
        fn = m.node
        a = fn.args
        names = [x.arg for x in a.args]
        defaults = dict(zip(names[len(names) - len(a.defaults):], a.defaults))
        none_params = {k for k, d in defaults.items() if isinstance(d, ast.Constant) and d.value is None}
        for s in own_nodes(fn):
            if not isinstance(s, ast.Assign):
                continue
            for t in s.targets:
                targets = t.elts if isinstance(t, ast.Tuple) else [t]
                for tt in targets:
                    if not _self_attr(tt):
                        continue
                    v = s.value
                    if isinstance(v, ast.Constant) and v.value is None:
                        out.setdefault(tt.attr, s)
                    elif mname == '__init__' and isinstance(v, ast.Name) and v.id in none_params:
                        # is the parameter normalised to non-None on every path before this store?
                        if not _param_normalised(fn, v.id, s):
                            out.setdefault(tt.attr, s)
    return out


def _param_normalised(fn, pname, before):
    """``if p is None: p = <non-None>`` (unconditional fix-up) before the store."""
    for s in guards.preceding_statements(before):
        if isinstance(s, ast.If):
            t = src(s.test).replace(' ', '')
            if t in ('%sisNone' % pname, 'not%s' % pname):
                if any(isinstance(b, ast.Assign) and src(b.targets[0]) == pname and not (
                        isinstance(b.value, ast.Constant) and b.value.value is None) for b in s.body):
                    return True
    return False


def ensure_methods(cls, field):
    """Methods that leave ``self.field`` non-None on every normal exit."""
    out = set()
    for mname, m in cls.methods.items():
        if mname == '__init__':
            continue

        def sets(stmt):
            if isinstance(stmt, ast.Assign):
                for t in stmt.targets:
                    tl = t.elts if isinstance(t, ast.Tuple) else [t]
                    if any(_self_attr(x, field) for x in tl) and not (isinstance(stmt.value, ast.Constant) and stmt.value.value is None):
                        return True
            if isinstance(stmt, ast.If):
                # if self.f is None / not self.f: self.f = ...
                t = src(stmt.test).replace(' ', '')
                if ('self.%s' % field) in t and ('isNone' in t or t.startswith('not')):
                    return any(sets(b) for b in stmt.body)
            return False
        if guards.stmt_list_reaches_call(m.node.body, sets):
            out.add(mname)
    return out


DEREF = ('iter', 'len', 'subscript', 'attribute', 'call')


def dereferences(fn, field):
    """(node, kind) for each dereference of self.<field> in fn."""
    out = []
    for n in ast.walk(fn):
        if isinstance(n, (ast.For, ast.comprehension)) and _self_attr(n.iter, field):
            out.append((n.iter, 'iter'))
        elif isinstance(n, ast.Call):
            if call_name(n) in ('len', 'iter', 'enumerate', 'list', 'tuple', 'sorted', 'zip', 'set') and any(_self_attr(a, field) for a in n.args):
                out.append((n, 'len/iter'))
            if _self_attr(n.func, field):
                out.append((n, 'call'))
        elif isinstance(n, ast.Subscript) and _self_attr(n.value, field) and isinstance(n.ctx, ast.Load):
            out.append((n, 'subscript'))
        elif isinstance(n, ast.Attribute) and _self_attr(n.value, field):
            out.append((n, 'attribute'))
    return out


def is_guarded(node, fn, field, ensure):
    """True if the dereference is dominated by a guard / ensure."""
    name = 'self.' + field
    facts = guards.dominating_facts(node)
    for (t, pol, n) in facts:
        tt = t.replace(' ', '')
        if tt == name and pol:
            return 'truth guard'
        if tt == name + 'isnotNone' and pol:
            return 'is not None guard'
        if tt == name + 'isNone' and not pol:
            return 'is None guard (negated)'
    st = node
    while st is not None and not isinstance(st, ast.stmt):
        st = parent(st)
    for s in guards.preceding_statements(st) if st is not None else []:
        # ensure-assignment
        if isinstance(s, ast.If):
            t = src(s.test).replace(' ', '')
            if name in t and ('isNone' in t or t.startswith('not')):
                if any(isinstance(b, ast.Assign) and any(_self_attr(x, field) for x in b.targets) for b in s.body) or \
                        any(isinstance(b, ast.Expr) and isinstance(b.value, ast.Call) and isinstance(b.value.func, ast.Attribute)
                            and b.value.func.attr in ensure for b in s.body) or guards.always_exits(s.body):
                    return 'ensure-assignment'
        if isinstance(s, ast.Expr) and isinstance(s.value, ast.Call) and isinstance(s.value.func, ast.Attribute) \
                and _self_attr(s.value.func) and s.value.func.attr in ensure:
            return 'ensure-method %s()' % s.value.func.attr
        if isinstance(s, ast.Assign) and any(_self_attr(x, field) for t in s.targets for x in (t.elts if isinstance(t, ast.Tuple) else [t])) \
                and not (isinstance(s.value, ast.Constant) and s.value.value is None):
            return 'assigned non-None just before'
        if isinstance(s, ast.Assert) and name in src(s.test):
            return 'assertion'
    return None

"""Reading an expression through its local temporaries.

`expand(expr, at)` returns a copy of `expr` in which a local name is replaced by the right-hand side of the assignment that
defines it, when that is decidable from the shape of the code:

  * the definition `name = E` (single Name target) is a straight-line predecessor of the statement `at` -- in the same block
    or an enclosing one, so it is executed on every path reaching `at`;
  * no statement between the definition and `at` (nested bodies included) rebinds `name` or a name read by `E`;
  * when the search leaves a loop body, names bound anywhere in that loop are not expanded (a later iteration may have
    rebound them).

Everything else stays as written.  Introducing or removing such a temporary is behaviour-preserving; rules that compare an
expression with a confirmed form call `expand` first so that both spellings are the same to them."""
import ast
import copy

from .program import parent

_SCOPES = (ast.FunctionDef, ast.AsyncFunctionDef, ast.Lambda, ast.Module, ast.ClassDef)


def bound_names(node):
    out = set()
    for x in ast.walk(node):
        if isinstance(x, ast.Name) and isinstance(x.ctx, (ast.Store, ast.Del)):
            out.add(x.id)
        elif isinstance(x, (ast.FunctionDef, ast.AsyncFunctionDef, ast.ClassDef)):
            out.add(x.name)
        elif isinstance(x, ast.ExceptHandler) and x.name:
            out.add(x.name)
        elif isinstance(x, (ast.Import, ast.ImportFrom)):
            for a in x.names:
                out.add((a.asname or a.name).split('.')[0])
    return out


def stmt_of(node):
    while node is not None and not isinstance(node, ast.stmt):
        node = parent(node)
    return node


def _predecessors(stmt):
    """(statement, blocked_names) pairs, closest first; blocked_names = names that may have been rebound by a loop that was
    left on the way out"""
    child, p = stmt, parent(stmt)
    blocked = set()
    while p is not None:
        for fld in ('body', 'orelse', 'finalbody'):
            blk = getattr(p, fld, None)
            if isinstance(blk, list) and any(b is child for b in blk):
                idx = [i for i, b in enumerate(blk) if b is child][0]
                for s in reversed(blk[:idx]):
                    yield s, frozenset(blocked)
        if isinstance(p, _SCOPES):
            return
        if isinstance(p, (ast.For, ast.AsyncFor, ast.While)):
            blocked |= bound_names(p)
        child, p = p, parent(p)


def definition(name, at):
    """the value node E of the reaching straight-line definition `name = E` of a local at statement `at`, else None"""
    st = stmt_of(at)
    if st is None:
        return None
    between = set()
    for s, blocked in _predecessors(st):
        if name in blocked:
            return None
        if isinstance(s, ast.Assign) and len(s.targets) == 1 and isinstance(s.targets[0], ast.Name) and s.targets[0].id == name:
            reads = {x.id for x in ast.walk(s.value) if isinstance(x, ast.Name)}
            if reads & between or reads & blocked or name in reads:
                return None
            return s.value
        if isinstance(s, ast.Assign) and len(s.targets) == 1 and isinstance(s.targets[0], (ast.Tuple, ast.List)) \
                and all(isinstance(t, ast.Name) for t in s.targets[0].elts) and name in [t.id for t in s.targets[0].elts]:
            # a, b = E: the k-th component of E
            reads = {x.id for x in ast.walk(s.value) if isinstance(x, ast.Name)}
            names = [t.id for t in s.targets[0].elts]
            if reads & between or reads & blocked or reads & set(names) or names.count(name) != 1:
                return None
            k = names.index(name)
            if isinstance(s.value, (ast.Tuple, ast.List)) and len(s.value.elts) == len(names) \
                    and not any(isinstance(e, ast.Starred) for e in s.value.elts):
                return s.value.elts[k]
            sub = ast.Subscript(value=s.value, slice=ast.Constant(k), ctx=ast.Load())
            return ast.copy_location(ast.fix_missing_locations(ast.copy_location(sub, s.value)), s.value)
        b = bound_names(s)
        if name in b:
            return None
        between |= b
    return None


def expand(expr, at=None, depth=4, keep=()):
    at = at if at is not None else expr
    st = stmt_of(at)
    keep = set(keep) | {x.id for x in ast.walk(expr) if isinstance(x, ast.Name) and isinstance(x.ctx, ast.Store)}

    def rec(e, d):
        if isinstance(e, ast.Name) and isinstance(e.ctx, ast.Load) and e.id not in keep and d > 0:
            v = definition(e.id, st)
            if v is not None and not isinstance(v, (ast.Lambda, ast.ListComp, ast.GeneratorExp, ast.DictComp, ast.SetComp, ast.Yield, ast.Await)):
                # the definition's own names are read where IT stands; `definition` made sure they are unchanged since
                return rec_def(v, d - 1)
            return e
        return _map_children(e, lambda c: rec(c, d))

    def rec_def(v, d):
        # names inside the definition are expanded relative to the definition's position
        dst = stmt_of(v)

        def r2(e):
            if isinstance(e, ast.Name) and isinstance(e.ctx, ast.Load) and e.id not in keep and d > 0:
                vv = definition(e.id, dst)
                if vv is not None and not isinstance(vv, (ast.Lambda, ast.ListComp, ast.GeneratorExp, ast.DictComp, ast.SetComp)):
                    return expand_from(vv, d - 1)
                return e
            return _map_children(e, r2)
        return r2(v)

    def expand_from(v, d):
        return rec_def(v, d)
    return rec(expr, depth)


def _map_children(e, f):
    """shallow copy of e with f applied to the child expression nodes (parents of the copy are not set)"""
    if not isinstance(e, ast.AST):
        return e
    new = copy.copy(e)
    for name, val in ast.iter_fields(e):
        if isinstance(val, list):
            setattr(new, name, [f(v) if isinstance(v, ast.AST) else v for v in val])
        elif isinstance(val, ast.AST):
            setattr(new, name, f(val))
    return new

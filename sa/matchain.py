"""Normal form of matrix-product expressions: sums of signed chains of (possibly transposed) atoms.

    A.dot(B)  /  A @ B          -> chain(A) + chain(B)
    X.T  /  X.transpose()       -> reversed chain(X) with every factor's transposition flipped   ((AB)^T = B^T A^T)
    a + b, a - b, -a            -> signed terms
    anything else               -> an atom (its source text)

Two expressions with the same normal form denote the same matrix for all operands; two expressions built from the SAME
atoms whose normal forms differ (a factor transposed, two factors exchanged) differ for general -- nonsymmetric,
noncommuting -- operands.  Nothing is evaluated."""
import ast

from .program import src


def chain(e):
    """[(atom source, transposed?)] of a product expression"""
    if isinstance(e, ast.Call) and isinstance(e.func, ast.Attribute) and e.func.attr == 'dot' and len(e.args) == 1 and not e.keywords:
        return chain(e.func.value) + chain(e.args[0])
    if isinstance(e, ast.BinOp) and isinstance(e.op, ast.MatMult):
        return chain(e.left) + chain(e.right)
    if isinstance(e, ast.Attribute) and e.attr == 'T':
        return [(a, not t) for (a, t) in reversed(chain(e.value))]
    if isinstance(e, ast.Call) and isinstance(e.func, ast.Attribute) and e.func.attr == 'transpose' and not e.args and not e.keywords:
        return [(a, not t) for (a, t) in reversed(chain(e.func.value))]
    return [(src(e).replace(' ', ''), False)]


def terms(e, sign=1):
    """[(sign, chain)] of a sum of products"""
    if isinstance(e, ast.BinOp) and isinstance(e.op, ast.Add):
        return terms(e.left, sign) + terms(e.right, sign)
    if isinstance(e, ast.BinOp) and isinstance(e.op, ast.Sub):
        return terms(e.left, sign) + terms(e.right, -sign)
    if isinstance(e, ast.UnaryOp) and isinstance(e.op, ast.USub):
        return terms(e.operand, -sign)
    return [(sign, tuple(chain(e)))]


def normal(e):
    return sorted(terms(e), key=repr)


def compare(cur, want):
    """'equal' | 'same-atoms' (same multiset of atoms per term, different order / transposition / sign) | 'different'"""
    a, b = normal(cur), normal(want)
    if a == b:
        return 'equal'
    atoms = lambda n: sorted(sorted(x for (x, _t) in ch) for (_s, ch) in n)
    if atoms(a) == atoms(b):
        return 'same-atoms'
    return 'different'


def show(e):
    out = []
    for s, ch in normal(e):
        out.append(('+' if s > 0 else '-') + ' '.join(a + ("^T" if t else '') for a, t in ch))
    return ' '.join(out)

"""Alpha-normalisation of local names against the confirmed reference.

The rules of this checker were written while reading one tree; where they name a local variable (`A`, `out`, `x1`) they mean
"the variable that plays that role".  Renaming a local is the most common behaviour-preserving edit, so before any rule
runs every function of the analysed tree is compared with the function of the same qualified name in
reference/functions.json (written by tools/make_reference.py from a confirmed tree):

  * the own statements of both versions are reduced to skeletons -- the statement (header only, for compound statements)
    with every local name (parameters, assigned names, loop and comprehension variables) replaced by a hole -- and the two
    skeleton sequences are aligned (difflib);
  * every aligned pair of equal skeletons votes, hole by hole, "current name c stands where the reference has r";
  * a current name is renamed to the reference's name only if ALL its votes name the same r, the resulting map is injective
    on the function's names, and r is not otherwise used in the function.  Anything else keeps its name.

A pure renaming therefore disappears; a statement in which one variable was REPLACED by another one keeps its names (the
replaced variable has conflicting votes), so the rules still see the replacement.  The deciding step stays static: only
syntax trees are compared.  Reports quote the normalised (reference) names; `renamed` on the function node keeps the map.
"""
import ast
import difflib
import json
import os

HERE = os.path.dirname(os.path.dirname(os.path.abspath(__file__)))
REF = os.path.join(HERE, 'reference', 'functions.json')
FUNC = (ast.FunctionDef, ast.AsyncFunctionDef)
_SKIP = ('lineno', 'col_offset', 'end_lineno', 'end_col_offset', 'ctx', 'type_comment')
_BLOCKS = ('body', 'orelse', 'finalbody', 'handlers')


_REF_QUALS = [None]


def reference_quals():
    """qualified names of all functions of the confirmed reference tree"""
    if _REF_QUALS[0] is None:
        try:
            _REF_QUALS[0] = set(json.load(open(REF))['functions'].keys())
        except Exception:
            _REF_QUALS[0] = set()
    return _REF_QUALS[0]


def is_new_function(qual):
    """the function does not exist in the confirmed reference (an extracted helper, if the reference is available at all)"""
    q = reference_quals()
    return bool(q) and qual not in q


def own_locals(fn):
    """names bound in the function's own scope: parameters, stores, loop/comprehension/with/except targets (not nested defs)"""
    out = set()
    a = fn.args
    for x in a.posonlyargs + a.args + a.kwonlyargs:
        out.add(x.arg)
    if a.vararg:
        out.add(a.vararg.arg)
    if a.kwarg:
        out.add(a.kwarg.arg)
    declared = set()

    def rec(n):
        for c in ast.iter_child_nodes(n):
            if isinstance(c, FUNC + (ast.ClassDef, ast.Lambda)):
                continue
            if isinstance(c, (ast.Global, ast.Nonlocal)):
                declared.update(c.names)
            if isinstance(c, ast.Name) and isinstance(c.ctx, (ast.Store, ast.Del)):
                out.add(c.id)
            if isinstance(c, ast.ExceptHandler) and c.name:
                out.add(c.name)
            rec(c)
    rec(fn)
    return {x for x in out if x not in declared and not x.startswith('__')}


def own_statements(fn):
    out = []

    def rec(block):
        for s in block:
            out.append(s)
            if isinstance(s, FUNC + (ast.ClassDef,)):
                continue
            for fld in ('body', 'orelse', 'finalbody'):
                b = getattr(s, fld, None)
                if isinstance(b, list) and b and isinstance(b[0], ast.stmt):
                    rec(b)
            for h in getattr(s, 'handlers', []) or []:
                out.append(h)
                rec(h.body)
    rec(fn.body)
    return out


def skeleton(stmt, locs):
    """(text, [local names in traversal order])"""
    occ, out = [], []

    def rec(node, top=False):
        if isinstance(node, ast.Name) and node.id in locs:
            occ.append(node.id)
            out.append('?')
            return
        if isinstance(node, ast.arg) and node.arg in locs:
            occ.append(node.arg)
            out.append('?')
            return
        out.append(type(node).__name__)
        out.append('(')
        for name, val in ast.iter_fields(node):
            if name in _SKIP or (top and name in _BLOCKS):
                continue
            if isinstance(node, ast.ExceptHandler) and name == 'name' and val in locs:
                occ.append(val)
                out.append('?')
                continue
            if isinstance(val, list):
                out.append('[')
                for v in val:
                    if isinstance(v, ast.AST):
                        rec(v)
                    else:
                        out.append(repr(v))
                out.append(']')
            elif isinstance(val, ast.AST):
                rec(val)
            else:
                out.append(repr(val))
            out.append(',')
        out.append(')')
    if isinstance(stmt, FUNC + (ast.ClassDef,)):
        return 'def ' + stmt.name, []
    rec(stmt, top=True)
    return ''.join(out), occ


def infer_map(ref_fn, cur_fn):
    """{current name: reference name} for the names that were purely renamed"""
    rl, cl = own_locals(ref_fn), own_locals(cur_fn)
    # the parameter list takes part as a pseudo statement
    rs = [skeleton(ref_fn.args, rl)] + [skeleton(s, rl) for s in own_statements(ref_fn)]
    cs = [skeleton(cur_fn.args, cl)] + [skeleton(s, cl) for s in own_statements(cur_fn)]
    sm = difflib.SequenceMatcher(a=[x[0] for x in rs], b=[x[0] for x in cs], autojunk=False)
    votes = {}
    for blk in sm.get_matching_blocks():
        for k in range(blk.size):
            ro, co = rs[blk.a + k][1], cs[blk.b + k][1]
            if len(ro) != len(co):
                continue
            for r, c in zip(ro, co):
                votes.setdefault(c, {}).setdefault(r, 0)
                votes[c][r] += 1
    m = {}
    for c in cl:
        v = votes.get(c)
        if v and len(v) == 1:
            r = next(iter(v))
            if r != c:
                m[c] = r
    if not m:
        return {}
    # all names read or written anywhere in the function (globals, builtins, free variables included)
    used = set()
    for n in ast.walk(cur_fn):
        if isinstance(n, ast.Name):
            used.add(n.id)
        elif isinstance(n, ast.arg):
            used.add(n.arg)
    changed = True
    while changed:
        changed = False
        image = {}
        for c in used:
            image.setdefault(m.get(c, c), []).append(c)
        for r, cs_ in image.items():
            if len(cs_) > 1:
                for c in cs_:
                    if c in m:
                        del m[c]
                        changed = True
    return m


def apply_map(fn, m):
    """rename in the function's subtree (every node once); a nested scope that rebinds a name keeps it"""
    def ren(c, active):
        if isinstance(c, ast.Name) and c.id in active:
            c.id = active[c.id]
        elif isinstance(c, ast.arg) and c.arg in active:
            c.arg = active[c.arg]
        elif isinstance(c, ast.ExceptHandler) and c.name in active:
            c.name = active[c.name]

    def params_of(a):
        out = {x.arg for x in a.posonlyargs + a.args + a.kwonlyargs}
        if a.vararg:
            out.add(a.vararg.arg)
        if a.kwarg:
            out.add(a.kwarg.arg)
        return out

    def visit(node, active):
        if isinstance(node, FUNC):
            inner = own_locals(node)
            nonloc = set()
            for x in ast.walk(node):
                if isinstance(x, ast.Nonlocal):
                    nonloc.update(x.names)
            sub = {k: v for k, v in active.items() if k not in inner or k in nonloc}
            # decorators and defaults are evaluated in the enclosing scope
            for d in node.decorator_list + node.args.defaults + [x for x in node.args.kw_defaults if x is not None]:
                visit(d, active)
            for s in node.body:
                visit(s, sub)
            return
        if isinstance(node, ast.Lambda):
            sub = {k: v for k, v in active.items() if k not in params_of(node.args)}
            for d in node.args.defaults + [x for x in node.args.kw_defaults if x is not None]:
                visit(d, active)
            visit(node.body, sub)
            return
        ren(node, active)
        for c in ast.iter_child_nodes(node):
            visit(c, active)
    visit(fn.args, m)
    for s in fn.body:
        visit(s, m)


_cache = {}


def reference_functions():
    if 'f' not in _cache:
        try:
            _cache['f'] = json.load(open(REF))['functions']
        except Exception:
            _cache['f'] = {}
    return _cache['f']


def clone(node):
    """copy of a syntax tree: fields and positions only (no parent / unit pointers, which would drag the whole module along)"""
    if isinstance(node, list):
        return [clone(x) for x in node]
    if not isinstance(node, ast.AST):
        return node
    new = type(node)()
    for name, val in ast.iter_fields(node):
        setattr(new, name, clone(val))
    for a in ('lineno', 'col_offset', 'end_lineno', 'end_col_offset'):
        if hasattr(node, a):
            setattr(new, a, getattr(node, a))
    return new


def retag(fn, unit=None):
    """parent / unit pointers of a function subtree after nodes were replaced"""
    unit = unit or getattr(fn, '_unit', None)
    for n in ast.walk(fn):
        if unit is not None:
            n._unit = unit
        for c in ast.iter_child_nodes(n):
            c._parent = n


def _quiet(node):
    """evaluating / executing the node cannot change any state but local names"""
    for x in ast.walk(node):
        if isinstance(x, (ast.Call, ast.Await, ast.Yield, ast.YieldFrom, ast.AugAssign, ast.Delete, ast.With, ast.Try, ast.Import, ast.ImportFrom)):
            return False
        if isinstance(x, (ast.Attribute, ast.Subscript)) and isinstance(x.ctx, (ast.Store, ast.Del)):
            return False
    return True


def _int_evident(name, fn):
    """every binding of the local is visibly an integer: a loop variable over range(...), the counter of enumerate(...), len(...),
    an integer constant, or integer arithmetic of such names"""
    found = False
    for n in ast.walk(fn):
        if isinstance(n, ast.For):        # (comprehension variables live in their own scope)
            tgt, it = n.target, n.iter
            names = [x.id for x in ast.walk(tgt) if isinstance(x, ast.Name)]
            if name not in names:
                continue
            if isinstance(tgt, ast.Name) and isinstance(it, ast.Call) and isinstance(it.func, ast.Name) and it.func.id == 'range':
                found = True
                continue
            if isinstance(tgt, ast.Tuple) and tgt.elts and isinstance(tgt.elts[0], ast.Name) and tgt.elts[0].id == name \
                    and isinstance(it, ast.Call) and isinstance(it.func, ast.Name) and it.func.id == 'enumerate':
                found = True
                continue
            return False
        elif isinstance(n, ast.Assign):
            names = [x.id for t_ in n.targets for x in ast.walk(t_) if isinstance(x, ast.Name) and isinstance(x.ctx, ast.Store)]
            if name not in names:
                continue
            if len(n.targets) == 1 and isinstance(n.targets[0], ast.Name) and (
                    (isinstance(n.value, ast.Constant) and type(n.value.value) is int) or
                    (isinstance(n.value, ast.Call) and isinstance(n.value.func, ast.Name) and n.value.func.id == 'len')):
                found = True
                continue
            return False
        elif isinstance(n, (ast.AugAssign, ast.AnnAssign, ast.NamedExpr, ast.With, ast.arg, ast.ExceptHandler, ast.Import, ast.ImportFrom, ast.Global, ast.Nonlocal)):
            if isinstance(n, ast.arg) and n.arg == name:
                return False
            if any(isinstance(x, ast.Name) and x.id == name and isinstance(x.ctx, ast.Store) for x in ast.walk(n)) and not isinstance(n, ast.With):
                return False
            if isinstance(n, ast.With) and any(isinstance(x, ast.Name) and x.id == name and isinstance(x.ctx, ast.Store)
                                               for it in n.items if it.optional_vars is not None for x in ast.walk(it.optional_vars)):
                return False
    return found


def _int_arith(e, fn):
    """integer arithmetic over integer-evident locals and integer constants: its value depends on bindings only"""
    for x in ast.walk(e):
        if isinstance(x, ast.Name):
            if not _int_evident(x.id, fn):
                return False
        elif isinstance(x, ast.Constant):
            if type(x.value) is not int:
                return False
        elif isinstance(x, (ast.BinOp, ast.UnaryOp)):
            pass
        elif isinstance(x, (ast.Add, ast.Sub, ast.Mult, ast.FloorDiv, ast.Mod, ast.USub, ast.UAdd, ast.Load)):
            pass
        else:
            return False
    return isinstance(e, (ast.BinOp, ast.UnaryOp, ast.Name, ast.Constant))


def _pure_expr(e):
    return not any(isinstance(x, (ast.Call, ast.Await, ast.Yield, ast.YieldFrom, ast.NamedExpr, ast.Lambda, ast.ListComp, ast.GeneratorExp,
                                  ast.SetComp, ast.DictComp)) for x in ast.walk(e))


def inline_new_temporaries(ref_fn, cur_fn):
    """A local that the reference function does not have, bound only by plain assignments `t = E`, each read only where
    its definition reaches in a straight line with nothing in between that could change what E denotes, is read as E:
    the temporary is an edit of spelling, not of behaviour.  Returns the names inlined."""
    from . import resolve
    ref_names = {n.id for n in ast.walk(ref_fn) if isinstance(n, ast.Name)} | {a.arg for a in ast.walk(ref_fn) if isinstance(a, ast.arg)}
    params = {a.arg for a in ast.walk(cur_fn.args) if isinstance(a, ast.arg)}
    skip = (ast.Lambda, ast.ListComp, ast.GeneratorExp, ast.DictComp, ast.SetComp, ast.Yield, ast.Await, ast.Starred)
    done = []
    for t in sorted(own_locals(cur_fn) - params - ref_names):
        binders = [s for s in own_statements(cur_fn) if not isinstance(s, FUNC + (ast.ClassDef,)) and t in _header_bound(s)]
        if not binders or not all(isinstance(d, ast.Assign) and len(d.targets) == 1 and isinstance(d.targets[0], ast.Name)
                                  and not isinstance(d.value, skip) for d in binders):
            continue
        by_value = {id(d.value): d for d in binders}
        uses, escapes = [], []

        def collect(node):
            for c in ast.iter_child_nodes(node):
                if isinstance(c, FUNC):
                    if t in own_locals(c):
                        continue            # another variable of the same name
                    if any(isinstance(x, ast.Name) and x.id == t for x in ast.walk(c)):
                        escapes.append(c)
                    continue
                if isinstance(c, ast.Name) and c.id == t and isinstance(c.ctx, ast.Load):
                    uses.append(c)
                collect(c)
        collect(cur_fn)
        if not uses or escapes:
            continue
        plan = []
        ok = True
        for u in uses:
            # the use is in the function's own scope (not in a nested def / lambda / comprehension)
            p = getattr(u, '_parent', None)
            while p is not None and p is not cur_fn:
                if isinstance(p, FUNC + (ast.Lambda, ast.ClassDef, ast.ListComp, ast.GeneratorExp, ast.SetComp, ast.DictComp)):
                    ok = False
                    break
                p = getattr(p, '_parent', None)
            if not ok or p is None:
                ok = False
                break
            st = resolve.stmt_of(u)
            E = resolve.definition(t, st)
            d = by_value.get(id(E)) if E is not None else None
            if d is None:
                ok = False
                break
            # nothing between the definition and the use can change what E denotes
            arith = _int_arith(d.value, cur_fn)
            for s_, _blocked in resolve._predecessors(st):
                if s_ is d:
                    break
                if not arith and not _quiet(s_):
                    ok = False
                    break
            if not ok:
                break
            # enclosing statements between the use and the block of the definition: no loops, quiet headers
            q = getattr(st, '_parent', None)
            dp = getattr(d, '_parent', None)
            while q is not None and q is not dp:
                if isinstance(q, (ast.For, ast.AsyncFor, ast.While, ast.With, ast.AsyncWith, ast.Try, ast.ExceptHandler)):
                    ok = False
                    break
                if isinstance(q, ast.If) and not arith and not _quiet(q.test):
                    ok = False
                    break
                q = getattr(q, '_parent', None)
            if not ok or q is None:
                ok = False
                break
            plan.append((u, d))
        if not ok:
            continue
        # an expression with calls is not duplicated
        count = {}
        for u, d in plan:
            count[id(d)] = count.get(id(d), 0) + 1
        if any(count.get(id(d), 0) > 1 and not _pure_expr(d.value) for d in binders):
            continue
        if any(count.get(id(d), 0) == 0 and not _pure_expr(d.value) for d in binders):
            continue            # a definition nobody reads whose evaluation may matter: leave everything alone
        for u, d in plan:
            new = clone(d.value)
            for x in ast.walk(new):
                if hasattr(x, 'lineno'):
                    x.lineno = getattr(u, 'lineno', x.lineno)
                    x.end_lineno = getattr(u, 'end_lineno', None)
            par = u._parent
            for name, val in ast.iter_fields(par):
                if val is u:
                    setattr(par, name, new)
                elif isinstance(val, list):
                    for i, v in enumerate(val):
                        if v is u:
                            val[i] = new
        for d in binders:
            par = d._parent
            for fld in ('body', 'orelse', 'finalbody'):
                blk = getattr(par, fld, None)
                if isinstance(blk, list) and any(b is d for b in blk):
                    blk[:] = [b for b in blk if b is not d] or [ast.copy_location(ast.Pass(), d)]
        retag(cur_fn)
        done.append(t)
    return done


def _header_bound(s):
    """names bound by the statement itself (not by statements nested in its blocks)"""
    out = set()
    for name, val in ast.iter_fields(s):
        if name in _BLOCKS:
            continue
        vals = val if isinstance(val, list) else [val]
        for v in vals:
            if isinstance(v, ast.AST):
                for x in ast.walk(v):
                    if isinstance(x, ast.Name) and isinstance(x.ctx, (ast.Store, ast.Del)):
                        out.add(x.id)
    if isinstance(s, ast.ExceptHandler) and s.name:
        out.add(s.name)
    return out


def respell(ref_fn, cur_fn):
    """A statement that is EQUAL to the aligned reference statement under the equivalences of sa/treecmp.py (commutativity,
    comparison orientation, keyword order, numeric spelling, `not a in b`, range(0, n), ...) is given the reference's
    spelling, so that every rule reads one spelling of one computation.  Returns the number of statements respelled."""
    import copy
    from . import refdiff
    R, C = refdiff.records(ref_fn), refdiff.records(cur_fn)
    rk, ck = [refdiff._key(x) for x in R], [refdiff._key(x) for x in C]
    sm = difflib.SequenceMatcher(a=rk, b=ck, autojunk=False)
    n = 0
    for blk in sm.get_matching_blocks():
        for k in range(blk.size):
            (kind, rc, rn), (_k, cc, cn) = R[blk.a + k], C[blk.b + k]
            if not rc or len(rc) != len(cc) or kind in ('def', 'else', 'try'):
                continue
            if all(ast.dump(a) == ast.dump(b) for a, b in zip(rc, cc)):
                continue
            new = []
            for a, b in zip(rc, cc):
                x = clone(a)
                for y in ast.walk(x):
                    if hasattr(y, 'lineno') or isinstance(y, (ast.expr,)):
                        y.lineno = getattr(b, 'lineno', getattr(cn, 'lineno', 1))
                        y.end_lineno = getattr(b, 'end_lineno', None)
                        y.col_offset = getattr(b, 'col_offset', 0)
                        y.end_col_offset = getattr(b, 'end_col_offset', None)
                new.append(x)
            if _set_components(cn, kind, cc, new):
                n += 1
    if n:
        retag(cur_fn)
    return n


def _set_components(stmt, kind, old, new):
    """replace the component expression nodes `old` of the statement (identity) by `new`"""
    ids = {id(o): nw for o, nw in zip(old, new)}
    hit = 0
    for name, val in ast.iter_fields(stmt):
        if name in _BLOCKS:
            continue
        if isinstance(val, list):
            for i, v in enumerate(val):
                if id(v) in ids:
                    val[i] = ids[id(v)]
                    hit += 1
                elif isinstance(v, ast.withitem):
                    if id(v.context_expr) in ids:
                        v.context_expr = ids[id(v.context_expr)]
                        hit += 1
                    if v.optional_vars is not None and id(v.optional_vars) in ids:
                        v.optional_vars = ids[id(v.optional_vars)]
                        hit += 1
        elif isinstance(val, ast.AST) and id(val) in ids:
            setattr(stmt, name, ids[id(val)])
            hit += 1
    return hit == len(old)


def normalise(prog):
    """Bring every function that has a reference of the same qualified name to the reference's spelling where the
    difference is one of spelling only: purely renamed locals, temporaries the reference does not have, statements equal
    under the treecmp equivalences.  Returns {qual: description}."""
    ref = reference_functions()
    done = {}
    # outer functions first: their renamings reach the free variables of the nested ones
    for q in sorted(prog.functions, key=lambda q: (q.count('.<locals>.'), q)):
        text = ref.get(q)
        if text is None:
            continue
        fi = prog.functions[q]
        try:
            rf = ast.parse(text).body[0]
        except Exception:
            continue
        if not isinstance(rf, FUNC):
            continue
        try:
            if ast.unparse(fi.node) == text:
                continue        # unchanged since the reference was taken
        except Exception:
            continue
        what = {}
        try:
            m = infer_map(rf, fi.node)
            if m:
                apply_map(fi.node, m)
                fi.node._renamed = dict(m)
                what['renamed'] = m
        except RecursionError:
            pass
        try:
            t = inline_new_temporaries(rf, fi.node)
            if t:
                what['inlined'] = t
        except RecursionError:
            pass
        try:
            k = respell(rf, fi.node)
            if k:
                what['respelled'] = k
        except RecursionError:
            pass
        if what:
            done[q] = what
    return done

"""Alpha-normalisation of local names against the confirmed reference.

The rules of this checker were written while reading one tree; where they name a local variable (`A`, `out`, `x1`) they mean
"the variable that plays that role".  Renaming a local is the most common behaviour-preserving edit, so before any rule
runs every function of the analysed tree is compared with the function of the same qualified name in
reference/functions.json (written by tools/make_reference.py from a confirmed tree):

  * the own statements of both versions are reduced to skeletons -- the statement (header only, for compound statements)
    with every local name (parameters, assigned names, loop and comprehension variables) replaced by a hole -- and the two
    skeleton sequences are aligned (difflib);
  * every aligned pair of equal skeletons votes, hole by hole, "current name c stands where the reference has r";
  * a current name is renamed to the reference's name only if ALL its votes name the same r, the resulting map is injective
    on the function's names, and r is not otherwise used in the function.  Anything else keeps its name.

A pure renaming therefore disappears; a statement in which one variable was REPLACED by another one keeps its names (the
replaced variable has conflicting votes), so the rules still see the replacement.  The deciding step stays static: only
syntax trees are compared.  Reports quote the normalised (reference) names; `renamed` on the function node keeps the map.
"""
import ast
import difflib
import json
import os

HERE = os.path.dirname(os.path.dirname(os.path.abspath(__file__)))
REF = os.path.join(HERE, 'reference', 'functions.json')
FUNC = (ast.FunctionDef, ast.AsyncFunctionDef)
_SKIP = ('lineno', 'col_offset', 'end_lineno', 'end_col_offset', 'ctx', 'type_comment')
_BLOCKS = ('body', 'orelse', 'finalbody', 'handlers')


def own_locals(fn):
    """names bound in the function's own scope: parameters, stores, loop/comprehension/with/except targets (not nested defs)"""
    out = set()
    a = fn.args
    for x in a.posonlyargs + a.args + a.kwonlyargs:
        out.add(x.arg)
    if a.vararg:
        out.add(a.vararg.arg)
    if a.kwarg:
        out.add(a.kwarg.arg)
    declared = set()

    def rec(n):
        for c in ast.iter_child_nodes(n):
            if isinstance(c, FUNC + (ast.ClassDef, ast.Lambda)):
                continue
            if isinstance(c, (ast.Global, ast.Nonlocal)):
                declared.update(c.names)
            if isinstance(c, ast.Name) and isinstance(c.ctx, (ast.Store, ast.Del)):
                out.add(c.id)
            if isinstance(c, ast.ExceptHandler) and c.name:
                out.add(c.name)
            rec(c)
    rec(fn)
    return {x for x in out if x not in declared and not x.startswith('__')}


def own_statements(fn):
    out = []

    def rec(block):
        for s in block:
            out.append(s)
            if isinstance(s, FUNC + (ast.ClassDef,)):
                continue
            for fld in ('body', 'orelse', 'finalbody'):
                b = getattr(s, fld, None)
                if isinstance(b, list) and b and isinstance(b[0], ast.stmt):
                    rec(b)
            for h in getattr(s, 'handlers', []) or []:
                out.append(h)
                rec(h.body)
    rec(fn.body)
    return out


def skeleton(stmt, locs):
    """(text, [local names in traversal order])"""
    occ, out = [], []

    def rec(node, top=False):
        if isinstance(node, ast.Name) and node.id in locs:
            occ.append(node.id)
            out.append('?')
            return
        if isinstance(node, ast.arg) and node.arg in locs:
            occ.append(node.arg)
            out.append('?')
            return
        out.append(type(node).__name__)
        out.append('(')
        for name, val in ast.iter_fields(node):
            if name in _SKIP or (top and name in _BLOCKS):
                continue
            if isinstance(node, ast.ExceptHandler) and name == 'name' and val in locs:
                occ.append(val)
                out.append('?')
                continue
            if isinstance(val, list):
                out.append('[')
                for v in val:
                    if isinstance(v, ast.AST):
                        rec(v)
                    else:
                        out.append(repr(v))
                out.append(']')
            elif isinstance(val, ast.AST):
                rec(val)
            else:
                out.append(repr(val))
            out.append(',')
        out.append(')')
    if isinstance(stmt, FUNC + (ast.ClassDef,)):
        return 'def ' + stmt.name, []
    rec(stmt, top=True)
    return ''.join(out), occ


def infer_map(ref_fn, cur_fn):
    """{current name: reference name} for the names that were purely renamed"""
    rl, cl = own_locals(ref_fn), own_locals(cur_fn)
    # the parameter list takes part as a pseudo statement
    rs = [skeleton(ref_fn.args, rl)] + [skeleton(s, rl) for s in own_statements(ref_fn)]
    cs = [skeleton(cur_fn.args, cl)] + [skeleton(s, cl) for s in own_statements(cur_fn)]
    sm = difflib.SequenceMatcher(a=[x[0] for x in rs], b=[x[0] for x in cs], autojunk=False)
    votes = {}
    for blk in sm.get_matching_blocks():
        for k in range(blk.size):
            ro, co = rs[blk.a + k][1], cs[blk.b + k][1]
            if len(ro) != len(co):
                continue
            for r, c in zip(ro, co):
                votes.setdefault(c, {}).setdefault(r, 0)
                votes[c][r] += 1
    m = {}
    for c in cl:
        v = votes.get(c)
        if v and len(v) == 1:
            r = next(iter(v))
            if r != c:
                m[c] = r
    if not m:
        return {}
    # all names read or written anywhere in the function (globals, builtins, free variables included)
    used = set()
    for n in ast.walk(cur_fn):
        if isinstance(n, ast.Name):
            used.add(n.id)
        elif isinstance(n, ast.arg):
            used.add(n.arg)
    changed = True
    while changed:
        changed = False
        image = {}
        for c in used:
            image.setdefault(m.get(c, c), []).append(c)
        for r, cs_ in image.items():
            if len(cs_) > 1:
                for c in cs_:
                    if c in m:
                        del m[c]
                        changed = True
    return m


def apply_map(fn, m):
    """rename in the function's subtree (every node once); a nested scope that rebinds a name keeps it"""
    def ren(c, active):
        if isinstance(c, ast.Name) and c.id in active:
            c.id = active[c.id]
        elif isinstance(c, ast.arg) and c.arg in active:
            c.arg = active[c.arg]
        elif isinstance(c, ast.ExceptHandler) and c.name in active:
            c.name = active[c.name]

    def params_of(a):
        out = {x.arg for x in a.posonlyargs + a.args + a.kwonlyargs}
        if a.vararg:
            out.add(a.vararg.arg)
        if a.kwarg:
            out.add(a.kwarg.arg)
        return out

    def visit(node, active):
        if isinstance(node, FUNC):
            inner = own_locals(node)
            nonloc = set()
            for x in ast.walk(node):
                if isinstance(x, ast.Nonlocal):
                    nonloc.update(x.names)
            sub = {k: v for k, v in active.items() if k not in inner or k in nonloc}
            # decorators and defaults are evaluated in the enclosing scope
            for d in node.decorator_list + node.args.defaults + [x for x in node.args.kw_defaults if x is not None]:
                visit(d, active)
            for s in node.body:
                visit(s, sub)
            return
        if isinstance(node, ast.Lambda):
            sub = {k: v for k, v in active.items() if k not in params_of(node.args)}
            for d in node.args.defaults + [x for x in node.args.kw_defaults if x is not None]:
                visit(d, active)
            visit(node.body, sub)
            return
        ren(node, active)
        for c in ast.iter_child_nodes(node):
            visit(c, active)
    visit(fn.args, m)
    for s in fn.body:
        visit(s, m)


_cache = {}


def reference_functions():
    if 'f' not in _cache:
        try:
            _cache['f'] = json.load(open(REF))['functions']
        except Exception:
            _cache['f'] = {}
    return _cache['f']


def normalise(prog):
    """rename purely renamed locals of every function of the program to the reference's names; returns {qual: map}"""
    ref = reference_functions()
    done = {}
    # outer functions first: their renamings reach the free variables of the nested ones
    for q in sorted(prog.functions, key=lambda q: (q.count('.<locals>.'), q)):
        text = ref.get(q)
        if text is None:
            continue
        fi = prog.functions[q]
        try:
            rf = ast.parse(text).body[0]
        except Exception:
            continue
        if not isinstance(rf, FUNC):
            continue
        try:
            m = infer_map(rf, fi.node)
        except RecursionError:
            continue
        if m:
            apply_map(fi.node, m)
            fi.node._renamed = dict(m)
            done[q] = m
    return done

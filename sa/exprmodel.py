"""Model of the vform expression classes shared by C01 / C06 / C13."""
import ast

from .program import src, own_nodes, call_name, AnchorMissing

VF = 'pyiga.vform'
CG = 'pyiga.codegen.cython'


def expr_classes(prog):
    """All concrete subclasses of vform.Expr (in pyiga.vform)."""
    return [c for c in prog.subclasses(VF + '.Expr') if c.unit.modname == VF]


def init_attrs(cls):
    """Instance attributes assigned in __init__ (name -> assignment node)."""
    init = cls.methods.get('__init__')
    out = {}
    if init is None:
        return out
    for s in own_nodes(init.node):
        if isinstance(s, ast.Assign):
            for t in s.targets:
                tl = t.elts if isinstance(t, ast.Tuple) else [t]
                for x in tl:
                    if isinstance(x, ast.Attribute) and isinstance(x.value, ast.Name) and x.value.id == 'self':
                        out.setdefault(x.attr, s)
    return out


def hash_key_attrs(prog, cls):
    """Attributes of self mentioned in hash_key() (looked up through in-package bases)."""
    m = prog.mro_lookup(cls, 'hash_key')
    if m is None:
        return set(), None
    attrs = set()
    for n in ast.walk(m.node):
        if isinstance(n, ast.Attribute) and isinstance(n.value, ast.Name) and n.value.id == 'self':
            attrs.add(n.attr)
    return attrs, m


def fixed_scalar(cls):
    """True if __init__ unconditionally sets self.shape = ()."""
    init = cls.methods.get('__init__')
    if init is None:
        return False
    for s in init.node.body:
        if isinstance(s, ast.Assign) and src(s.targets[0]) == 'self.shape' and src(s.value) == '()':
            return True
    return False


def codegen_reads(prog):
    """Attribute names that the code generator reads from expression nodes
    (parameters/locals named expr, e, e_i in gencode_* and friends)."""
    unit = prog.unit(CG)
    reads = {}
    for n in ast.walk(unit.tree):
        if isinstance(n, ast.Attribute) and isinstance(n.value, ast.Name) and n.value.id in ('expr', 'e', 'e_i'):
            reads.setdefault(n.attr, n)
    return reads


def dispatch_table(prog):
    f = prog.func(CG + '.CodegenVisitor.gencode')
    for s in own_nodes(f.node):
        if isinstance(s, ast.Assign) and src(s.targets[0]) == 'dispatch' and isinstance(s.value, ast.Dict):
            return {src(k).split('.')[-1]: src(v) for k, v in zip(s.value.keys, s.value.values)}, s
    raise AnchorMissing('dispatch table of CodegenVisitor.gencode not found')

"""Model of the vform expression classes shared by C01 / C06 / C13."""
import ast

from .program import src, own_nodes, call_name, AnchorMissing

VF = 'pyiga.vform'
CG = 'pyiga.codegen.cython'


def expr_classes(prog):
    """All concrete subclasses of vform.Expr (in pyiga.vform)."""
    return [c for c in prog.subclasses(VF + '.Expr') if c.unit.modname == VF]


def init_attrs(cls):
    """Instance attributes assigned in __init__ (name -> assignment node)."""
    init = cls.methods.get('__init__')
    out = {}
    if init is None:
        return out
    for s in own_nodes(init.node):
        if isinstance(s, ast.Assign):
            for t in s.targets:
                tl = t.elts if isinstance(t, ast.Tuple) else [t]
                for x in tl:
                    if isinstance(x, ast.Attribute) and isinstance(x.value, ast.Name) and x.value.id == 'self':
                        out.setdefault(x.attr, s)
    return out


def hash_key_attrs(prog, cls):
    """Attributes of self mentioned in hash_key() (looked up through in-package bases)."""
    m = prog.mro_lookup(cls, 'hash_key')
    if m is None:
        return set(), None
    attrs = set()
    for n in ast.walk(m.node):
        if isinstance(n, ast.Attribute) and isinstance(n.value, ast.Name) and n.value.id == 'self':
            attrs.add(n.attr)
    return attrs, m


def fixed_scalar(cls):
    """True if __init__ unconditionally sets self.shape = ()."""
    init = cls.methods.get('__init__')
    if init is None:
        return False
    for s in init.node.body:
        if isinstance(s, ast.Assign) and src(s.targets[0]) == 'self.shape' and src(s.value) == '()':
            return True
    return False


def codegen_reads(prog):
    """Attribute names that the code generator reads from expression nodes
    (parameters/locals named expr, e, e_i in gencode_* and friends)."""
    unit = prog.unit(CG)
    reads = {}
    for n in ast.walk(unit.tree):
        if isinstance(n, ast.Attribute) and isinstance(n.value, ast.Name) and n.value.id in ('expr', 'e', 'e_i'):
            reads.setdefault(n.attr, n)
    return reads


def dispatch_table(prog):
    f = prog.func(CG + '.CodegenVisitor.gencode')
    for s in own_nodes(f.node):
        if isinstance(s, ast.Assign) and src(s.targets[0]) == 'dispatch' and isinstance(s.value, ast.Dict):
            return {src(k).split('.')[-1]: src(v) for k, v in zip(s.value.keys, s.value.values)}, s
    raise AnchorMissing('dispatch table of CodegenVisitor.gencode not found')


# ---------------------------------------------------------------------------------------------------------------------
# injectivity of the structural hash (shared by C01 / C06 / C13)

_INJECTIVE_CALLS = {'tuple', 'str', 'repr', 'frozenset_of_pairs'}
# many-to-one by construction: different attribute values give the same key element
_LOSSY_CALLS = {'round', 'int', 'abs', 'bool', 'len', 'min', 'max', 'sum', 'any', 'all', 'sorted', 'set', 'frozenset', 'type',
                'np.round', 'np.around', 'np.floor', 'np.ceil', 'np.abs', 'np.sign', 'math.floor', 'math.ceil', 'math.trunc', 'np.isclose'}
_LOSSY_NODES = (ast.BoolOp, ast.Compare, ast.IfExp)


def _self_attr_root(e):
    """self.f[.g ...] -> 'f'"""
    while isinstance(e, ast.Attribute):
        if isinstance(e.value, ast.Name) and e.value.id == 'self':
            return e.attr
        e = e.value
    return None


def hash_key_coverage(prog, cls):
    """(covered, lossy, method): attributes of self that enter the tuple returned by hash_key() through injective
    operations only (the attribute itself, an attribute chain, .hash()/.hash_key() of it, tuple()/str() of it, a local
    bound to one of those), and attributes that are mentioned but only inside information-destroying expressions
    (boolean operators, comparisons, conditional expressions); lossy maps attribute -> offending expression node."""
    m = prog.mro_lookup(cls, 'hash_key')
    if m is None:
        return set(), {}, None
    local_defs = {}
    for s in own_nodes(m.node):
        if isinstance(s, ast.Assign) and len(s.targets) == 1 and isinstance(s.targets[0], ast.Name):
            local_defs.setdefault(s.targets[0].id, []).append(s.value)
    covered, lossy, unknown = set(), {}, {}

    def mentioned(e):
        return {n.attr for n in ast.walk(e) if isinstance(n, ast.Attribute) and isinstance(n.value, ast.Name) and n.value.id == 'self'}

    def walk(e, depth=0):
        if isinstance(e, (ast.Tuple, ast.List)):
            for x in e.elts:
                walk(x, depth)
        elif isinstance(e, ast.Starred):
            walk(e.value, depth)
        elif isinstance(e, ast.BinOp) and isinstance(e.op, ast.Add):        # tuple concatenation
            walk(e.left, depth)
            walk(e.right, depth)
        elif isinstance(e, ast.Attribute):
            r = _self_attr_root(e)
            if r is not None:
                covered.add(r)
        elif isinstance(e, ast.Call):
            f = e.func
            if isinstance(f, ast.Attribute) and f.attr in ('hash', 'hash_key') and not e.args:
                walk(f.value, depth)
            elif isinstance(f, ast.Name) and f.id in _INJECTIVE_CALLS and len(e.args) == 1:
                walk(e.args[0], depth)
            elif (call_name(e) or '') in _LOSSY_CALLS:
                for a in mentioned(e):
                    lossy.setdefault(a, e)
            else:
                for a in mentioned(e):
                    unknown.setdefault(a, e)
        elif isinstance(e, ast.Name) and depth < 4 and len(local_defs.get(e.id, [])) == 1:
            walk(local_defs[e.id][0], depth + 1)
        elif isinstance(e, ast.Constant):
            pass
        elif isinstance(e, _LOSSY_NODES):
            for a in mentioned(e):
                lossy.setdefault(a, e)
            # a lossy expression over locals: look through the locals too
            for n in ast.walk(e):
                if isinstance(n, ast.Name) and len(local_defs.get(n.id, [])) == 1:
                    for a in mentioned(local_defs[n.id][0]):
                        lossy.setdefault(a, e)
        else:
            for a in mentioned(e):
                unknown.setdefault(a, e)

    from . import guards
    for r in guards.returns_of(m.node):
        if r.value is not None:
            walk(r.value)
    for a in covered:
        lossy.pop(a, None)
        unknown.pop(a, None)
    return covered, {'lossy': lossy, 'unknown': unknown}, m


_ORDER_DESTROYING = {'sorted', 'set', 'frozenset', 'sum', 'min', 'max', 'len', 'any', 'all'}


def hash_combiners(prog):
    """Every method `hash(self, child_hashes)` of Expr and its subclasses, with the way the child hashes enter the result:
    yields (method, verdict, node, reason) with verdict in 'positional' | 'order-destroying' | 'dropped' | 'unknown'."""
    out = []
    classes = list(expr_classes(prog))
    base = prog.cls(VF + '.Expr') if hasattr(prog, 'cls') else None
    if base is not None and base not in classes:
        classes.append(base)
    for c in classes:
        m = c.methods.get('hash')
        if m is None:
            continue
        args = [a.arg for a in m.node.args.args]
        if len(args) < 2:
            continue
        ch = args[1]
        from .program import parent
        uses = [n for n in ast.walk(m.node) if isinstance(n, ast.Name) and n.id == ch and isinstance(n.ctx, ast.Load)]
        if not uses:
            out.append((m, 'dropped', m.node, 'the child hashes do not enter the result'))
            continue
        for u in uses:
            p = parent(u)
            verdict, why = 'unknown', 'child hashes used in ' + src(p)[:80]
            if isinstance(p, ast.BinOp) and isinstance(p.op, ast.Add):
                verdict, why = 'positional', 'tuple concatenation keeps the order of the children'
            elif isinstance(p, ast.Call) and u in p.args:
                fn = call_name(p) or ''
                if fn in _ORDER_DESTROYING:
                    verdict, why = 'order-destroying', '%s(...) forgets which child is which' % fn
                elif fn == 'tuple':
                    gp = parent(p)
                    if isinstance(gp, ast.Call) and (call_name(gp) or '') in _ORDER_DESTROYING:
                        verdict, why = 'order-destroying', '%s(...) forgets which child is which' % call_name(gp)
                    else:
                        verdict, why = 'positional', 'tuple() keeps the order'
                elif fn.endswith('.hash') or fn == 'hash':
                    verdict, why = 'positional', 'passed on unchanged'
            elif isinstance(p, ast.Subscript) and p.value is u:
                verdict, why = 'dropped', 'only part of the child hashes is used: ' + src(p)
            elif isinstance(p, (ast.Tuple,)):
                verdict, why = 'positional', 'kept as one tuple element'
            elif isinstance(p, ast.Starred):
                verdict, why = 'positional', 'unpacked in order'
            # a sorted(...) further out: tuple(sorted(child_hashes)) is caught above; sorted(x for x in child_hashes):
            q = p
            while q is not None and q is not m.node:
                if isinstance(q, ast.Call) and (call_name(q) or '') in _ORDER_DESTROYING:
                    verdict, why = 'order-destroying', '%s(...) forgets which child is which' % call_name(q)
                    break
                q = parent(q)
            out.append((m, verdict, u, why))
    return out


def noncommutative_evidence(cls):
    """String constants '-' or '/' compared with self.oper inside the class: the class represents non-commutative operators."""
    for n in ast.walk(cls.node):
        if isinstance(n, ast.Compare) and 'oper' in src(n.left):
            for c in n.comparators:
                if isinstance(c, ast.Constant) and c.value in ('-', '/'):
                    return n
    return None

"""F-cy: Cython front end.

Parses *.pyx / *.pxi with the Cython compiler's own parser (parser only -- no
type analysis, no code generation, nothing is compiled or executed) and lowers
the parse tree into a plain Python ``ast.Module`` so that every rule can work on
one tree type.  Cython-specific information is kept on the side:

* ``FunctionDef._cy``  dict(kind='def'|'cdef'|'cpdef', rettype, nogil, directives{name: value},
                            argtypes{name: ctype})
* ``FunctionDef._decls`` {local name: CType}  from ``cdef`` statements and typed arguments
* ``cdef`` variable definitions become ``ast.AnnAssign`` with a string annotation

CType is a small record: base name, memoryview rank, fixed array dims, pointer depth.
"""
import ast
import os
import io

from Cython.Compiler.Main import Context, CompilationOptions, default_options
from Cython.Compiler.Scanning import FileSourceDescriptor, StringSourceDescriptor
from Cython.Compiler import Errors


class CType:
    __slots__ = ('base', 'mv_rank', 'mv_contig', 'dims', 'ptr', 'text')

    def __init__(self, base, mv_rank=0, dims=(), ptr=0, mv_contig=False):
        self.base = base
        self.mv_rank = mv_rank
        self.mv_contig = mv_contig
        self.dims = tuple(dims)     # tuple of ast expr (usually Constant ints)
        self.ptr = ptr
        t = base = str(base)
        if mv_rank:
            t += '[' + ','.join([':'] * mv_rank) + ']'
        for d in self.dims:
            t += '[%s]' % (ast.unparse(d) if isinstance(d, ast.AST) else d)
        t += '*' * ptr
        self.text = t

    def const_dims(self):
        out = []
        for d in self.dims:
            if isinstance(d, ast.Constant) and isinstance(d.value, int):
                out.append(d.value)
            else:
                out.append(None)
        return out

    def __repr__(self):
        return 'CType(%s)' % self.text


class LoweringError(Exception):
    pass


_BINOPS = {
    '+': ast.Add, '-': ast.Sub, '*': ast.Mult, '/': ast.Div, '//': ast.FloorDiv,
    '%': ast.Mod, '**': ast.Pow, '<<': ast.LShift, '>>': ast.RShift,
    '|': ast.BitOr, '&': ast.BitAnd, '^': ast.BitXor, '@': ast.MatMult,
}
_CMPOPS = {
    '<': ast.Lt, '<=': ast.LtE, '>': ast.Gt, '>=': ast.GtE, '==': ast.Eq, '!=': ast.NotEq,
    'is': ast.Is, 'is_not': ast.IsNot, 'is not': ast.IsNot, 'in': ast.In,
    'not_in': ast.NotIn, 'not in': ast.NotIn,
}


def parse_cython_tree(path, text=None):
    """Return the raw Cython parse tree of a file (``include`` statements are
    expanded by the parser itself)."""
    opts = CompilationOptions(default_options)
    ctx = Context.from_options(opts)
    full = 'pyiga.' + os.path.splitext(os.path.basename(path))[0]
    scope = ctx.find_submodule(full)
    desc = FileSourceDescriptor(path, path)
    # keep Cython from writing error reports to stderr of the check
    Errors.init_thread()
    tree = ctx.parse(desc, scope, pxd=False, full_module_name=full)
    return tree


class Lowerer:
    def __init__(self, path):
        self.path = path
        self.unknown = []          # node kinds we could not lower (reported in evidence)

    # ---------------------------------------------------------------- helpers
    def _pos(self, node, out):
        line = node.pos[1] if getattr(node, 'pos', None) else 1
        col = node.pos[2] if getattr(node, 'pos', None) else 0
        for n in ast.walk(out) if isinstance(out, ast.AST) else ():
            if not hasattr(n, 'lineno') or n.lineno is None:
                n.lineno = line
                n.col_offset = col
                n.end_lineno = line
                n.end_col_offset = col
        # which file the node came from (include files)
        if isinstance(out, ast.AST) and getattr(node, 'pos', None):
            try:
                out._file = node.pos[0].filename
            except Exception:
                out._file = self.path
        return out

    # ---------------------------------------------------------------- types
    def ctype(self, bt, declarator=None):
        k = type(bt).__name__
        if k == 'CSimpleBaseTypeNode':
            base = '.'.join(list(bt.module_path) + [bt.name]) if getattr(bt, 'module_path', None) else bt.name
            ct = dict(base=base)
        elif k == 'MemoryViewSliceTypeNode':
            inner = self.ctype(bt.base_type_node)
            contig = any(type(a.step).__name__ == 'IntNode' for a in bt.axes)
            ct = dict(base=inner.base, mv_rank=len(bt.axes), mv_contig=contig)
        elif k == 'TemplatedTypeNode':
            inner = self.ctype(bt.base_type_node)
            dims = [self.expr(a) for a in bt.positional_args]
            if inner.base in ('np.ndarray', 'ndarray'):
                # old buffer syntax np.ndarray[double, ndim=2]
                ct = dict(base='ndarray')
            else:
                ct = dict(base=inner.base, dims=dims)
        elif k == 'CComplexBaseTypeNode':
            inner = self.ctype(bt.base_type, bt.declarator)
            return inner
        elif k in ('CConstOrVolatileTypeNode', 'CQualifierTypeNode', 'CConstTypeNode'):
            return self.ctype(bt.base_type, declarator)
        elif k == 'CTupleBaseTypeNode':
            ct = dict(base='ctuple')
        else:
            ct = dict(base='?' + k)
        ptr = 0
        dims = list(ct.get('dims', ()))
        d = declarator
        while d is not None:
            dk = type(d).__name__
            if dk == 'CPtrDeclaratorNode':
                ptr += 1
                d = d.base
            elif dk == 'CArrayDeclaratorNode':
                dims.insert(0, self.expr(d.dimension) if d.dimension is not None else ast.Constant(None))
                d = d.base
            elif dk == 'CReferenceDeclaratorNode':
                d = d.base
            elif dk == 'CFuncDeclaratorNode':
                d = d.base
            else:
                break
        return CType(ct['base'], ct.get('mv_rank', 0), dims, ptr, ct.get('mv_contig', False))

    @staticmethod
    def decl_name(d):
        while d is not None and type(d).__name__ != 'CNameDeclaratorNode':
            d = d.base
        return d.name if d is not None else ''

    @staticmethod
    def decl_default(d):
        while d is not None and type(d).__name__ != 'CNameDeclaratorNode':
            d = d.base
        return getattr(d, 'default', None) if d is not None else None

    # ---------------------------------------------------------------- expressions
    def expr(self, n):
        if n is None:
            return None
        k = type(n).__name__
        m = getattr(self, 'e_' + k, None)
        if m is None:
            if hasattr(n, 'operator') and hasattr(n, 'operand1') and n.operator in _BINOPS:
                out = ast.BinOp(self.expr(n.operand1), _BINOPS[n.operator](), self.expr(n.operand2))
            else:
                self.unknown.append(k)
                out = ast.Call(ast.Name('__cy_' + k, ast.Load()), [], [])
        else:
            out = m(n)
        return self._pos(n, out)

    def e_NameNode(self, n):
        return ast.Name(str(n.name), ast.Load())

    def e_IntNode(self, n):
        v = str(n.value)
        try:
            return ast.Constant(int(v, 0))
        except ValueError:
            return ast.Constant(int(v.rstrip('uUlL'), 0))

    def e_FloatNode(self, n):
        return ast.Constant(float(n.value))

    def e_BoolNode(self, n):
        return ast.Constant(bool(n.value))

    def e_NoneNode(self, n):
        return ast.Constant(None)

    def e_NullNode(self, n):
        return ast.Name('NULL', ast.Load())

    def e_EllipsisNode(self, n):
        return ast.Constant(Ellipsis)

    def e_UnicodeNode(self, n):
        return ast.Constant(str(n.value))

    e_StringNode = e_UnicodeNode
    e_IdentifierStringNode = e_UnicodeNode

    def e_BytesNode(self, n):
        return ast.Constant(bytes(n.value, 'latin-1') if isinstance(n.value, str) else bytes(n.value))

    def e_AttributeNode(self, n):
        return ast.Attribute(self.expr(n.obj), str(n.attribute), ast.Load())

    def e_IndexNode(self, n):
        return ast.Subscript(self.expr(n.base), self.expr(n.index), ast.Load())

    def e_SliceIndexNode(self, n):
        return ast.Subscript(self.expr(n.base),
                             ast.Slice(self.expr(n.start), self.expr(n.stop), None), ast.Load())

    def e_SliceNode(self, n):
        def opt(x):
            if x is None or type(x).__name__ == 'NoneNode':
                return None
            return self.expr(x)
        return ast.Slice(opt(n.start), opt(n.stop), opt(n.step))

    def e_TupleNode(self, n):
        return ast.Tuple([self.expr(a) for a in n.args], ast.Load())

    def e_ListNode(self, n):
        return ast.List([self.expr(a) for a in n.args], ast.Load())

    def e_SetNode(self, n):
        return ast.Set([self.expr(a) for a in n.args])

    def e_DictNode(self, n):
        return ast.Dict([self.expr(i.key) for i in n.key_value_pairs],
                        [self.expr(i.value) for i in n.key_value_pairs])

    def e_SimpleCallNode(self, n):
        return ast.Call(self.expr(n.function), [self.expr(a) for a in n.args], [])

    def e_GeneralCallNode(self, n):
        pos = n.positional_args
        args = [self.expr(a) for a in pos.args] if type(pos).__name__ == 'TupleNode' else [ast.Starred(self.expr(pos), ast.Load())]
        kws = []
        kw = n.keyword_args
        if kw is not None:
            if type(kw).__name__ == 'DictNode':
                for it in kw.key_value_pairs:
                    kws.append(ast.keyword(str(it.key.value), self.expr(it.value)))
            else:
                kws.append(ast.keyword(None, self.expr(kw)))
        return ast.Call(self.expr(n.function), args, kws)

    def e_UnaryMinusNode(self, n):
        return ast.UnaryOp(ast.USub(), self.expr(n.operand))

    def e_UnaryPlusNode(self, n):
        return ast.UnaryOp(ast.UAdd(), self.expr(n.operand))

    def e_TildeNode(self, n):
        return ast.UnaryOp(ast.Invert(), self.expr(n.operand))

    def e_NotNode(self, n):
        return ast.UnaryOp(ast.Not(), self.expr(n.operand))

    def e_AmpersandNode(self, n):
        return ast.Call(ast.Name('__addr', ast.Load()), [self.expr(n.operand)], [])

    def e_TypecastNode(self, n):
        ct = self.ctype(n.base_type, n.declarator)
        return ast.Call(ast.Name('__cast', ast.Load()), [ast.Constant(ct.text), self.expr(n.operand)], [])

    def e_CythonArrayNode(self, n):
        return ast.Call(ast.Name('__cyarray', ast.Load()), [self.expr(n.operand)], [])

    def e_PrimaryCmpNode(self, n):
        left = self.expr(n.operand1)
        ops, comps = [], []
        c = n
        while c is not None:
            ops.append(_CMPOPS[c.operator]())
            comps.append(self.expr(c.operand2))
            c = c.cascade
        return ast.Compare(left, ops, comps)

    def e_BoolBinopNode(self, n):
        op = ast.And() if n.operator == 'and' else ast.Or()
        return ast.BoolOp(op, [self.expr(n.operand1), self.expr(n.operand2)])

    def e_CondExprNode(self, n):
        test = getattr(n, 'test', None) or getattr(n, 'condition', None)
        return ast.IfExp(self.expr(test), self.expr(n.true_val), self.expr(n.false_val))

    def e_LambdaNode(self, n):
        return ast.Lambda(self.arguments(n.args, n.star_arg, n.starstar_arg)[0], self.expr(n.result_expr))

    def e_StarredUnpackingNode(self, n):
        return ast.Starred(self.expr(n.target), ast.Load())

    def e_YieldExprNode(self, n):
        return ast.Yield(self.expr(n.arg))

    def e_ImportNode(self, n):
        return ast.Call(ast.Name('__import__', ast.Load()), [self.expr(n.module_name)], [])

    def e_FormattedValueNode(self, n):
        return ast.FormattedValue(self.expr(n.value), -1, None)

    def e_JoinedStrNode(self, n):
        return ast.JoinedStr([self.expr(v) for v in n.values])

    def _comp(self, n, kind):
        gens = []
        node = n.loop
        elt = None
        while node is not None:
            k = type(node).__name__
            if k == 'ForInStatNode':
                gens.append(ast.comprehension(self.target(node.target), self.expr(node.iterator.sequence), [], 0))
                node = node.body
            elif k == 'IfStatNode':
                gens[-1].ifs.append(self.expr(node.if_clauses[0].condition))
                node = node.if_clauses[0].body
            elif k == 'StatListNode':
                node = node.stats[0] if node.stats else None
            elif k == 'ExprStatNode':
                node = node.expr
            elif k == 'ComprehensionAppendNode':
                elt = self.expr(node.expr)
                break
            elif k == 'DictComprehensionAppendNode':
                return ast.DictComp(self.expr(node.key_expr), self.expr(node.value_expr), gens)
            elif k == 'YieldExprNode':
                elt = self.expr(node.arg)
                break
            else:
                self.unknown.append('comp:' + k)
                elt = ast.Constant(None)
                break
        if elt is None:
            elt = ast.Constant(None)
        return kind(elt, gens)

    def e_ComprehensionNode(self, n):
        kind = ast.ListComp
        tname = getattr(getattr(n, 'type', None), 'name', '')
        if tname == 'set':
            kind = ast.SetComp
        return self._comp(n, kind)

    def e_GeneratorExpressionNode(self, n):
        # n.def_node.gbody.body holds the loop in Cython 3; fall back to n.loop
        loop = getattr(n, 'loop', None)
        if loop is None:
            dn = getattr(n, 'def_node', None)
            loop = getattr(getattr(dn, 'gbody', None), 'body', None)

        class _N:
            pass
        h = _N()
        h.loop = loop
        return self._comp(h, ast.GeneratorExp)

    def target(self, n):
        e = self.expr(n)
        for x in ast.walk(e):
            if isinstance(x, (ast.Name, ast.Subscript, ast.Attribute, ast.Tuple, ast.List, ast.Starred)):
                x.ctx = ast.Store()
        # inner loads stay loads
        def fix(x, top=True):
            if isinstance(x, (ast.Tuple, ast.List)):
                for el in x.elts:
                    fix(el)
            elif isinstance(x, ast.Starred):
                fix(x.value)
            elif isinstance(x, (ast.Subscript, ast.Attribute)):
                for y in ast.walk(x.value):
                    if hasattr(y, 'ctx'):
                        y.ctx = ast.Load()
                if isinstance(x, ast.Subscript):
                    for y in ast.walk(x.slice):
                        if hasattr(y, 'ctx'):
                            y.ctx = ast.Load()
        fix(e)
        return e

    # ---------------------------------------------------------------- statements
    def block(self, n):
        """Lower a statement (list) into a list of ast statements."""
        if n is None:
            return []
        k = type(n).__name__
        if k == 'StatListNode':
            out = []
            for s in n.stats:
                out.extend(self.block(s))
            return out
        m = getattr(self, 's_' + k, None)
        if m is None:
            self.unknown.append(k)
            return [self._pos(n, ast.Expr(ast.Call(ast.Name('__cy_' + k, ast.Load()), [], [])))]
        res = m(n)
        if res is None:
            return []
        if not isinstance(res, list):
            res = [res]
        return [self._pos(n, r) for r in res]

    def body(self, n):
        b = self.block(n)
        return b if b else [ast.Pass(lineno=getattr(n, 'pos', (0, 1, 0))[1] if n is not None else 1, col_offset=0)]

    def s_ExprStatNode(self, n):
        return ast.Expr(self.expr(n.expr))

    def s_PassStatNode(self, n):
        return ast.Pass()

    def s_BreakStatNode(self, n):
        return ast.Break()

    def s_ContinueStatNode(self, n):
        return ast.Continue()

    def s_GlobalNode(self, n):
        return ast.Global([str(x) for x in n.names])

    def s_NonlocalNode(self, n):
        return ast.Nonlocal([str(x) for x in n.names])

    def s_ReturnStatNode(self, n):
        return ast.Return(self.expr(n.value))

    def s_RaiseStatNode(self, n):
        exc = self.expr(n.exc_type)
        if exc is not None and n.exc_value is not None:
            exc = ast.Call(exc, [self.expr(n.exc_value)], [])
        return ast.Raise(exc, self.expr(getattr(n, 'cause', None)))

    def s_AssertStatNode(self, n):
        cond = getattr(n, 'condition', None)
        if cond is None:
            cond = getattr(n, 'cond', None)
        msg = getattr(n, 'value', None)
        return ast.Assert(self.expr(cond), self.expr(msg))

    def s_SingleAssignmentNode(self, n):
        rhs = n.rhs
        if type(rhs).__name__ == 'ImportNode':
            # import a.b as c
            name = str(rhs.module_name.value)
            asname = str(n.lhs.name)
            return ast.Import([ast.alias(name, asname if asname != name.split('.')[0] else None)])
        return ast.Assign([self.target(n.lhs)], self.expr(rhs))

    def s_CascadedAssignmentNode(self, n):
        return ast.Assign([self.target(l) for l in n.lhs_list], self.expr(n.rhs))

    def s_InPlaceAssignmentNode(self, n):
        return ast.AugAssign(self.target(n.lhs), _BINOPS[n.operator](), self.expr(n.rhs))

    def s_DelStatNode(self, n):
        ts = [self.expr(a) for a in n.args]
        for t in ts:
            t.ctx = ast.Del()
        return ast.Delete(ts)

    def s_IfStatNode(self, n):
        first = None
        cur = None
        for cl in n.if_clauses:
            node = ast.If(self.expr(cl.condition), self.body(cl.body), [])
            self._pos(cl, node)
            if first is None:
                first = cur = node
            else:
                cur.orelse = [node]
                cur = node
        if n.else_clause is not None:
            cur.orelse = self.block(n.else_clause)
        return first

    def s_WhileStatNode(self, n):
        return ast.While(self.expr(n.condition), self.body(n.body), self.block(n.else_clause))

    def s_ForInStatNode(self, n):
        it = n.iterator
        seq = it.sequence if type(it).__name__ in ('IteratorNode', 'AsyncIteratorNode') else it
        return ast.For(self.target(n.target), self.expr(seq), self.body(n.body), self.block(n.else_clause))

    def s_ForFromStatNode(self, n):
        # for i from a <= i < b
        call = ast.Call(ast.Name('range', ast.Load()), [self.expr(n.bound1), self.expr(n.bound2)], [])
        return ast.For(self.target(n.target), call, self.body(n.body), self.block(n.else_clause))

    def s_GILStatNode(self, n):
        item = ast.withitem(ast.Name(str(n.state), ast.Load()), None)
        return ast.With([item], self.body(n.body))

    def s_WithStatNode(self, n):
        item = ast.withitem(self.expr(n.manager), self.target(n.target) if n.target is not None else None)
        return ast.With([item], self.body(n.body))

    def s_TryExceptStatNode(self, n):
        handlers = []
        for h in n.except_clauses:
            pat = h.pattern
            typ = None
            if pat:
                typ = self.expr(pat[0]) if len(pat) == 1 else ast.Tuple([self.expr(p) for p in pat], ast.Load())
            name = str(h.target.name) if getattr(h, 'target', None) is not None and hasattr(h.target, 'name') else None
            handlers.append(self._pos(h, ast.ExceptHandler(typ, name, self.body(h.body))))
        return ast.Try(self.body(n.body), handlers, self.block(n.else_clause), [])

    def s_TryFinallyStatNode(self, n):
        inner = self.block(n.body)
        if len(inner) == 1 and isinstance(inner[0], ast.Try) and not inner[0].finalbody:
            inner[0].finalbody = self.body(n.finally_clause)
            return inner[0]
        return ast.Try(inner or [ast.Pass()], [], [], self.body(n.finally_clause))

    def s_CImportStatNode(self, n):
        return ast.Import([ast.alias('cimport:' + str(n.module_name), str(n.as_name) if n.as_name else None)])

    def s_FromCImportStatNode(self, n):
        names = []
        for it in n.imported_names:
            # (pos, name, as_name) in Cython 3
            name = it[1] if isinstance(it, tuple) else getattr(it, 'name', str(it))
            asn = it[2] if isinstance(it, tuple) and len(it) > 2 else None
            names.append(ast.alias(str(name), str(asn) if asn else None))
        node = ast.ImportFrom('cimport:' + str(n.module_name), names, getattr(n, 'relative_level', 0) or 0)
        return node

    def s_FromImportStatNode(self, n):
        mod = n.module
        level = getattr(mod, 'level', 0) or 0
        names = []
        for name, target in n.items:
            tn = str(target.name) if hasattr(target, 'name') else None
            names.append(ast.alias(str(name), tn if tn != str(name) else None))
        return ast.ImportFrom(str(mod.module_name.value), names, level if level > 0 else 0)

    def s_CVarDefNode(self, n):
        out = []
        for d in n.declarators:
            ct = self.ctype(n.base_type, d)
            name = self.decl_name(d)
            default = self.decl_default(d)
            node = ast.AnnAssign(ast.Name(name, ast.Store()), ast.Constant(ct.text),
                                 self.expr(default) if default is not None else None, 1)
            node._ctype = ct
            out.append(node)
        return out

    def s_CStructOrUnionDefNode(self, n):
        body = []
        for a in (n.attributes or []):
            body.extend(self.block(a))
        return ast.ClassDef('struct_' + str(n.name), [], [], body or [ast.Pass()], [])

    def s_CTypeDefNode(self, n):
        return None

    def s_CEnumDefNode(self, n):
        return None

    def s_CDefExternNode(self, n):
        body = self.block(n.body)
        cls = ast.ClassDef('__extern__', [], [], body or [ast.Pass()], [])
        cls._extern = str(n.include_file) if n.include_file else None
        return cls

    def s_PropertyNode(self, n):
        return self.block(n.body)

    def _decorators(self, decs):
        out = []
        directives = {}
        for d in (decs or []):
            e = self.expr(d.decorator)
            out.append(e)
            # cython.boundscheck(False) and friends
            f = e.func if isinstance(e, ast.Call) else e
            if isinstance(f, ast.Attribute) and isinstance(f.value, ast.Name) and f.value.id == 'cython':
                val = True
                if isinstance(e, ast.Call) and e.args and isinstance(e.args[0], ast.Constant):
                    val = e.args[0].value
                directives[f.attr] = val
        return out, directives

    def arguments(self, args, star_arg=None, starstar_arg=None):
        posargs, defaults, kwonly, kwdefaults = [], [], [], []
        argtypes = {}
        for a in args:
            name = self.decl_name(a.declarator)
            ct = None
            if name == '':
                # untyped argument: the "type" is the name
                bt = a.base_type
                name = getattr(bt, 'name', None) or '?'
            elif getattr(a.base_type, 'name', '') is None and type(a.base_type).__name__ == 'CSimpleBaseTypeNode':
                ct = None
            else:
                ct = self.ctype(a.base_type, a.declarator)
            ann = getattr(a, 'annotation', None)
            arg = ast.arg(str(name), ast.Constant(ct.text) if ct is not None else None)
            arg.lineno = a.pos[1]
            arg.col_offset = a.pos[2]
            if ct is not None:
                argtypes[str(name)] = ct
            if getattr(a, 'kw_only', False):
                kwonly.append(arg)
                kwdefaults.append(self.expr(a.default) if a.default is not None else None)
            else:
                posargs.append(arg)
                if a.default is not None:
                    defaults.append(self.expr(a.default))
        va = ast.arg(str(star_arg.name), None) if star_arg is not None else None
        kw = ast.arg(str(starstar_arg.name), None) if starstar_arg is not None else None
        return ast.arguments([], posargs, va, kwonly, kwdefaults, kw, defaults), argtypes

    def s_DefNode(self, n):
        args, argtypes = self.arguments(n.args, n.star_arg, n.starstar_arg)
        decs, directives = self._decorators(n.decorators)
        fd = ast.FunctionDef(str(n.name), args, self.body(n.body), decs, None)
        fd._cy = dict(kind='def', rettype=None, nogil=False, directives=directives, argtypes=argtypes)
        return fd

    def s_CFuncDefNode(self, n):
        decl = n.declarator
        # unwrap pointer declarators around the function declarator (returns pointer)
        d = decl
        while type(d).__name__ != 'CFuncDeclaratorNode':
            d = d.base
        name = self.decl_name(d)
        args, argtypes = self.arguments(d.args)
        decs, directives = self._decorators(n.decorators)
        fd = ast.FunctionDef(str(name), args, self.body(n.body), decs, None)
        fd._cy = dict(kind='cpdef' if n.overridable else 'cdef',
                      rettype=self.ctype(n.base_type, decl).text,
                      nogil=bool(getattr(d, 'nogil', False)),
                      directives=directives, argtypes=argtypes)
        return fd

    def s_CClassDefNode(self, n):
        bases = [self.expr(b) for b in (n.bases.args if n.bases is not None else [])]
        decs, _ = self._decorators(getattr(n, 'decorators', None))
        cd = ast.ClassDef(str(n.class_name), bases, [], self.body(n.body), decs)
        cd._cy = dict(kind='cdef class')
        return cd

    def s_PyClassDefNode(self, n):
        bases = [self.expr(b) for b in (n.bases.args if n.bases is not None and hasattr(n.bases, 'args') else [])]
        decs, _ = self._decorators(getattr(n, 'decorators', None))
        return ast.ClassDef(str(n.name), bases, [], self.body(n.body), decs)

    # ---------------------------------------------------------------- module
    def module(self, tree):
        body = self.block(tree.body)
        mod = ast.Module(body, [])
        ast.fix_missing_locations(mod)
        attach_decls(mod)
        mod._directives = dict(getattr(tree, 'directive_comments', {}) or {})
        return mod


def attach_decls(mod):
    """For every function: ``_decls`` = typed arguments + cdef locals (own scope only)."""
    for fn in ast.walk(mod):
        if isinstance(fn, (ast.FunctionDef, ast.AsyncFunctionDef)):
            decls = dict(getattr(fn, '_cy', {}).get('argtypes', {}))
            stack = list(fn.body)
            while stack:
                s = stack.pop()
                if isinstance(s, (ast.FunctionDef, ast.AsyncFunctionDef, ast.ClassDef, ast.Lambda)):
                    continue
                if isinstance(s, ast.AnnAssign) and hasattr(s, '_ctype') and isinstance(s.target, ast.Name):
                    decls[s.target.id] = s._ctype
                stack.extend(c for c in ast.iter_child_nodes(s) if isinstance(c, ast.stmt))
            fn._decls = decls
        elif isinstance(fn, ast.ClassDef):
            decls = {}
            for s in fn.body:
                if isinstance(s, ast.AnnAssign) and hasattr(s, '_ctype') and isinstance(s.target, ast.Name):
                    decls[s.target.id] = s._ctype
            fn._decls = decls


def lower_file(path):
    """Parse a .pyx/.pxi file and return (ast.Module, unknown node kinds)."""
    tree = parse_cython_tree(path)
    lo = Lowerer(path)
    mod = lo.module(tree)
    return mod, sorted(set(lo.unknown))


def lower_string(code, name='<fragment>'):
    """Parse a Cython code string (used for emitted code fragments)."""
    import tempfile
    d = tempfile.mkdtemp(prefix='sa_cy_')
    p = os.path.join(d, 'fragment.pyx')
    try:
        with open(p, 'w') as f:
            f.write(code)
        return lower_file(p)
    finally:
        try:
            os.remove(p)
            os.rmdir(d)
        except OSError:
            pass

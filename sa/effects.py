"""A3: in-place effects with alias roots.

For one function, every value-carrying name gets a set of *roots*:
    'self'          storage reachable from self.<field>
    'param:<name>'  storage of a parameter (caller-owned)
    'fresh'         newly allocated in this function
    'unknown'       result of a call we cannot classify
Views (slicing, .T, reshape, np.asanyarray, ...) keep the roots of their base.
The walk is in source order (flow-sensitive for straight-line rebinding, joins
union the roots), which is what the rebinding idioms of this code base need
(``x = list(x)``, ``coeffs = np.asanyarray(coeffs)``).

``writes(fn)`` yields (node, kind, target_src, roots).
"""
import ast

from .program import src, call_name, own_nodes

FRESH_CALLS = {
    'np.zeros', 'np.empty', 'np.ones', 'np.full', 'np.array', 'np.zeros_like', 'np.ones_like', 'np.empty_like',
    'np.full_like', 'np.arange', 'np.linspace', 'np.eye', 'np.identity', 'np.stack', 'np.concatenate', 'np.hstack',
    'np.vstack', 'np.column_stack', 'np.dstack', 'np.copy', 'np.repeat', 'np.tile', 'np.outer', 'np.kron', 'np.dot',
    'np.matmul', 'np.tensordot', 'np.einsum', 'np.sum', 'np.prod', 'np.cumsum', 'np.diff', 'np.sort', 'np.unique',
    'np.where', 'np.abs', 'np.sqrt', 'np.exp', 'np.log', 'np.sin', 'np.cos', 'np.tan', 'np.maximum', 'np.minimum',
    'np.clip', 'np.convolve', 'np.cross', 'np.linalg.inv', 'np.linalg.solve', 'np.linalg.norm', 'np.linalg.qr',
    'np.linalg.svd', 'np.linalg.det', 'np.fromiter', 'np.meshgrid', 'np.random.rand', 'np.random.random_sample',
    'np.add', 'np.subtract', 'np.multiply', 'np.divide', 'np.negative', 'np.flatnonzero', 'np.nonzero', 'np.argsort',
    'np.searchsorted', 'np.take', 'np.delete', 'np.insert', 'np.append', 'np.pad', 'np.roll', 'np.conj', 'np.real_if_close',
    'np.triu_indices', 'np.tril_indices', 'np.unravel_index', 'np.ravel_multi_index', 'np.indices', 'np.mean',
    'list', 'tuple', 'set', 'dict', 'sorted', 'frozenset', 'range', 'len', 'int', 'float', 'bool', 'str', 'sum', 'max',
    'min', 'abs', 'zip', 'enumerate', 'map', 'filter', 'reversed', 'any', 'all', 'copy.copy', 'copy.deepcopy',
    'scipy.sparse.csr_matrix', 'scipy.sparse.coo_matrix', 'scipy.sparse.csc_matrix', 'scipy.sparse.lil_matrix',
    'scipy.sparse.eye', 'scipy.sparse.identity', 'scipy.sparse.kron', 'scipy.sparse.bmat', 'scipy.sparse.spdiags',
    'scipy.sparse.diags', 'scipy.sparse.vstack', 'scipy.sparse.hstack', 'scipy.sparse.block_diag',
    'functools.reduce',
}
FRESH_METHODS = {'copy', 'astype', 'tolist', 'toarray', 'todense', 'tocsr', 'tocsc', 'tocoo', 'tolil', 'tobsr', 'dot',
                 'sum', 'prod', 'min', 'max', 'mean', 'cumsum', 'nonzero', 'conj', 'conjugate', 'flatten', 'item',
                 'argsort', 'argmax', 'argmin', 'round', 'clip', 'repeat', 'tobytes', 'union', 'intersection',
                 'difference', 'symmetric_difference', 'keys', 'values', 'items', 'index', 'count', 'join',
                 'format', 'split', 'norm', 'transpose_copy', 'asformat', 'multiply', 'power', 'diagonal', 'trace',
                 'any', 'all', 'std', 'var'}
# astype(copy=False) may alias -- handled below
VIEW_CALLS = {'np.asanyarray', 'np.asarray', 'np.squeeze', 'np.reshape', 'np.swapaxes', 'np.rollaxis', 'np.moveaxis',
              'np.broadcast_to', 'np.atleast_1d', 'np.atleast_2d', 'np.flipud', 'np.fliplr', 'np.flip', 'np.transpose',
              'np.ravel', 'np.ascontiguousarray', 'np.asfortranarray', 'np.expand_dims', 'np.real', 'np.imag', 'np.diag',
              'np.require', 'np.broadcast_arrays', 'np.split', 'np.array_split', 'np.asmatrix', 'iter', 'next'}
VIEW_METHODS = {'reshape', 'ravel', 'squeeze', 'swapaxes', 'transpose', 'view', 'T', 'real', 'imag', 'flat',
                'as_nurbs', 'as_vector'}
MUTATING_METHODS = {'sort', 'fill', 'resize', 'append', 'extend', 'update', 'add', 'remove', 'pop', 'clear', 'insert',
                    'discard', 'setdefault', 'popitem', 'reverse', 'put', 'itemset', 'setflags', 'difference_update',
                    'intersection_update', 'symmetric_difference_update', 'partition', 'setdiag', 'eliminate_zeros',
                    'sum_duplicates', 'sort_indices', 'byteswap'}
MUTATING_FUNCS = {'np.fill_diagonal': 0, 'np.put': 0, 'np.copyto': 0, 'np.place': 0, 'np.putmask': 0,
                  'np.add.at': 0, 'np.subtract.at': 0, 'np.multiply.at': 0, 'np.random.shuffle': 0}


class Effects:
    def __init__(self, fn, self_name='self', identity_calls=(), fresh_calls=(), param_roots=True, summaries=None):
        self.fn = fn
        self.self_name = self_name
        self.identity_calls = set(identity_calls)
        self.extra_fresh = set(fresh_calls)
        self.summaries = summaries or {}
        self.return_roots = []
        self.env = {}
        self.array_evidence = set()
        self.writes = []
        args = fn.args
        names = [a.arg for a in args.posonlyargs + args.args + args.kwonlyargs]
        if args.vararg:
            names.append(args.vararg.arg)
        if args.kwarg:
            names.append(args.kwarg.arg)
        self.params = names
        for n in names:
            if n == self_name:
                self.env[n] = {'self'}
            else:
                self.env[n] = {'param:' + n}
        self._collect_array_evidence()
        self._block(fn.body)

    # ------------------------------------------------------------------ roots of an expression
    def roots(self, e):
        if e is None:
            return {'fresh'}
        if isinstance(e, ast.Name):
            return set(self.env.get(e.id, {'global:' + e.id}))
        if isinstance(e, ast.Constant):
            return {'fresh'}
        if isinstance(e, ast.Attribute):
            if e.attr in VIEW_METHODS:
                return self.roots(e.value)
            if e.attr in ('shape', 'ndim', 'size', 'dtype', 'p', 'dim', 'sdim', 'numdofs'):
                return {'fresh'}
            return self.roots(e.value)
        if isinstance(e, ast.Subscript):
            return self.roots(e.value)
        if isinstance(e, ast.Starred):
            return self.roots(e.value)
        if isinstance(e, (ast.BinOp, ast.UnaryOp, ast.Compare, ast.BoolOp, ast.JoinedStr)):
            if isinstance(e, ast.BoolOp):
                r = set()
                for v in e.values:
                    r |= self.roots(v)
                return r
            return {'fresh'}
        if isinstance(e, ast.IfExp):
            return self.roots(e.body) | self.roots(e.orelse)
        if isinstance(e, (ast.Tuple, ast.List, ast.Set)):
            r = {'fresh'}
            for x in e.elts:
                r |= {('elem:' + y) if not y.startswith('elem:') and y != 'fresh' else y for y in self.roots(x)}
            return r
        if isinstance(e, (ast.ListComp, ast.SetComp, ast.GeneratorExp, ast.DictComp, ast.Dict, ast.Lambda)):
            return {'fresh'}
        if isinstance(e, ast.Call):
            name = call_name(e)
            if name in self.identity_calls:
                r = set()
                for a in e.args:
                    r |= self.roots(a)
                return r or {'fresh'}
            if name in FRESH_CALLS or name in self.extra_fresh:
                if name == 'np.array' and any(k.arg == 'copy' and isinstance(k.value, ast.Constant) and k.value.value is False
                                              for k in e.keywords):
                    return self.roots(e.args[0]) if e.args else {'fresh'}
                return {'fresh'}
            if name in VIEW_CALLS:
                return self.roots(e.args[0]) if e.args else {'fresh'}
            if name and name.split('.')[0] in ('np', 'numpy', 'scipy', 'math', 'itertools', 'operator'):
                return {'fresh'}     # library functions not listed as view-returning allocate their result
            last = name.split('.')[-1] if name else (e.func.attr if isinstance(e.func, ast.Attribute) else None)
            if last in self.summaries and last not in VIEW_METHODS:
                summ = self.summaries[last]
                if summ == 'fresh':
                    return {'fresh'}
                if isinstance(summ, tuple):
                    r = {'fresh'}
                    base = self.roots(e.func.value) if isinstance(e.func, ast.Attribute) else {'unknown'}
                    alias = self.summaries.get(last + '#self')
                    for i, f in enumerate(summ):
                        if not f:
                            if alias and i < len(alias) and alias[i] and base and 'unknown' not in base:
                                # this position of the callee's result is (on some path) a view of its receiver's storage
                                r |= {'pos%d:root:%s' % (i, b) for b in base}
                            else:
                                r |= {'pos%d:unknown' % i}
                    for i, a in enumerate(self.summaries.get(last + '#array') or ()):
                        if a:
                            r.add('posarray:%d' % i)
                    return r | {'tuple-summary'}
            if isinstance(e.func, ast.Attribute):
                m = e.func.attr
                if m in VIEW_METHODS:
                    return self.roots(e.func.value)
                if m == 'astype':
                    if any(k.arg == 'copy' and isinstance(k.value, ast.Constant) and k.value.value is False for k in e.keywords):
                        return self.roots(e.func.value)
                    return {'fresh'}
                if m in FRESH_METHODS:
                    return {'fresh'}
                if m in ('__getitem__', 'get'):
                    # D.get(key) hands out the stored object itself (a memo hit returns shared storage)
                    return self.roots(e.func.value)
                # unknown method: may return internal state of its receiver
                base = self.roots(e.func.value)
                if base <= {'fresh'}:
                    return {'fresh'}
                return {'unknown'}
            # constructor-like call (capitalised) -> fresh object
            if name and name.split('.')[-1][:1].isupper():
                return {'fresh'}
            return {'unknown'}
        return {'unknown'}

    # ------------------------------------------------------------------ statements
    def _bind(self, target, roots, value=None):
        if isinstance(target, ast.Name):
            self.env[target.id] = set(roots)
        elif isinstance(target, (ast.Tuple, ast.List)):
            if isinstance(value, (ast.Tuple, ast.List)) and len(value.elts) == len(target.elts):
                # evaluate all rhs first (swap idiom)
                rs = [self.roots(v) for v in value.elts]
                for t, r, v in zip(target.elts, rs, value.elts):
                    self._bind(t, r, v)
            elif 'tuple-summary' in roots:
                arr = {int(x[9:]) for x in roots if x.startswith('posarray:')}
                for i, t in enumerate(target.elts):
                    if i in arr and isinstance(t, ast.Name):
                        self.array_evidence.add(t.id)
                    via = {x.split(':', 2)[2] for x in roots if x.startswith('pos%d:root:' % i)}
                    self._bind(t, {'unknown'} if ('pos%d:unknown' % i) in roots else (via or {'fresh'}))
            else:
                elem = {r[5:] if r.startswith('elem:') else r for r in roots}
                for t in target.elts:
                    self._bind(t, elem)
        elif isinstance(target, ast.Starred):
            self._bind(target.value, roots)

    def _record(self, node, kind, target, roots, base=None):
        roots = {r[5:] if r.startswith('elem:') else r for r in roots}
        self.writes.append(dict(node=node, kind=kind, target=src(target), roots=roots, base=base))

    def _store_target(self, node, t, kind):
        if isinstance(t, ast.Subscript):
            self._record(node, kind + ':subscript', t, self.roots(t.value), t.value)
        elif isinstance(t, ast.Attribute):
            # attribute rebinding x.f = ...: mutates object x
            self._record(node, kind + ':attr', t, self.roots(t.value), t.value)
        elif isinstance(t, (ast.Tuple, ast.List)):
            for x in t.elts:
                self._store_target(node, x, kind)

    def _scan_calls(self, node):
        for c in ast.walk(node):
            if isinstance(c, ast.Call):
                name = call_name(c)
                if isinstance(c.func, ast.Attribute) and c.func.attr in MUTATING_METHODS and not _is_module_ref(c.func.value):
                    self._record(c, 'method:' + c.func.attr, c.func.value, self.roots(c.func.value), c.func.value)
                if name in MUTATING_FUNCS and c.args:
                    a = c.args[MUTATING_FUNCS[name]]
                    self._record(c, 'func:' + name, a, self.roots(a), a)
                for k in c.keywords:
                    if k.arg == 'out' and not (isinstance(k.value, ast.Constant) and k.value.value is None):
                        self._record(c, 'out=', k.value, self.roots(k.value), k.value)

    def _stmt(self, s):
        if isinstance(s, (ast.FunctionDef, ast.AsyncFunctionDef, ast.ClassDef)):
            return
        if isinstance(s, ast.Assign):
            self._scan_calls(s.value)
            r = self.roots(s.value)
            for t in s.targets:
                self._store_target(s, t, 'assign')
            for t in s.targets:
                self._bind(t, r, s.value)
        elif isinstance(s, ast.AnnAssign):
            if s.value is not None:
                self._scan_calls(s.value)
                self._store_target(s, s.target, 'assign')
                self._bind(s.target, self.roots(s.value), s.value)
        elif isinstance(s, ast.AugAssign):
            self._scan_calls(s.value)
            t = s.target
            if isinstance(t, ast.Name):
                self._record(s, 'augassign:name', t, self.roots(t), t)
            else:
                self._store_target(s, t, 'augassign')
        elif isinstance(s, ast.Delete):
            for t in s.targets:
                if isinstance(t, ast.Subscript):
                    self._record(s, 'del:subscript', t, self.roots(t.value), t.value)
        elif isinstance(s, ast.For):
            self._scan_calls(s.iter)
            r = self.roots(s.iter)
            elem = {x[5:] if x.startswith('elem:') else x for x in r}
            self._bind(s.target, elem)
            self._loop(s.body)
            self._block(s.orelse)
        elif isinstance(s, ast.While):
            self._scan_calls(s.test)
            self._loop(s.body)
            self._block(s.orelse)
        elif isinstance(s, ast.If):
            self._scan_calls(s.test)
            before = {k: set(v) for k, v in self.env.items()}
            self._block(s.body)
            after_body = self.env
            self.env = {k: set(v) for k, v in before.items()}
            self._block(s.orelse)
            from .guards import always_exits
            if always_exits(s.body) and not always_exits(s.orelse):
                pass            # env = after else
            elif always_exits(s.orelse) and s.orelse and not always_exits(s.body):
                self.env = after_body
            else:
                for k in set(after_body) | set(self.env):
                    self.env[k] = set(after_body.get(k, set())) | set(self.env.get(k, set()))
        elif isinstance(s, ast.With):
            for it in s.items:
                self._scan_calls(it.context_expr)
                if it.optional_vars is not None:
                    self._bind(it.optional_vars, self.roots(it.context_expr))
            self._block(s.body)
        elif isinstance(s, ast.Try):
            self._block(s.body)
            for h in s.handlers:
                self._block(h.body)
            self._block(s.orelse)
            self._block(s.finalbody)
        elif isinstance(s, (ast.Expr, ast.Return, ast.Assert, ast.Raise)):
            for c in ast.iter_child_nodes(s):
                self._scan_calls(c)
            if isinstance(s, ast.Return):
                v = s.value
                if isinstance(v, ast.Tuple):
                    self.return_roots.append(tuple(self.roots(x) for x in v.elts))
                else:
                    self.return_roots.append(self.roots(v))
        # pass/break/continue/global/import: nothing

    def _loop(self, body):
        # two passes so that roots bound late in the body reach uses early in the next iteration; afterwards the environment
        # is joined with the one before the loop (the body may run zero times: X = As[0]; for A in As[1:]: X = kron(X, A))
        before = {k: set(v) for k, v in self.env.items()}
        nw = len(self.writes)
        self._block(body)
        del self.writes[nw:]
        self._block(body)
        for k, v in before.items():
            self.env[k] = set(self.env.get(k, set())) | v

    def _block(self, stmts):
        for s in stmts or []:
            self._stmt(s)

    def _collect_array_evidence(self):
        for n in own_nodes(self.fn):
            if isinstance(n, ast.Subscript) and isinstance(n.value, ast.Name):
                self.array_evidence.add(n.value.id)
            elif isinstance(n, ast.Attribute) and isinstance(n.value, ast.Name) and n.attr in ('shape', 'ndim', 'T', 'dtype', 'ravel', 'reshape'):
                self.array_evidence.add(n.value.id)
            elif isinstance(n, ast.Assign) and isinstance(n.value, ast.Call) and (call_name(n.value) in VIEW_CALLS
                                                                                 or (call_name(n.value) or '').split('.')[-1] in ('asarray', 'asanyarray', 'ascontiguousarray')
                                                                                 or call_name(n.value) in self.identity_calls):
                # the result of an as-array conversion IS an array (in-place arithmetic on it mutates, it does not rebind)
                for t in n.targets:
                    if isinstance(t, ast.Name):
                        self.array_evidence.add(t.id)


def _is_module_ref(e):
    return isinstance(e, ast.Name) and e.id in ('np', 'numpy', 'scipy', 'math') or (
        isinstance(e, ast.Attribute) and _is_module_ref(e.value))


def _all_fresh(r):
    return all(x == 'fresh' for x in r)


def build_summaries(prog, modules=None, rounds=3):
    """name -> 'fresh' | tuple(bool per position): every in-package function of that
    name returns only freshly allocated values (computed to a small fixpoint)."""
    summ = {}
    funcs = [f for f in prog.functions.values() if f.unit.modname.startswith('pyiga') and f.unit.lang == 'py'
             and (modules is None or f.unit.modname in modules)]
    for _ in range(rounds):
        by_name = {}
        by_alias = {}
        by_array = {}
        for f in funcs:
            try:
                eff = Effects(f.node, summaries=summ)
            except RecursionError:
                continue
            rr = eff.return_roots
            if not rr:
                verdict = None
            elif all(isinstance(r, tuple) for r in rr) and len({len(r) for r in rr}) == 1:
                n = len(rr[0])
                verdict = tuple(all(_all_fresh(r[i]) for r in rr) for i in range(n))
                if all(verdict):
                    verdict = 'fresh'
            elif all(not isinstance(r, tuple) and _all_fresh(r) for r in rr):
                verdict = 'fresh'
            else:
                verdict = 'no'
            by_name.setdefault(f.name, []).append(verdict)
            if isinstance(verdict, tuple):
                # positions that (on some return path) hand out storage of the receiver itself
                al = tuple(any('self' in r[i] for r in rr) for i in range(len(verdict)))
                by_alias.setdefault(f.name, []).append(al)
                # positions that are evidently arrays in the callee (sliced / indexed with an ellipsis, .shape read, ...)
                rets = [x.value for x in own_nodes(f.node) if isinstance(x, ast.Return) and isinstance(x.value, ast.Tuple)
                        and len(x.value.elts) == len(verdict)]
                ar = tuple(any(_arrayish(rv.elts[i], eff) for rv in rets) for i in range(len(verdict)))
                by_array.setdefault(f.name, []).append(ar)
        new = {}
        for name, vs in by_name.items():
            vs = [v for v in vs if v is not None]
            if not vs:
                continue
            if all(v == 'fresh' for v in vs):
                new[name] = 'fresh'
            elif all(isinstance(v, tuple) for v in vs) and len({len(v) for v in vs}) == 1:
                new[name] = tuple(all(v[i] for v in vs) for i in range(len(vs[0])))
            elif all(v == 'fresh' or isinstance(v, tuple) for v in vs) and len(vs) == 1:
                new[name] = vs[0]
        for name, als in by_alias.items():
            if isinstance(new.get(name), tuple) and len({len(a) for a in als}) == 1 and len(als[0]) == len(new[name]):
                new[name + '#self'] = tuple(any(a[i] for a in als) for i in range(len(als[0])))
        for name, ars in by_array.items():
            if isinstance(new.get(name), tuple) and len({len(a) for a in ars}) == 1 and len(ars[0]) == len(new[name]):
                new[name + '#array'] = tuple(all(a[i] for a in ars) for i in range(len(ars[0])))
        if new == summ:
            break
        summ = new
    return summ


def _arrayish(e, eff, depth=3):
    if isinstance(e, ast.Name):
        if e.id in eff.array_evidence:
            return True
        if depth <= 0:
            return False
        # every definition of the name in the callee is an array expression
        defs = [s.value for s in own_nodes(eff.fn) if isinstance(s, ast.Assign) and any(isinstance(t, ast.Name) and t.id == e.id for t in s.targets)]
        return bool(defs) and all(_arrayish(d, eff, depth - 1) for d in defs)
    if isinstance(e, ast.Subscript):
        sl = e.slice
        parts = sl.elts if isinstance(sl, ast.Tuple) else [sl]
        return any(isinstance(x, ast.Slice) or (isinstance(x, ast.Constant) and x.value is Ellipsis) for x in parts)
    if isinstance(e, ast.BinOp):
        return _arrayish(e.left, eff, depth) or _arrayish(e.right, eff, depth)
    if isinstance(e, ast.Call) and isinstance(e.func, ast.Attribute) and e.func.attr in ('copy', 'reshape', 'ravel', 'astype'):
        return _arrayish(e.func.value, eff, depth)
    return False


def external_writes(fn, **kw):
    """Writes whose target storage is (possibly) owned by self or by a parameter.
    Returns list of dict(node, kind, target, roots, definite)."""
    eff = Effects(fn, **kw)
    out = []
    for w in eff.writes:
        ext = {r for r in w['roots'] if r == 'self' or r.startswith('param:')}
        unk = {r for r in w['roots'] if r == 'unknown' or r.startswith('global:')}
        if not ext and not unk:
            continue
        definite = bool(ext)
        if w['kind'] == 'augassign:name':
            # rebinding for immutables; in place only for arrays/sets/lists
            base = w['base']
            if not (isinstance(base, ast.Name) and base.id in eff.array_evidence):
                definite = False
            if not ext:
                continue
        w = dict(w)
        w['definite'] = definite
        w['external'] = ext
        out.append(w)
    return out

"""Expression comparison modulo equivalences, with classification of single semantic mutations.

``compare(observed, expected)`` brings both expressions to a canonical tree (commutative operators flattened and
sorted, keyword arguments sorted, numeric constants by value, ``x.dot(y)`` = ``x @ y``, comparisons oriented,
arithmetic sub-expressions in polynomial normal form where possible) and returns

    ('equal', None)                 the two are the same expression up to those equivalences
    ('mutation', description)       observed is exactly one semantic mutation away from expected:
                                    operands of a non-commutative operator swapped, two positional arguments
                                    of a non-commutative call swapped, two subscripts swapped, one numeric
                                    constant changed, a comparison made strict / non-strict or reversed,
                                    the sign of one term flipped, +1/-1 offset added to a subscript or bound
    ('different', None)             anything else (the construct may simply be written differently)

Only 'mutation' is evidence of a defect; 'different' must be reported as undecided by the caller.
"""
import ast
from fractions import Fraction

from .program import src

COMMUTATIVE_CALLS = {
    'inner', 'np.maximum', 'np.minimum', 'max', 'min', 'np.add', 'np.multiply', 'np.union1d', 'np.intersect1d',
    'np.logical_and', 'np.logical_or', 'np.allclose', 'np.array_equal', 'np.fmax', 'np.fmin', 'set.union',
}
# unary calls whose removal changes the value (not the type only): f(x) -> x is a semantic mutation
WRAPPER_CALLS = {'abs', 'np.abs', 'np.absolute', 'fabs', 'math.fabs', 'sorted', 'np.sort', 'np.unique', 'reversed', 'np.conj', 'np.conjugate',
                 'np.transpose', 'np.negative', 'np.sqrt', 'np.square', 'np.real', 'np.copy', 'copy.copy', 'copy.deepcopy', 'np.cumsum', 'np.flip'}
WRAPPER_METHODS = {'copy', 'conj', 'conjugate', 'transpose'}
# attributes of this code base that hold sequences (tuples / lists): `+` on them is concatenation, not commutative
SEQUENCE_ATTRS = {'kvs', 'shape', 'terms', 'Xs', 'Us', 'bs', 'bidx', 'meshes', 'ops', 'slices', 'R'}
ANTONYM_CALLS = {}
for _a, _b in (('min', 'max'), ('np.minimum', 'np.maximum'), ('np.argmin', 'np.argmax'), ('np.min', 'np.max'), ('np.floor', 'np.ceil'),
               ('math.floor', 'math.ceil'), ('any', 'all'), ('np.any', 'np.all'), ('np.triu_indices', 'np.tril_indices'), ('np.triu', 'np.tril'),
               ('np.zeros', 'np.ones'), ('np.zeros_like', 'np.ones_like'), ('np.logical_and', 'np.logical_or')):
    ANTONYM_CALLS[_a] = _b
    ANTONYM_CALLS[_b] = _a


def _name_tree(dotted):
    parts = dotted.split('.')
    t = ('N', parts[0])
    for p in parts[1:]:
        t = ('A', t, p)
    return t


COMM_BINOPS = (ast.Add, ast.Mult, ast.BitOr, ast.BitAnd, ast.BitXor)
NONCOMM_BINOPS = (ast.Sub, ast.Div, ast.MatMult, ast.Pow, ast.FloorDiv, ast.Mod, ast.LShift, ast.RShift)


def _num(v):
    if isinstance(v, bool):
        return ('B', v)
    if isinstance(v, int):
        return ('K', Fraction(v))
    if isinstance(v, float):
        try:
            # 13 significant digits: 0.4 + 0.0358... and 0.4358... are the same constant, a changed 6th digit is not
            return ('K', Fraction(float('%.13g' % v)).limit_denominator(10 ** 15))
        except (ValueError, OverflowError):
            return ('K', repr(v))
    return None


# signatures of the analysed program's own functions (set by Program after indexing): name -> parameter names, only for
# names whose definitions all agree; LIBRARY_ROOTS = names bound by imports of other packages (np, scipy, os, ...)
SIGNATURES = {'func': {}, 'method': {}}
LIBRARY_ROOTS = set()


def set_signatures(prog):
    func, meth = {}, {}
    roots = set()
    for unit in prog.units.values():
        for n in ast.walk(unit.tree):
            if isinstance(n, ast.Import):
                for a in n.names:
                    if not a.name.startswith('pyiga'):
                        roots.add((a.asname or a.name).split('.')[0])
            elif isinstance(n, ast.ImportFrom):
                if n.level == 0 and n.module and not n.module.startswith('pyiga'):
                    for a in n.names:
                        roots.add(a.asname or a.name)
    for q, f in prog.functions.items():
        a = f.node.args
        if a.posonlyargs:
            names = None
        else:
            names = tuple(x.arg for x in a.args)
        name = f.node.name
        is_method = f.cls is not None and f.outer is None
        deco = {src(d).split('.')[-1] for d in f.node.decorator_list}
        if is_method:
            if 'staticmethod' not in deco and names:
                names = names[1:]
            meth.setdefault(name, set()).add(names)
        else:
            func.setdefault(name, set()).add(names)
    SIGNATURES['func'] = {k: next(iter(v)) for k, v in func.items() if len(v) == 1 and None not in v}
    SIGNATURES['method'] = {k: next(iter(v)) for k, v in meth.items() if len(v) == 1 and None not in v}
    # a name that is both a function and a method with different parameters is ambiguous for attribute calls
    SIGNATURES['ambiguous'] = {k for k in func if k in meth and (len(func[k] | meth[k]) > 1)}
    LIBRARY_ROOTS.clear()
    LIBRARY_ROOTS.update(roots)


def _signature_of(call):
    f = call.func
    if isinstance(f, ast.Name):
        if f.id in LIBRARY_ROOTS:
            return None
        return SIGNATURES['func'].get(f.id)
    if isinstance(f, ast.Attribute):
        root = f
        while isinstance(root, ast.Attribute):
            root = root.value
        if isinstance(root, ast.Name) and root.id in LIBRARY_ROOTS:
            return None
        if f.attr in SIGNATURES.get('ambiguous', ()):
            return None
        m, fn = SIGNATURES['method'].get(f.attr), SIGNATURES['func'].get(f.attr)
        if m is not None and fn is not None:
            return m if m == fn else None
        if m is not None and f.attr in _COMMON_LIBRARY_METHODS:
            return None
        return m if m is not None else fn
    return None


# method names that numpy / scipy / builtin objects also have: an attribute call of these may not be the repository's method
_COMMON_LIBRARY_METHODS = {
    'dot', 'sum', 'copy', 'reshape', 'ravel', 'transpose', 'astype', 'append', 'extend', 'get', 'update', 'add', 'index', 'count', 'sort',
    'insert', 'pop', 'remove', 'join', 'split', 'format', 'items', 'keys', 'values', 'min', 'max', 'mean', 'any', 'all', 'nonzero', 'tolist',
    'asformat', 'tocsr', 'tocsc', 'tocoo', 'toarray', 'todense', 'diagonal', 'setdiag', 'eliminate_zeros', 'multiply', 'power', 'squeeze',
    'flatten', 'fill', 'take', 'repeat', 'clip', 'cumsum', 'prod', 'argsort', 'argmax', 'argmin', 'searchsorted', 'matvec', 'rmatvec', 'matmat',
    'write', 'read', 'close', 'replace', 'strip', 'startswith', 'endswith', 'encode', 'decode', 'hexdigest', 'setdefault', 'union',
    'intersection', 'difference', 'issubset', 'discard', 'clear', 'solve', 'apply', 'eval', 'run', 'build', 'generate', 'refine',
}


def _is_sequence_tree(t):
    """canonical tree of something that is evidently a tuple / list / string"""
    if not isinstance(t, tuple) or not t:
        return False
    if t[0] == 'T' or t[0] == 'S':
        return True
    if t[0] == 'A' and t[2] in SEQUENCE_ATTRS:
        return True
    if t[0] == 'C' and _tree_src_safe(t[1]) in ('tuple', 'list'):
        return True
    if t[0] == 'Sub' and _is_sequence_tree(t[1]) and any(isinstance(i, tuple) and i and i[0] == 'Slice' for i in t[2]):
        return True         # a slice of a sequence
    if t[0] == 'Mult' and any(_is_sequence_tree(x) for x in t[1:]):
        return True         # n * (x,)
    return False


def _tree_src_safe(t):
    try:
        return _tree_src(t)
    except Exception:
        return ''


def canon(n, bound=None):
    """canonical nested tuple of an expression node"""
    bound = bound or {}
    if isinstance(n, ast.Constant):
        k = _num(n.value)
        if k is not None:
            return k
        return ('S', repr(n.value))
    if isinstance(n, ast.Name):
        return ('N', bound.get(n.id, n.id))
    if isinstance(n, ast.Attribute):
        return ('A', canon(n.value, bound), n.attr)
    if isinstance(n, ast.UnaryOp):
        if isinstance(n.op, ast.USub):
            inner = canon(n.operand, bound)
            if inner[0] == 'K' and isinstance(inner[1], Fraction):
                return ('K', -inner[1])
            return ('neg', inner)
        if isinstance(n.op, ast.UAdd):
            return canon(n.operand, bound)
        if isinstance(n.op, ast.Not) and isinstance(n.operand, ast.Compare) and len(n.operand.ops) == 1 \
                and isinstance(n.operand.ops[0], (ast.In, ast.NotIn, ast.Is, ast.IsNot)):
            # not (a in b) == a not in b ;  not (a is b) == a is not b
            flip = {ast.In: ast.NotIn, ast.NotIn: ast.In, ast.Is: ast.IsNot, ast.IsNot: ast.Is}[type(n.operand.ops[0])]
            return canon(ast.Compare(left=n.operand.left, ops=[flip()], comparators=n.operand.comparators), bound)
        return (type(n.op).__name__, canon(n.operand, bound))
    if isinstance(n, ast.BinOp):
        if isinstance(n.op, COMM_BINOPS):
            items = []

            def flat(x):
                if isinstance(x, ast.BinOp) and type(x.op) is type(n.op):
                    flat(x.left)
                    flat(x.right)
                else:
                    items.append(canon(x, bound))
            flat(n)
            if isinstance(n.op, ast.Add) and any(_is_sequence_tree(x) for x in items):
                return ('Concat',) + tuple(items)        # concatenation of sequences: order matters
            return (type(n.op).__name__,) + tuple(sorted(items, key=repr))
        if isinstance(n.op, ast.Sub):
            # a - b  ==  a + (-b)
            r = canon(n.right, bound)
            negr = ('K', -r[1]) if r[0] == 'K' and isinstance(r[1], Fraction) else ('neg', r)
            l = canon(n.left, bound)
            items = list(l[1:]) if l[0] == 'Add' else [l]
            items.append(negr)
            return ('Add',) + tuple(sorted(items, key=repr))
        return (type(n.op).__name__, canon(n.left, bound), canon(n.right, bound))
    if isinstance(n, ast.BoolOp):
        return (type(n.op).__name__,) + tuple(sorted((canon(v, bound) for v in n.values), key=repr))
    if isinstance(n, ast.Compare):
        if len(n.ops) == 1:
            op, l, r = n.ops[0], canon(n.left, bound), canon(n.comparators[0], bound)
            if isinstance(op, ast.Gt):
                return ('Lt', r, l)
            if isinstance(op, ast.GtE):
                return ('LtE', r, l)
            if isinstance(op, (ast.Eq, ast.NotEq)):
                a, b = sorted((l, r), key=repr)
                return (type(op).__name__, a, b)
            return (type(op).__name__, l, r)
        return ('Compare', canon(n.left, bound)) + tuple((type(o).__name__, canon(c, bound)) for o, c in zip(n.ops, n.comparators))
    if isinstance(n, ast.Call):
        fn = src(n.func)
        # x.dot(y)  ==  x @ y
        if isinstance(n.func, ast.Attribute) and n.func.attr == 'dot' and len(n.args) == 1 and not n.keywords:
            return ('MatMult', canon(n.func.value, bound), canon(n.args[0], bound))
        args = [canon(a, bound) for a in n.args]
        if fn == 'range' and len(args) == 2 and not n.keywords and args[0] == ('K', Fraction(0)):
            args = args[1:]         # range(0, n) == range(n)
        if fn in COMMUTATIVE_CALLS:
            args = sorted(args, key=repr)
        kwl = [('kw:' + (k.arg or '**'), canon(k.value, bound)) for k in n.keywords]
        # a function of the analysed program called with positional arguments: bind them to the declared parameter names
        # (f(a, b) == f(a, y=b)); only when every function of that name declares the same leading parameters
        params = _signature_of(n)
        if params is not None and not any(isinstance(a, ast.Starred) for a in n.args) and len(args) <= len(params) \
                and not ({'kw:' + q for q in params[:len(args)]} & {k for k, _v in kwl}):
            kwl += [('kw:' + q, a) for q, a in zip(params, args)]
            args = []
        kws = tuple(sorted(kwl, key=repr))
        return ('C', canon(n.func, bound), tuple(args), kws)
    if isinstance(n, ast.Subscript):
        sl = n.slice
        idx = tuple(canon(e, bound) for e in sl.elts) if isinstance(sl, ast.Tuple) else (canon(sl, bound),)
        return ('Sub', canon(n.value, bound), idx)
    if isinstance(n, ast.Slice):
        lo, up, st = (canon(x, bound) if x is not None else None for x in (n.lower, n.upper, n.step))
        if lo == ('K', Fraction(0)):
            lo = None               # x[0:k] == x[:k]
        if st == ('K', Fraction(1)):
            st = None
        return ('Slice', lo, up, st)
    if isinstance(n, (ast.Tuple, ast.List)):
        return ('T',) + tuple(canon(e, bound) for e in n.elts)
    if isinstance(n, ast.Set):
        return ('Set',) + tuple(sorted((canon(e, bound) for e in n.elts), key=repr))
    if isinstance(n, ast.Starred):
        return ('*', canon(n.value, bound))
    if isinstance(n, ast.IfExp):
        return ('IfExp', canon(n.test, bound), canon(n.body, bound), canon(n.orelse, bound))
    if isinstance(n, (ast.ListComp, ast.GeneratorExp, ast.SetComp)):
        b = dict(bound)
        gens = []
        for i, g in enumerate(n.generators):
            it = canon(g.iter, b)
            for t in ast.walk(g.target):
                if isinstance(t, ast.Name):
                    b[t.id] = '$%d' % len(b)
            gens.append((canon(g.target, b), it, tuple(canon(c, b) for c in g.ifs)))
        kind = 'Set' if isinstance(n, ast.SetComp) else 'Comp'     # list vs generator: same elements in the same order
        return (kind, canon(n.elt, b), tuple(gens))
    if isinstance(n, ast.Lambda):
        b = dict(bound)
        for a in n.args.args:
            b[a.arg] = '$%d' % len(b)
        return ('Lambda', len(n.args.args), canon(n.body, b))
    if isinstance(n, ast.Dict):
        return ('Dict',) + tuple(sorted(((canon(k, bound) if k is not None else None, canon(v, bound)) for k, v in zip(n.keys, n.values)), key=repr))
    if isinstance(n, ast.JoinedStr):
        return ('F', src(n))
    return ('?', src(n))


def _parse(e):
    if isinstance(e, ast.AST):
        return e
    return ast.parse(e, mode='eval').body


# ---------------------------------------------------------------------------------------------------------------------
# single mutations of a canonical tree

def _neighbours(t):
    """yield (mutated tree, description) for every single semantic mutation of canonical tree t"""
    if not isinstance(t, tuple) or not t:
        return
    tag = t[0]
    # this node
    if tag in ('MatMult', 'Div', 'Pow', 'FloorDiv', 'Mod') and len(t) == 3:
        yield (tag, t[2], t[1]), 'operands of %s swapped' % tag
    if tag == 'Add' and len(t) > 2:
        for i in range(1, len(t)):
            x = t[i]
            if x[0] == 'neg':
                flipped = x[1]
            elif x[0] == 'K' and isinstance(x[1], Fraction):
                flipped = ('K', -x[1])
            else:
                flipped = ('neg', x)
            items = list(t[1:])
            items[i - 1] = flipped
            yield ('Add',) + tuple(sorted(items, key=repr)), 'sign of one term flipped'
    if tag in ('Lt', 'LtE') and len(t) == 3:
        yield (('LtE' if tag == 'Lt' else 'Lt'), t[1], t[2]), 'comparison made %s' % ('non-strict' if tag == 'Lt' else 'strict')
        yield (tag, t[2], t[1]), 'comparison reversed'
    if tag in ('Eq', 'NotEq') and len(t) == 3:
        yield (('NotEq' if tag == 'Eq' else 'Eq'), t[1], t[2]), 'equality test negated'
    if tag == 'Eq' and len(t) == 3:
        # an exact comparison replaced by a test with the library's default tolerances (rtol 1e-5 / 1e-9, atol 1e-8)
        for fn_ in ('np.isclose', 'np.allclose', 'math.isclose'):
            for a_, b_ in ((t[1], t[2]), (t[2], t[1])):
                yield ('C', _name_tree(fn_), (a_, b_), ()), 'exact equality replaced by the tolerance test %s' % fn_
    if tag in ('Is', 'IsNot') and len(t) == 3:
        yield (('IsNot' if tag == 'Is' else 'Is'), t[1], t[2]), 'identity test negated'
    if tag in ('In', 'NotIn') and len(t) == 3:
        yield (('NotIn' if tag == 'In' else 'In'), t[1], t[2]), 'membership test negated'
    if tag == 'Not' and len(t) == 2:
        yield t[1], 'negation removed'
    if tag == 'B':
        yield ('B', not t[1]), 'boolean constant flipped'
    if tag == 'S' and isinstance(t[1], str) and len(t[1]) <= 14 and ' ' not in t[1]:
        yield ('S?', t[1]), 'string flag changed'
    _swap = {'Mult': 'Div', 'Div': 'Mult', 'FloorDiv': 'Div', 'BitOr': 'BitAnd', 'BitAnd': 'BitOr', 'MatMult': 'Mult'}
    if tag in _swap and len(t) == 3 and tag in ('Div', 'FloorDiv', 'MatMult'):
        yield (_swap[tag], t[1], t[2]) if _swap[tag] not in ('Mult',) else ('Mult',) + tuple(sorted((t[1], t[2]), key=repr)), 'operator %s replaced by %s' % (tag, _swap[tag])
    if tag in ('BitOr', 'BitAnd') and len(t) >= 3:
        yield (_swap[tag],) + t[1:], 'set/bit operator %s replaced by %s' % (tag, _swap[tag])
    if tag == 'Mult' and len(t) == 3:
        yield ('Div', t[1], t[2]), 'operator Mult replaced by Div'
        yield ('Div', t[2], t[1]), 'operator Mult replaced by Div'
    if tag == 'C':
        fname0 = _tree_src(t[1])
        anti = ANTONYM_CALLS.get(fname0)
        if anti:
            yield ('C', _name_tree(anti), t[2], t[3]), 'call of %s replaced by its opposite %s' % (fname0, anti)
    if tag == 'C':
        # a value-changing wrapper dropped: abs(x) -> x, sorted(x) -> x, x.copy() -> x, ...
        fname1 = _tree_src(t[1])
        if fname1 in WRAPPER_CALLS and len(t[2]) == 1 and not t[3]:
            yield t[2][0], 'call of %s dropped' % fname1
        if t[1][0] == 'A' and t[1][2] in WRAPPER_METHODS and not t[2] and not t[3]:
            yield t[1][1], 'call of .%s() dropped' % t[1][2]
    if tag == 'Concat':
        for i in range(1, len(t) - 1):
            if t[i] != t[i + 1]:
                yield t[:i] + (t[i + 1], t[i]) + t[i + 2:], 'operands %d and %d of the concatenation swapped' % (i, i + 1)
    if tag in ('And', 'Or'):
        yield (('Or' if tag == 'And' else 'And'),) + t[1:], 'and/or exchanged'
        for i in range(1, len(t)):
            rest = t[1:i] + t[i + 1:]
            yield (rest[0] if len(rest) == 1 else (tag,) + rest), '%s dropped from the condition' % ('conjunct' if tag == 'And' else 'disjunct')
    if tag == 'N' and not str(t[1]).startswith('$'):
        yield ('N?', t[1]), 'variable %s replaced' % t[1]
    if tag == 'C':
        _c, fn, args, kws = t
        fname = _tree_src(fn)
        if fname not in COMMUTATIVE_CALLS:
            for i in range(len(args)):
                for j in range(i + 1, len(args)):
                    if args[i] != args[j]:
                        a = list(args)
                        a[i], a[j] = a[j], a[i]
                        yield ('C', fn, tuple(a), kws), 'arguments %d and %d of %s swapped' % (i + 1, j + 1, fname)
        for i in range(len(kws)):
            yield ('C', fn, args, kws[:i] + kws[i + 1:]), 'keyword argument %s of %s dropped' % (kws[i][0][3:], fname)
        # the values of two named arguments exchanged (positional arguments of the program's own functions are bound to
        # their parameter names by canon, so this is also `arguments swapped` for them)
        if fname not in COMMUTATIVE_CALLS:
            for i in range(len(kws)):
                for j in range(i + 1, len(kws)):
                    if kws[i][1] != kws[j][1]:
                        k2 = list(kws)
                        k2[i], k2[j] = (kws[i][0], kws[j][1]), (kws[j][0], kws[i][1])
                        yield ('C', fn, args, tuple(sorted(k2, key=repr))), 'arguments %s and %s of %s swapped' % (kws[i][0][3:], kws[j][0][3:], fname)
    if tag == 'Sub' and len(t[2]) > 1:
        idx = t[2]
        for i in range(len(idx)):
            for j in range(i + 1, len(idx)):
                if idx[i] != idx[j]:
                    a = list(idx)
                    a[i], a[j] = a[j], a[i]
                    yield ('Sub', t[1], tuple(a)), 'subscripts %d and %d swapped' % (i + 1, j + 1)
    if tag == 'K' and isinstance(t[1], Fraction):
        yield ('K?', t[1]), 'numeric constant changed'
    if tag == 'A':
        yield ('A?', t[1], t[2]), 'attribute name changed'
    # off-by-one on an index / bound expression: e  ->  e +- 1
    if tag in ('N', 'A', 'Add', 'Sub', 'C', 'K'):
        for d in (1, -1):
            yield _plus(t, d), 'offset %+d' % d
    # children (nodes may sit inside plain tuples: argument lists, keyword pairs, generators)
    for i in range(1, len(t)):
        if tag == 'C' and i == 1:
            # the callee: np.rollaxis -> np.moveaxis, os.replace -> os.rename, np.abs -> np.absolute name another function
            # that may well do the same; only its receiver is mutated, never the function name
            fn = t[1]
            if fn[0] == 'A':
                for m, d in _inner(fn[1]):
                    yield _rebuild(t, 1, ('A', m, fn[2])), d
            continue
        if tag in ('Add', 'Mod', 'F') and isinstance(t[i], tuple) and t[i] and t[i][0] == 'S':
            continue        # pieces of a concatenated / formatted text (names, messages), not flags
        for m, d in _inner(t[i]):
            yield _rebuild(t, i, m), d


def _is_node(c):
    return isinstance(c, tuple) and len(c) > 0 and isinstance(c[0], str) and (len(c) == 1 or c[0][:1].isupper() or c[0] in ('neg', '*', '?'))


def _inner(c):
    """mutations inside a child slot (a node, or a plain tuple containing nodes)"""
    if _is_node(c):
        for m, d in _neighbours(c):
            yield m, d
    elif isinstance(c, tuple):
        for k, cc in enumerate(c):
            for m, d in _inner(cc):
                yield c[:k] + (m,) + c[k + 1:], d


def _plus(t, d):
    if t[0] == 'K' and isinstance(t[1], Fraction):
        return ('K', t[1] + d)
    items = list(t[1:]) if t[0] == 'Add' else [t]
    ks = [x for x in items if x[0] == 'K' and isinstance(x[1], Fraction)]
    rest = [x for x in items if not (x[0] == 'K' and isinstance(x[1], Fraction))]
    k = sum((x[1] for x in ks), Fraction(0)) + d
    if k != 0:
        rest.append(('K', k))
    if len(rest) == 1:
        return rest[0]
    return ('Add',) + tuple(sorted(rest, key=repr))


def _rebuild(t, i, new):
    out = t[:i] + (new,) + t[i + 1:]
    if out[0] in ('Add', 'Mult', 'BitOr', 'BitAnd', 'BitXor', 'And', 'Or'):
        out = (out[0],) + tuple(sorted(_merge_consts(out[0], out[1:]), key=repr))
    return out


def _merge_consts(tag, items):
    if tag != 'Add':
        return items
    flat = []
    for x in items:
        if isinstance(x, tuple) and x and x[0] == 'Add':
            flat.extend(x[1:])
        else:
            flat.append(x)
    ks = [x for x in flat if x[0] == 'K' and isinstance(x[1], Fraction)]
    rest = [x for x in flat if not (x[0] == 'K' and isinstance(x[1], Fraction))]
    if len(ks) > 1 or (ks and ks[0][1] == 0):
        k = sum((x[1] for x in ks), Fraction(0))
        return rest + ([('K', k)] if k != 0 else [])
    return flat


def _tree_src(t):
    if t[0] == 'N':
        return t[1]
    if t[0] == 'A':
        return _tree_src(t[1]) + '.' + t[2]
    return '?'


def _normalise_consts(t):
    """merge numeric constants in sums so that  k - p + 1 - 1  equals  k - p"""
    if not isinstance(t, tuple) or not t:
        return t
    if not isinstance(t[0], str):
        return tuple(_normalise_consts(x) for x in t)
    out = tuple(_normalise_consts(x) if isinstance(x, tuple) else x for x in t)
    if out[0] == 'Add':
        items = _merge_consts('Add', out[1:])
        if len(items) == 1:
            return _round(items[0])
        if not items:
            return ('K', Fraction(0))
        out = ('Add',) + tuple(sorted((_round(x) for x in items), key=repr))
    return _round(out)


def _round(t):
    """numeric constants are compared to 11 significant digits (0.4 + 0.0358665... is 0.4358665...)"""
    if isinstance(t, tuple) and len(t) == 2 and t[0] == 'K' and isinstance(t[1], Fraction) and t[1].denominator != 1:
        return ('K', Fraction('%.11g' % float(t[1])))
    return t


def _match(obs, mut):
    """equality where ('K?', v) matches any numeric constant != v and ('A?', base, attr) any other attribute of base"""
    if isinstance(mut, tuple) and mut and mut[0] == 'K?':
        return isinstance(obs, tuple) and len(obs) == 2 and obs[0] == 'K' and isinstance(obs[1], Fraction) \
            and _round(obs)[1] != _round(('K', mut[1]))[1]
    if isinstance(mut, tuple) and mut and mut[0] == 'A?':
        return isinstance(obs, tuple) and len(obs) == 3 and obs[0] == 'A' and obs[1] == mut[1] and obs[2] != mut[2]
    if isinstance(mut, tuple) and mut and mut[0] == 'S?':
        return isinstance(obs, tuple) and len(obs) == 2 and obs[0] == 'S' and obs[1] != mut[1] and isinstance(obs[1], str) \
            and len(obs[1]) <= 14 and ' ' not in obs[1]
    if isinstance(mut, tuple) and mut and mut[0] == 'N?':
        if isinstance(obs, tuple) and len(obs) == 2 and obs[0] == 'N' and obs[1] != mut[1]:
            _CAPTURE.append(obs[1])
            return True
        return False
    if isinstance(obs, tuple) and isinstance(mut, tuple):
        if len(obs) != len(mut):
            return False
        return all(_match(a, b) for a, b in zip(obs, mut))
    return obs == mut


def compare(observed, expected, mutations=None, names=False):
    """see module docstring; ``mutations``: optional set of description prefixes to accept (default: all);
    ``names``: also classify the replacement of one variable by another (only sound when the caller accounts for
    consistent renamings, as sa/refdiff.py does)"""
    try:
        o = _normalise_consts(canon(_parse(observed)))
        e = _normalise_consts(canon(_parse(expected)))
    except SyntaxError:
        return 'different', None
    if o == e:
        return 'equal', None
    seen = 0
    for m, d in _neighbours(e):
        seen += 1
        if seen > 20000:
            break
        if mutations is not None and not any(d.startswith(p) for p in mutations):
            continue
        if not names and d.startswith('variable '):
            continue
        rm = repr(m)
        mm = _normalise_consts(m) if ('K?' not in rm and 'A?' not in rm and 'N?' not in rm and 'S?' not in rm) else m
        del _CAPTURE[:]
        if _match(o, mm):
            if d.startswith('variable ') and _CAPTURE:
                d = d + ' by ' + str(_CAPTURE[-1])
            return 'mutation', d
    return 'different', None


_CAPTURE = []

import os
import sys
import argparse

HERE = os.path.dirname(os.path.abspath(__file__))
sys.path.insert(0, os.path.dirname(HERE))


def main(argv=None):
    ap = argparse.ArgumentParser()
    ap.add_argument('prop')
    ap.add_argument('--tier', default=os.environ.get('VERIF_TIER', 'quick') or 'quick', choices=['quick', 'thorough'])
    ap.add_argument('--replay', default=None)
    ap.add_argument('--repo', default=None)
    ap.add_argument('--no-write', action='store_true')
    ap.add_argument('--no-selfcheck', action='store_true')
    a = ap.parse_args(argv)
    if a.repo:
        os.environ['VERIF_REPO'] = a.repo
    from sa import core, program
    if a.repo:
        program.REPO = a.repo
    try:
        if a.replay:
            return core.replay(a.prop, a.replay)
        if a.prop == 'all':
            import glob
            props = sorted(os.path.basename(p)[:-3] for p in glob.glob(os.path.join(os.path.dirname(HERE), 'rules', 'C*.py')))
            prog = program.Program(a.repo)
            worst = 0
            for p in props:
                code, _ = core.run_property(p, a.tier if a.no_selfcheck else 'quick', repo=a.repo, write=not a.no_write, prog=prog)
                worst = max(worst, code)
            return worst
        extra = None
        sc_ok = True
        if a.tier == 'thorough' and not a.no_selfcheck:
            from sa import selfcheck
            sc_ok, summary = selfcheck.run(a.prop)
            extra = dict(selfcheck=summary)
        code, _ = core.run_property(a.prop, a.tier, repo=a.repo, write=not a.no_write, extra_coverage=extra)
        if not sc_ok:
            print('ANALYSIS-ERROR property=%s self-validation of the checker failed (a seeded break was missed or a refactor twin raised an alarm); '
                  'the verdict above is not to be believed' % a.prop)
            return max(code, 2)
        return code
    except SystemExit:
        raise
    except BaseException:
        import traceback
        print('ANALYSIS-ERROR property=%s internal error\n%s' % (a.prop, traceback.format_exc()))
        return 2


if __name__ == '__main__':
    sys.stdout.flush()
    code = main()
    sys.stdout.flush()
    os._exit(code)

"""T4: self-validation of the checker (tier thorough).

For every rule family a *seeded break* and a *refactor twin* are applied to a scratch
copy of the repository sources (pyiga/ + scripts/, sources only, under a temporary
directory that is removed immediately).  The rule must fire on the break, naming the
expected rule, and must stay silent (exit 0) on the twin.  A recipe whose anchor no longer
exists in the current tree is skipped and counted.  Any failed expectation makes the
thorough run exit 2: the checker's verdict is then not to be believed.

Edits are located through the parsed program (function line ranges), never by absolute
line numbers; within the function the edit is a single regular-expression substitution
that must match exactly once.
"""
import os
import re
import shutil
import sys
import tempfile
import io
import multiprocessing

from . import program as program_mod
from . import core

# (property, kind, expected rule (for breaks), file, function qualname or None, regex, replacement, description)
R = []


def brk(prop, rule, file, func, pat, rep, desc):
    R.append(dict(prop=prop, kind='break', rule=rule, file=file, func=func, pat=pat, rep=rep, desc=desc))


def twin(prop, file, func, pat, rep, desc):
    R.append(dict(prop=prop, kind='twin', rule=None, file=file, func=func, pat=pat, rep=rep, desc=desc))


# ---- C01
brk('C01', 'R01.1', 'pyiga/codegen/cython.py', 'pyiga.codegen.cython.CodegenVisitor.gencode', r"\n\s*vform\.NegExpr: self\.gencode_neg,", '', 'delete one key of the dispatch dict')
brk('C01', 'R01.2', 'pyiga/codegen/cython.py', 'pyiga.codegen.cython.preamble', r"sin, cos, tan", 'sin, cos', 'drop tan from the cimport list')
brk('C01', 'R01.3', 'pyiga/genericasm.pxi', None, r"_result = np\.zeros\(idx_arr\.shape\[0\]\)", '_result = np.empty(idx_arr.shape[0])', 'np.zeros -> np.empty in multi_entries')
brk('C01', 'R01.4', 'pyiga/assemble.py', 'pyiga.assemble.inner_products', r"nqp = max\(kv\.p for kv in kvs\) \+ 1", 'nqp = max(kv.p for kv in kvs)', 'one node too few in inner_products')
brk('C01', 'R01.5', 'pyiga/codegen/cython.py', 'pyiga.codegen.cython.AsmGenerator.gen_pderiv', r"nderiv = self\.numderiv\+1,", 'nderiv = self.numderiv,', 'jet stride without the 0-th derivative')
brk('C01', 'R01.8', 'pyiga/compile.py', 'pyiga.compile._compile_cython_module_nocache', r"\n\s*libraries=\['m'\],[^\n]*", '', 'drop the libm link')
twin('C01', 'pyiga/codegen/cython.py', 'pyiga.codegen.cython.preamble', r"fabs, sqrt, exp, log, sin, cos, tan", 'tan, cos, sin, log, exp, sqrt, fabs', 'reorder the cimport list')
twin('C01', 'pyiga/assemble.py', 'pyiga.assemble.inner_products', r"nqp = max\(kv\.p for kv in kvs\) \+ 1", 'nqp = max([kv.p for kv in kvs]) + 1', 'list instead of generator')
# ---- C02
brk('C02', 'R02.1', 'pyiga/bspline_cy.pyx', None, r"cdef double\[64\] left, right, a1buf, a2buf", 'cdef double[32] left, right, a1buf, a2buf', 'buffers shrunk below the asserted degree bound')
brk('C02', 'R02.1', 'pyiga/bspline_cy.pyx', None, r"j2 = k-1 if r-1 <= pk else p - r", 'j2 = k-1 if r-1 <= pk else p - r + 1', 'off-by-one in the derivative recursion bound')
brk('C02', 'R02.2', 'pyiga/bspline_cy.pyx', None, r"if kv\[c\] > u:", 'if kv[c] >= u:', 'left-continuous bisection')
brk('C02', 'R02.3', 'pyiga/bspline.py', 'pyiga.bspline.KnotVector.first_active', r"return k - self\.p", 'return k - self.p + 1', 'first active index shifted')
twin('C02', 'pyiga/bspline_cy.pyx', None, r"assert p < 64,", 'assert p < 60,', 'stricter degree bound')
twin('C02', 'pyiga/bspline_cy.pyx', None, r"if kv\[c\] > u:\n(\s*)b = c\n(\s*)else:\n(\s*)a = c", r"if kv[c] <= u:\n\1a = c\n\2else:\n\3b = c", 'bisection written the other way round')
# ---- C03
brk('C03', 'R03.1', 'pyiga/hierarchical.py', 'pyiga.hierarchical.HSpace._dirichlet_indices', r"for bdspec in \(self\.bdspecs or \(\)\):", 'for bdspec in self.bdspecs:', 'unguarded iteration over an Optional field')
brk('C03', 'R03.2', 'pyiga/_hdiscr.py', 'pyiga._hdiscr.HDiscretization.assemble_matrix', r"return \(T\.T @ A_hb @ T\)\.tocsr\(\)", 'return (T @ A_hb @ T.T).tocsr()', 'congruence with the transposed transform')
brk('C03', 'R03.3', 'pyiga/_hdiscr.py', 'pyiga._hdiscr.HDiscretization.assemble_matrix', r"(\n\s*)try:\n\s*self\.truncate = False\n\s*A_hb = self\.assemble_matrix\(symmetric=symmetric\)\n\s*finally:\n\s*self\.truncate = True",
    r"\1self.truncate = False\1A_hb = self.assemble_matrix(symmetric=symmetric)\1self.truncate = True", 'flag restored only on the normal path')
brk('C03', 'R03.4', 'pyiga/_hdiscr.py', 'pyiga._hdiscr.HDiscretization.assemble_matrix', r"insert_block\(A_hb_interlevel2, new\[k\], neighbors\[k\]\)", 'insert_block(A_hb_interlevel2, neighbors[k], new[k])', 'mirrored block stored at the unmirrored position')
brk('C03', 'R03.5', 'pyiga/_hdiscr.py', 'pyiga._hdiscr.HDiscretization._bbox_for_functions', r"supp_cells\[:,j\]\.max\(\) \+ 1\)", 'supp_cells[:,j].max())', 'inclusive upper limit of the bounding box')
twin('C03', 'pyiga/hierarchical.py', 'pyiga.hierarchical.HSpace._dirichlet_indices', r"for bdspec in \(self\.bdspecs or \(\)\):", 'for bdspec in (self.bdspecs if self.bdspecs is not None else []):', 'different spelling of the None guard')
# ---- C04
brk('C04', 'R04.1', 'pyiga/hierarchical.py', 'pyiga.hierarchical.HSpace.refine', r"marked = \{lv: set\(cells\) for \(lv, cells\) in marked\.items\(\)\}", 'marked = marked.copy()', 'marks no longer normalised to sets')
brk('C04', 'R04.2', 'pyiga/hierarchical.py', 'pyiga.hierarchical.HSpace.non_dirichlet_dofs', r'(\n(\s*)return sorted\(set\(range)', r'\n\2self.actfun[0] -= set()\1', 'state written in a query method')
brk('C04', 'R04.3', 'pyiga/hierarchical.py', 'pyiga.hierarchical.HMesh.refine', r"\n\s*self\.deactivated\[lv\] \|= cells", '', 'refined cells are not recorded as deactivated')
brk('C04', 'R04.4', 'pyiga/hierarchical.py', 'pyiga.hierarchical.HSpace.refine', r"\n\s*self\._clear_cache\(\)", '', 'cache not invalidated after refinement')
brk('C04', 'R04.6', 'pyiga/hierarchical.py', 'pyiga.hierarchical.HSpace._cell_neighborhood', r"if l - self\.disparity < 0:", 'if l - self.disparity < -1:', 'recursion guard off by one level')
twin('C04', 'pyiga/hierarchical.py', 'pyiga.hierarchical.HMesh.refine', r"self\.deactivated\[lv\] \|= cells", 'self.deactivated[lv].update(cells)', 'update() instead of |=')
# ---- C05
brk('C05', 'R05.1', 'pyiga/bspline.py', 'pyiga.bspline.knot_insertion', r"for i in range\(k \+ 1, n \+ 1\):", 'for i in range(k + 2, n + 1):', 'one row of the insertion matrix left empty')
brk('C05', 'R05.1', 'pyiga/bspline.py', 'pyiga.bspline.knot_insertion', r"P\[i, i - 1\] = 1 - a\n(\s*)P\[i, i\]     = a", r"P[i, i - 1] = a\n\1P[i, i]     = 1 - a", 'convex weights swapped')
brk('C05', 'R05.2', 'pyiga/hierarchical.py', 'pyiga.hierarchical.HMesh.add_level', r"bspline\.prolongation\(k0, k1\)", 'bspline.prolongation(k1, k0)', 'prolongation arguments swapped')
brk('C05', 'R05.3', 'pyiga/hierarchical.py', 'pyiga.hierarchical.HSplineFunc.grid_jacobian', r"self\.hs\.coeffs_to_levelwise_funcs\(self\.coeffs, truncate=self\.truncate\)", 'self.hs.coeffs_to_levelwise_funcs(self.coeffs)', 'truncate flag not forwarded')
twin('C05', 'pyiga/bspline.py', 'pyiga.bspline.knot_insertion', r"for i in range\(k - p \+ 1\):", 'for i in range(0, k + 1 - p):', 'same range written differently')
# ---- C06
brk('C06', 'R06.1', 'pyiga/vform.py', 'pyiga.vform.ScalarOperExpr.hash_key', r"return \(self\.oper,\)", 'return ()', 'operator not hashed')
brk('C06', 'R06.1', 'pyiga/vform.py', 'pyiga.vform.BuiltinFuncExpr.hash_key', r"return \(self\.funcname,\)", 'return ()', 'function name not hashed')
brk('C06', 'R06.5', 'pyiga/vform.py', 'pyiga.vform.ScalarOperExpr._dx_impl', r"return \(Dx\(self\.x, k, times, para\) \* self\.y -", 'return (Dx(self.x, k, times, para) * self.y +', 'sign flipped in the quotient rule')
brk('C06', 'R06.5', 'pyiga/vform.py', 'pyiga.vform.ScalarOperExpr.fold_constants', r"if self\.x\.is_zero\(\):            # 0 - y  -->  -y\n(\s*)return -self\.y", r"if self.x.is_zero():            # 0 - y  -->  -y\n\1return self.y", '0 - y folded to y')
brk('C06', 'R06.6', 'pyiga/vform.py', 'pyiga.vform.VForm.finalize', r"(\n(\s*)# make sure the hash is computed on the initial expression tree\n\s*self\.hash\(\))((?:.|\n)*?)(\n\s*# perform dependency analysis)", r"\3\n\2self.hash()\4", 'hash taken after the rewrites')
twin('C06', 'pyiga/vform.py', 'pyiga.vform.ScalarOperExpr._dx_impl', r"return \(Dx\(self\.x, k, times, para\) \* self\.y -\n\s*self\.x \* Dx\(self\.y, k, times, para\)\) / \(self\.y \* self\.y\)",
     'return Dx(self.x, k, times, para) / self.y - self.x * Dx(self.y, k, times, para) / (self.y * self.y)', 'quotient rule in split form')
twin('C06', 'pyiga/vform.py', 'pyiga.vform.ScalarOperExpr.hash_key', r"return \(self\.oper,\)", 'key = (self.oper,)\n        return key', 'key through a local variable')
# ---- C07
brk('C07', 'R07.1', 'pyiga/bspline.py', 'pyiga.bspline.tp_bsp_eval_pointwise', r"XY\[sdim-1-d\]", 'XY[1-d]', 'the original 2D-only index')
brk('C07', 'R07.2', 'pyiga/bspline.py', 'pyiga.bspline.BSplineFunc.translate', r"return BSplineFunc\(self\.kvs, self\.coeffs \+ offset\)", 'self.coeffs += offset\n        return self', 'translate in place')
brk('C07', 'R07.3', 'pyiga/bspline.py', 'pyiga.bspline.tp_bsp_jac_pointwise', r"result\[k, \.\.\., sdim - i - 1\] = vals", 'result[k, ..., i] = vals', 'derivative slot not reversed')
brk('C07', 'R07.4', 'pyiga/geometry.py', 'pyiga.geometry._nurbs_jacobian', r"return \(Vjac \* W - V \* Wjac\) / \(W\*\*2\)", 'return (Vjac * W + V * Wjac) / (W**2)', 'sign flipped in the NURBS quotient rule')
brk('C07', 'R07.5', 'pyiga/bspline.py', 'pyiga.bspline._parse_bdspec', r"bd = \(dim - 2, 0\)", 'bd = (dim - 2, 1)', 'bottom mapped to the upper side')
brk('C07', 'R07.6', 'pyiga/geometry.py', 'pyiga.geometry.circular_arc_5pt', r"w = np\.cos\(alpha / 4\)", 'w = np.cos(alpha / 2)', 'wrong weight angle')
brk('C07', 'R07.7', 'pyiga/bspline.py', 'pyiga.bspline.tp_bsp_jac_pointwise', r"result\[k, \.\.\., sdim - i - 1\] = vals", 'result[k, :, sdim - i - 1] = vals', 'fixed-rank index')
twin('C07', 'pyiga/bspline.py', 'pyiga.bspline.tp_bsp_jac_pointwise', r"result\[k, \.\.\., sdim - i - 1\] = vals", 'result[k, ..., sdim - 1 - i] = vals', 'same slot written differently')
twin('C07', 'pyiga/bspline.py', 'pyiga.bspline.BSplineFunc.translate', r"self\.coeffs \+ offset", 'np.add(self.coeffs, offset)', 'np.add instead of +')
# ---- C08
brk('C08', 'R08.1', 'pyiga/mlmatrix_cy.pyx', None, r"\n    for i in range\(M\):\n        bi0, bi1 = bidx1\[i,0\], bidx1\[i,1\]", '\n    for i in prange(M, schedule=\'static\', nogil=True):\n        bi0, bi1 = bidx1[i,0], bidx1[i,1]', 're-enable the racy prange in ml_matvec_2d')
brk('C08', 'R08.8', 'pyiga/genericasm.pxi', None, r"_result = np\.zeros\(\(idx_arr\.shape\[0\], self\.numcomp\[1\], self\.numcomp\[0\]\)\)", '_result = np.zeros((idx_arr.shape[0], self.numcomp[0], self.numcomp[1]))', 'block array declared trial x test components')
brk('C08', 'R08.7', 'pyiga/genericasm.pxi', None, r"\n    bidx0, = bidx\n", '\n    bidx0 = bidx\n', 'the 1D vector core binds the tuple of block patterns without unpacking it')
twin('C08', 'pyiga/genericasm.pxi', None, r"\n    bidx0, = bidx\n", '\n    (bidx0,) = bidx\n', 'parenthesised 1-tuple unpacking in the 1D vector core')
brk('C08', 'R08.2', 'pyiga/assemble.py', 'pyiga.assemble.assemble_entries', r"\(J\[off_diag\], I\[off_diag\]\)\), shape=S\.shape\)", '(I[off_diag], J[off_diag])), shape=S.shape)', 'mirror without swapping coordinates')
brk('C08', 'R08.3', 'pyiga/assemble.py', 'pyiga.assemble.assemble', r"return assemble_entries\(asm, symmetric=symmetric, format=format, layout=layout\)", 'return assemble_entries(asm, symmetric=symmetric, format=format)', 'layout not forwarded')
brk('C08', 'R08.4', 'pyiga/vform.py', 'pyiga.vform.VForm.dependency_analysis', r"if v\.scope != Scope\.BASISFUN and v not in not_precomp\]", 'if v.scope != Scope.BASISFUN]', 'dependents of updatable inputs precomputed again')
brk('C08', 'R08.5', 'pyiga/assemble.py', 'pyiga.assemble.assemble_entries_vec', r"\n\s*if layout == 'blocked':\n\s*axes = \(dim,\) \+ tuple\(range\(dim\)\)   # bring last axis to the front\n\s*X = X\.reorder\(axes\)", '', 'blocked layout not applied')
twin('C08', 'pyiga/assemble.py', 'pyiga.assemble.assemble_entries', r"off_diag = np\.nonzero\(I != J\)\[0\]", 'off_diag = np.flatnonzero(I != J)', 'flatnonzero')
# ---- C09
brk('C09', 'R09.1', 'pyiga/assemble_tools_cy.pyx', None, r"y\[0, 1\] = \(x\[0, 2\] \* x\[2, 1\] - x\[0, 1\] \* x\[2, 2\]\) \* invdet", 'y[0, 1] = (x[0, 1] * x[2, 2] - x[0, 2] * x[2, 1]) * invdet', 'one sign flipped in inverses_3x3 only')
brk('C09', 'R09.2', 'pyiga/assemble.py', 'pyiga.assemble.bsp_stiffness_2d', r"scipy\.sparse\.kron\(K1, M2, format=format\) \+ scipy\.sparse\.kron\(M1, K2, format=format\)", 'scipy.sparse.kron(K1, M2, format=format) + scipy.sparse.kron(K2, M1, format=format)', 'axes swapped in one Kronecker term')
brk('C09', 'R09.3', 'pyiga/assemble.py', 'pyiga.assemble.bsp_mixed_deriv_biform_1d', r"\(2 \* knotvec\.p - du - dv \+ 1\) / 2\.0", '(2 * knotvec.p - du - dv) / 2.0', 'one degree short')
brk('C09', 'R09.4', 'pyiga/assemble.py', 'pyiga.assemble.bsp_mixed_deriv_biform_1d_asym', r"first_act1 = np\.vectorize\(knotvec1\.first_active_at", 'first_act1 = np.vectorize(knotvec2.first_active_at', 'column indices from the test space')
twin('C09', 'pyiga/assemble_tools_cy.pyx', None, r"y\[0, 1\] = \(x\[0, 2\] \* x\[2, 1\] - x\[0, 1\] \* x\[2, 2\]\) \* invdet", 'y[0, 1] = (x[2, 1] * x[0, 2] - x[2, 2] * x[0, 1]) * invdet', 'commuted factors')
# ---- C10
brk('C10', 'R10.1', 'pyiga/assemble.py', 'pyiga.assemble.RestrictedLinearSystem.__init__', r"values = np\.asarray\(values\)\[np\.argsort\(indices, kind='stable'\)\]", 'values = np.asarray(values)', 'values no longer sorted with the indices')
brk('C10', 'R10.2', 'pyiga/assemble.py', 'pyiga.assemble.combine_bcs', r"return uidx, values\[lookup\]", 'return uidx, values[:len(uidx)]', 'values decoupled from the unique indices')
brk('C10', 'R10.4', 'pyiga/assemble.py', 'pyiga.assemble.compute_dirichlet_bcs', r"for bd in \(0,1\)\]", 'for bd in (0,)]', "'all' covers only the lower sides")
twin('C10', 'pyiga/assemble.py', 'pyiga.assemble.RestrictedLinearSystem.__init__', r"values = np\.asarray\(values\)\[np\.argsort\(indices, kind='stable'\)\]", "order = np.argsort(indices, kind='stable')\n            values = np.asarray(values)[order]", 'argsort through a local')
# ---- C11
brk('C11', 'R11.1', 'pyiga/relaxation_cy.pyx', None, r"I0,I1,Is = indices\.shape\[0\] - 1, -1, -1", 'I0,I1,Is = indices.shape[0] - 1, 0, -1', 'backward sweep skips the first index')
brk('C11', 'R11.2', 'pyiga/hierarchical.py', 'pyiga.hierarchical.HSpace.func_supp_indices', r"indices\[lv\]\[i\] = sorted\(funcs - self\.index_dirichlet\[lv\]\[i\]\)", 'indices[lv][i] = sorted(funcs)', 'Dirichlet dofs enter the smoothing set')
brk('C11', 'R11.4', 'pyiga/solvers.py', 'pyiga.solvers.iterative_solve', r"x = step\(x\)\n(\s*)r = f - A @ x       # compute new residual", r"r = f - A @ x       # compute new residual\n\1x = step(x)", 'residual of the previous iterate is tested')
brk('C11', 'R11.5', 'pyiga/solvers.py', 'pyiga.solvers.twogrid', r"if u0 is not None else", 'if u0 else', 'truth-value test of an array')
brk('C11', 'R11.7', 'pyiga/solvers.py', 'pyiga.solvers.solve_hmultigrid', r", smooth_steps=smooth_steps\)", ')', 'smooth_steps not forwarded')
twin('C11', 'pyiga/solvers.py', 'pyiga.solvers.iterative_solve', r"r = f - A @ x       # compute new residual\n(\s*)res = scipy\.linalg\.norm\(r\[active_dofs\]\)", r"r = f - A @ x\n\1res = scipy.linalg.norm(r[active_dofs])", 'comment removed')
# ---- C12
brk('C12', 'R12.1', 'pyiga/solvers.py', 'pyiga.solvers.coeffs_esdirk34', r"a32 = -0\.1083655513813208000", 'a32 = -0.1083755513813208000', 'one digit of a32 changed')
brk('C12', 'R12.2', 'pyiga/solvers.py', 'pyiga.solvers._adaptive_step_method.<locals>._method', r"fac = min\(5\.0, max\(0\.2, fac\)\)", 'fac = min(5.0, max(0.0, fac))', 'step factor can become zero')
brk('C12', 'R12.2', 'pyiga/solvers.py', 'pyiga.solvers._adaptive_step_method.<locals>._method', r"if r <= 1:", 'if r <= 2:', 'acceptance threshold loosened')
brk('C12', 'R12.4', 'pyiga/solvers.py', 'pyiga.solvers.newton', r"if np\.linalg\.norm\(res\) < target:    # converged\?\n(\s*)return x\n", r"if num_it > 2:\n\1return x\n", 'return not guarded by the residual')
brk('C12', 'R12.5', 'pyiga/solvers.py', 'pyiga.solvers.dirk_step.<locals>.newton_J', r"return M - tau \* a_ii \* J\(z\)", 'return M + tau * a_ii * J(z)', 'Jacobian sign')
brk('C12', 'R12.6', 'pyiga/solvers.py', None, r"esdirk23 = adaptive_dirk_method\(\*coeffs_esdirk23\(\)", 'esdirk23 = adaptive_dirk_method(*coeffs_esdirk34()', 'method registered with the wrong table')
brk('C12', 'R12.7', 'pyiga/solvers.py', 'pyiga.solvers.rosenbrock_step', r"    if M is None:\n        M = scipy\.sparse\.eye\(x\.shape\[0\]\)\n    gamma", '    gamma', 'M=None no longer handled in rosenbrock_step')
twin('C12', 'pyiga/solvers.py', 'pyiga.solvers.coeffs_esdirk34', r"gam = 0\.43586652150845899942", 'gam = 0.4 + 0.03586652150845899942', 'gam as a sum of two literals')
twin('C12', 'pyiga/solvers.py', 'pyiga.solvers._adaptive_step_method.<locals>._method', r"fac = min\(5\.0, max\(0\.2, fac\)\)", 'fac = np.clip(fac, 0.2, 5.0)', 'np.clip')
# ---- C13
brk('C13', 'R13.2', 'pyiga/vform.py', 'pyiga.vform.VForm.hash', r"self\.spacetime, self\.is_boundary\)", 'self.spacetime)', 'boundary flag not hashed')
brk('C13', 'R13.3', 'pyiga/compile.py', 'pyiga.compile.compile_vform', r"cache_key = \(vf\.hash\(\), __asm_cache_args\(on_demand\)\)", 'cache_key = (vf.hash(), __asm_cache_args(False))', 'on_demand not part of the key')
brk('C13', 'R13.5', 'pyiga/compile.py', None, r"vform\.heat_st_vf\(dim\), getattr\(assemblers, 'HeatAssembler_ST'\+nD\)", "vform.heat_st_vf(dim), getattr(assemblers, 'WaveAssembler_ST'+nD)", 'heat form seeded with the wave assembler')
brk('C13', 'R13.6', 'pyiga/codegen/cython.py', 'pyiga.codegen.cython.AsmGenerator.generate_kernel', r"self\.put\('r \+= ' \+ self\.gencode\(expr\)\)", "self.put('r += 1.0 * ' + self.gencode(expr))", 'generator output no longer matches the shipped file')
brk('C13', 'R13.7', 'pyiga/vform.py', 'pyiga.vform.AsmVar.hash', r"src_hash = expr_hashes\[self\.expr\] if self\.expr in expr_hashes else exprhash\(self\.expr\)", 'src_hash = expr_hashes[self.expr]', 'partial table indexed over all variables')
twin('C13', 'pyiga/compile.py', None, r"(    __add_to_vform_asm_cache\(vform\.mass_vf\(dim\)[^\n]*\n)(    __add_to_vform_asm_cache\(vform\.stiffness_vf\(dim\)[^\n]*\n)", r"\2\1", 'seeding lines reordered')
# ---- C14
brk('C14', 'R14.1', 'pyiga/assemble.py', 'pyiga.assemble.Multipatch.join_dofs', r"if sd1 is not None and sd2 is not None:\n(?:.|\n)*?elif sd1 is not None:", 'if sd1 is not None:', 'both-shared case folded into the one-sided case')
brk('C14', 'R14.2', 'pyiga/assemble.py', 'pyiga.assemble.Multipatch.finalize', r"        # drop shared dofs which were emptied(?:.|\n)*?\n\n", '', 'emptied classes are not compacted')
brk('C14', 'R14.3', 'pyiga/assemble.py', 'pyiga.assemble.Multipatch.patch_to_global_idx', r", dtype=int\)\.reshape\(-1, 2\)", ')', 'index array loses its rank in the empty case')
twin('C14', 'pyiga/assemble.py', 'pyiga.assemble.Multipatch.patch_to_global_idx', r", dtype=int\)\.reshape\(-1, 2\)", ', dtype=np.intp).reshape(-1, 2)', 'np.intp dtype')
# ---- C15
brk('C15', 'R15.1', 'pyiga/mlmatrix_cy.pyx', None, r"bidx_ptr\[i\]\[0\], bidx_ptr\[i\]\[1\]", 'bidx_ptr[i][0], bidx_ptr[0][1]', 'the original level-0 read')
brk('C15', 'R15.2', 'pyiga/mlmatrix_cy.pyx', None, r"I = xi0 \* m2 \+ yi0      # range: m1\*m2\*m3", 'I = xi0 * n2 + yi0      # range: m1*m2*m3', 'column extent in the row number')
brk('C15', 'R15.3', 'pyiga/mlmatrix.py', 'pyiga.mlmatrix.MLStructure.sequential_bidx', r"self\.bs\[j\]\[1\] \* self\.bidx", 'self.bs[j][0] * self.bidx', 'row extent as ravel stride')
brk('C15', 'R15.6', 'pyiga/mlmatrix.py', 'pyiga.mlmatrix.reindex_to_multilevel', r"bs = np\.asarray\(bs\)", 'bs = np.array(bs, copy=False)', 'removed numpy API')
brk('C15', 'R15.7', 'pyiga/mlmatrix.py', 'pyiga.mlmatrix.MLMatrix._matvec', r"y = np\.zeros\(self\.shape\[0\]\)\n(\s*)ml_matvec_2d", r"y = np.zeros(len(x))\n\1ml_matvec_2d", 'output sized by the input')
twin('C15', 'pyiga/mlmatrix_cy.pyx', None, r"I = xi0 \* m2 \+ yi0      # range: m1\*m2\*m3", 'I = yi0 + xi0 * m2', 'commuted sum')
# ---- C16
brk('C16', 'R16.1', 'pyiga/operators.py', 'pyiga.operators.BaseBlockOperator._adjoint', r"    def _adjoint\(self\):\n(?:.|\n)*?self\.ran_in, self\.ran_out\)\n", '', 'adjoint of the block operator deleted')
brk('C16', 'R16.2', 'pyiga/operators.py', 'pyiga.operators.KroneckerOperator._adjoint', r"_adjoint_of\(B\) for B in self\.ops", 'B.H for B in self.ops', '.H taken from operands of unknown kind')
brk('C16', 'R16.3', 'pyiga/operators.py', 'pyiga.operators.KroneckerOperator.__init__', r"if alldense or not allsquare:", 'if alldense:', 'square-only routine selected for rectangular operators')
brk('C16', 'R16.5', 'pyiga/tensor.py', 'pyiga.tensor.modek_tprod', r"return np\.moveaxis\(Y, 0, k\)", 'return np.moveaxis(Y, -1, k)', 'wrong axis moved after the sparse mode product')
twin('C16', 'pyiga/operators.py', 'pyiga.operators.NullOperator._adjoint', r"return self\._transpose\(\)", 'return NullOperator((self.shape[1], self.shape[0]), dtype=self.dtype)', 'adjoint spelled out')
# ---- C17
brk('C17', 'R17.1', 'pyiga/approx.py', 'pyiga.approx.project_L2', r"\n\s*# fall back to a direct solver[^\n]*\n\s*x = operators\.make_solver\(M, spd=True\)\.dot\(b\)", '', 'CG status only printed')
brk('C17', 'R17.2', 'pyiga/approx.py', 'pyiga.approx.interpolate', r"bspline\.collocation\(kvs\[i\], nodes\[i\]\)", 'bspline.collocation(kvs[i], nodes[0])', 'all axes use the nodes of axis 0')
brk('C17', 'R17.3', 'pyiga/approx.py', 'pyiga.approx.project_L2', r"assemble\.inner_products\(kvs, f, f_physical=f_physical, geo=geo\)", 'assemble.inner_products(kvs, f, geo=geo)', 'f_physical dropped')
brk('C17', 'R17.4', 'pyiga/bspline.py', 'pyiga.bspline.KnotVector.greville', r"return np\.clip\(g, self\.kv\[0\], self\.kv\[-1\]\)", 'return g', 'Greville points not clamped')
twin('C17', 'pyiga/approx.py', 'pyiga.approx.project_L2', r"x = operators\.make_solver\(M, spd=True\)\.dot\(b\)", "raise RuntimeError('CG did not converge')", 'raise instead of falling back')
# ---- C18
brk('C18', 'R18.1', 'pyiga/tensor.py', 'pyiga.tensor.TensorProd.__neg__', r"    def __neg__\(self\):\n[^\n]*\n", '', '__neg__ removed from TensorProd')
brk('C18', 'R18.2', 'pyiga/tensor.py', 'pyiga.tensor.CanonicalTensor.squeeze', r"factors = self\.Xs\[axis\[0\]\]\.copy\(\)", 'factors = self.Xs[axis[0]]', 'accumulating into the operand\'s factor')
brk('C18', 'R18.3', 'pyiga/tensor.py', 'pyiga.tensor.grou', r"if err < tol:\n(\s*)break", r"if True:\n\1break", 'loop left unconditionally')
twin('C18', 'pyiga/tensor.py', 'pyiga.tensor.CanonicalTensor.squeeze', r"factors = self\.Xs\[axis\[0\]\]\.copy\(\)", 'factors = np.array(self.Xs[axis[0]])', 'np.array copy')
# ---- C19
brk('C19', 'R19.1', 'pyiga/bspline.py', 'pyiga.bspline.make_knots', r"np\.linspace\(a, b, n \+ 1\)\[1:-1\]", 'np.arange(a, b, (b-a) / n)[1:]', 'the original arange')
brk('C19', 'R19.2', 'pyiga/bspline.py', 'pyiga.bspline.KnotVector.refine', r"kvnew = np\.sort\(np\.concatenate\(\(self\.kv, new_knots\)\)\)", 'kvnew = np.concatenate((self.kv, new_knots))', 'refined knots not sorted')
brk('C19', 'R19.5', 'pyiga/spline.py', 'pyiga.spline.Spline.derivative', r"self\.kv\.kv\[p\+1:-1\]", 'self.kv.kv[p:-1]', 'knot difference slice one too long')
brk('C19', 'R19.6', 'pyiga/bspline.py', 'pyiga.bspline.KnotVector.mesh_span_indices', r"\n\s*self\._ensure_mesh\(\)", '', 'mesh cache read before it is built')
twin('C19', 'pyiga/bspline.py', 'pyiga.bspline.make_knots', r"np\.linspace\(a, b, n \+ 1\)\[1:-1\]", 'np.linspace(a, b, n + 1)[1:n]', 'explicit upper slice bound')
# ---- C20
brk('C20', 'R20.1', 'pyiga/compile.py', 'pyiga.compile._compile_cython_module_nocache', r"build_extension\.build_lib = builddir", 'build_extension.build_lib = MODDIR', 'linker writes directly into the cache directory')
brk('C20', 'R20.3', 'pyiga/compile.py', 'pyiga.compile._compile_cython_module_nocache', r"os\.replace\(built, os\.path\.join\(MODDIR, os\.path\.basename\(built\)\)\)", 'shutil.copy(built, os.path.join(MODDIR, os.path.basename(built)))', 'non-atomic publication')
twin('C20', 'pyiga/compile.py', 'pyiga.compile._compile_cython_module_nocache', r"os\.replace\(built,", 'os.rename(built,', 'os.rename')


# ---- more refactor twins (behaviour-preserving rewrites of constructs that carry definite checks)
twin('C02', 'pyiga/bspline.py', 'pyiga.bspline.KnotVector.first_active', r"return k - self\.p", 'return -self.p + k', 'commuted difference')
twin('C03', 'pyiga/_hdiscr.py', 'pyiga._hdiscr.HDiscretization.assemble_matrix', r"return \(T\.T @ A_hb @ T\)\.tocsr\(\)", 'return T.T.dot(A_hb).dot(T).tocsr()', 'dot() chain instead of @')
twin('C04', 'pyiga/hierarchical.py', 'pyiga.hierarchical.HSpace._cell_neighborhood', r"if l - self\.disparity < 0:", 'if l < self.disparity:', 'equivalent guard')
twin('C07', 'pyiga/geometry.py', 'pyiga.geometry.circular_arc_5pt', r"w = np\.cos\(alpha / 4\)", 'w = np.cos(0.25 * alpha)', 'same angle written as a product')
twin('C07', 'pyiga/geometry.py', 'pyiga.geometry._BoundaryFunction.eval', r"x\.insert\(len\(x\) - self\.axis, self\.fixed_coord\)", 'x.insert(-self.axis + len(x), self.fixed_coord)', 'commuted position')
twin('C09', 'pyiga/assemble.py', 'pyiga.assemble.bsp_stiffness_2d', r"scipy\.sparse\.kron\(K1, M2, format=format\) \+ scipy\.sparse\.kron\(M1, K2, format=format\)", 'scipy.sparse.kron(M1, K2, format=format) + scipy.sparse.kron(K1, M2, format=format)', 'terms of the Kronecker sum commuted')
twin('C09', 'pyiga/assemble.py', 'pyiga.assemble.bsp_mixed_deriv_biform_1d', r"\(2 \* knotvec\.p - du - dv \+ 1\) / 2\.0", '(knotvec.p - du + knotvec.p - dv + 1) / 2.0', 'degree written as a sum')
twin('C10', 'pyiga/assemble.py', 'pyiga.assemble.compute_dirichlet_bcs', r"for bd in \(0,1\)\]", 'for bd in (1, 0)]', 'sides enumerated in the other order')
twin('C10', 'pyiga/assemble.py', 'pyiga.assemble.combine_bcs', r"return uidx, values\[lookup\]", 'vals = values[lookup]\n    return uidx, vals', 'values through a local')
twin('C11', 'pyiga/relaxation_cy.pyx', None, r"I0,I1,Is = indices\.shape\[0\] - 1, -1, -1", 'I0,I1,Is = -1 + indices.shape[0], -1, -1', 'commuted bound')
twin('C11', 'pyiga/solvers.py', 'pyiga.solvers.iterative_solve', r"return x, np\.inf", "return x, float('inf')", 'float(inf)')
twin('C12', 'pyiga/solvers.py', 'pyiga.solvers._adaptive_step_method.<locals>._method', r"if r <= 1:", 'if r <= 1.0:', 'float literal')
twin('C15', 'pyiga/mlmatrix.py', 'pyiga.mlmatrix.MLStructure.sequential_bidx', r"self\.bs\[j\]\[1\] \* self\.bidx\[j\]\[:,0\] \+ self\.bidx\[j\]\[:,1\]", 'self.bidx[j][:,1] + self.bidx[j][:,0] * self.bs[j][1]', 'commuted ravel')
twin('C17', 'pyiga/approx.py', 'pyiga.approx.project_L2', r"assemble\.inner_products\(kvs, f, f_physical=f_physical, geo=geo\)", 'assemble.inner_products(kvs, f, geo=geo, f_physical=f_physical)', 'keyword order')
twin('C19', 'pyiga/spline.py', 'pyiga.spline.Spline.derivative', r"self\.kv\.kv\[p\+1:-1\]", 'self.kv.kv[1+p:-1]', 'commuted slice bound')
twin('C16', 'pyiga/tensor.py', 'pyiga.tensor.modek_tprod', r"return np\.rollaxis\(Y, -1, k\)", 'return np.moveaxis(Y, -1, k)', 'moveaxis instead of rollaxis for the dense branch')
twin('C06', 'pyiga/vform.py', 'pyiga.vform.ScalarOperExpr.fold_constants', r"if self\.x\.is_zero\(\):            # 0 \+ y  -->  y\n(\s*)return self\.y\n(\s*)if self\.y\.is_zero\(\):            # x \+ 0  -->  x\n(\s*)return self\.x",
     r"if self.y.is_zero():            # x + 0  -->  x\n\1return self.x\n\2if self.x.is_zero():            # 0 + y  -->  y\n\3return self.y", 'two folding rules swapped')
twin('C08', 'pyiga/assemble.py', 'pyiga.assemble.assemble_entries_vec', r"        if format == 'mlb':\n            return X\n        else:\n            return X\.asmatrix\(format\)", "        return X if format == 'mlb' else X.asmatrix(format)", 'conditional expression return')
twin('C18', 'pyiga/tensor.py', 'pyiga.tensor.grou', r"if err < tol:\n(\s*)break", r"if tol > err:\n\1break", 'comparison flipped')
twin('C13', 'pyiga/compile.py', 'pyiga.compile.compile_vform', r"cache_key = \(vf\.hash\(\), __asm_cache_args\(on_demand\)\)", 'key_args = __asm_cache_args(on_demand)\n    cache_key = (vf.hash(), key_args)', 'key arguments through a local')
twin('C14', 'pyiga/assemble.py', 'pyiga.assemble.Multipatch.join_dofs', r"if sd1 is not None and sd2 is not None:", 'if sd2 is not None and sd1 is not None:', 'conjuncts swapped')
twin('C20', 'pyiga/compile.py', 'pyiga.compile._compile_cython_module_nocache', r"builddir = tempfile\.mkdtemp\(prefix=modname \+ '-build-', dir=MODDIR\)", "builddir = tempfile.mkdtemp(dir=MODDIR, prefix='build-' + modname)", 'mkdtemp arguments rearranged')
twin('C01', 'pyiga/codegen/cython.py', 'pyiga.codegen.cython.AsmGenerator.gen_pderiv', r"nderiv = self\.numderiv\+1,", 'nderiv = 1 + self.numderiv,', 'commuted stride')
twin('C05', 'pyiga/hierarchical.py', 'pyiga.hierarchical.HSplineFunc.grid_jacobian', r"return sum\(f\.grid_jacobian\(gridaxes\)\n\s*for f in self\.hs\.coeffs_to_levelwise_funcs\(self\.coeffs, truncate=self\.truncate\)\)",
     'funcs = self.hs.coeffs_to_levelwise_funcs(self.coeffs, truncate=self.truncate)\n        return sum(f.grid_jacobian(gridaxes) for f in funcs)', 'level-wise functions through a local')

brk('C18', 'R18.9', 'pyiga/tensor.py', 'pyiga.tensor.CanonicalOperator.__init__', r"self\.terms = \[tuple\(t\) for t in terms\]", 'self.terms = list(terms)', 'terms stored as passed: eye() hands in lists')
twin('C18', 'pyiga/tensor.py', 'pyiga.tensor.CanonicalOperator.__init__', r"self\.terms = \[tuple\(t\) for t in terms\]", 'self.terms = list(tuple(term) for term in terms)', 'normalisation spelled with a generator')
brk('C03', 'R03.12', 'pyiga/_hdiscr.py', 'pyiga._hdiscr.HDiscretization.assemble_matrix', r"for lv in range\(k\):", 'for lv in range(max(0, k - hs.disparity), k):', 'inter-level search bounded by the disparity again')
twin('C03', 'pyiga/_hdiscr.py', 'pyiga._hdiscr.HDiscretization.assemble_matrix', r"for lv in range\(k\):", 'for lv in range(0, k):', 'explicit start of the level range')
brk('C05', 'R05.7', 'pyiga/hierarchical.py', 'pyiga.hierarchical.HSpace.prolongate_to', r"for l in range\(lv \+ 1, f_numlevels\):", 'for l in range(lv + 1, min(f_numlevels, lv + max(self.disparity, fine.disparity) + 1)):', 'propagation cut at the disparity again')
twin('C05', 'pyiga/hierarchical.py', 'pyiga.hierarchical.HSpace.prolongate_to', r"for l in range\(lv \+ 1, f_numlevels\):", 'for l in range(1 + lv, fine.numlevels):', 'finest level spelled fine.numlevels')
twin('C05', 'pyiga/hierarchical.py', 'pyiga.hierarchical.HSpace.virtual_hierarchy_prolongators',
     r"            prolongators = \[\n                    self\.truncate_one_level\(k, num_rows=P\.shape\[0\], inverse=True\) @ P\n                    for k, P in enumerate\(prolongators\)\]",
     """            thb = []
            for k, P in enumerate(prolongators):
                n = P.shape[0]
                T = Tinv = scipy.sparse.eye(n, format='csr')
                for j in range(k):
                    T = self.truncate_one_level(j, num_rows=n) @ T
                    Tinv = Tinv @ self.truncate_one_level(j, num_rows=n, inverse=True)
                Tinv = Tinv @ self.truncate_one_level(k, num_rows=n, inverse=True)
                thb.append((Tinv @ T @ P).tocsc())
            prolongators = thb""", 'the repaired THB prolongators (conjugation with the lower truncations): R05.8 met, no finding')
brk('C18', 'R18.10', 'pyiga/lowrank.py', 'pyiga.lowrank.aca_3d', r"E_mat\[tuple\(I\[1:\]\)\] = 0", 'E_mat[I[1:]] = 0', 'list used as a multi-index')
twin('C18', 'pyiga/lowrank.py', 'pyiga.lowrank.aca_3d', r"E_mat\[tuple\(I\[1:\]\)\] = 0", 'E_mat[I[1], I[2]] = 0', 'explicit pair of indices')
brk('C08', 'R08.4', 'pyiga/vform.py', 'pyiga.vform.VForm.dependency_analysis', r"\(isinstance\(v\.src, InputField\) and v\.src\.updatable\)\n\s*or isinstance\(v\.src, Parameter\)", '(isinstance(v.src, InputField) and v.src.updatable)', 'descendants of parameters precomputed again')
# ---- rules written for defects of the unchanged library that sixth-wave sub-agents reported as asides (all repaired in /repo)
brk('C07', 'R07.9', 'pyiga/bspline.py', 'pyiga.bspline.BSplineFunc.grid_hessian', r"dtype=np\.result_type\(self\.coeffs\.dtype, float\)", 'dtype=self.coeffs.dtype', 'Hessian buffer inherits an integer coefficient dtype again')
twin('C07', 'pyiga/bspline.py', 'pyiga.bspline.BSplineFunc.grid_hessian', r"dtype=np\.result_type\(self\.coeffs\.dtype, float\)", 'dtype=np.promote_types(self.coeffs.dtype, np.float64)', 'promotion spelled with promote_types')
brk('C16', 'R16.8', 'pyiga/operators.py', 'pyiga.operators.make_solver', r"    else:\n        if spd:\n", '    else:\n        if symmetric:\n', 'Cholesky for every symmetric dense matrix again')
brk('C10', 'R10.7', 'pyiga/assemble.py', 'pyiga.assemble.compute_initial_condition_01', r"bspline\.active_deriv\(kvs\[bdax\], t_start, 1\)", 'bspline.active_deriv(kvs[bdax], 0.0, 1)', 'start of the time axis assumed to be 0 again')
twin('C10', 'pyiga/assemble.py', 'pyiga.assemble.compute_initial_condition_01', r"t_start, t_end = kvs\[bdax\]\.support\(\)", 'supp = kvs[bdax].support()\n    t_start, t_end = supp[0], supp[1]', 'support unpacked by subscripts')
brk('C19', 'R19.9', 'pyiga/bspline.py', 'pyiga.bspline.KnotVector.__eq__', r" and\n\s*np\.allclose\(other\.kv, self\.kv, atol=1e-8, rtol=1e-8\)\)", ')', 'one-directional allclose again')
brk('C03', 'R03.14', 'pyiga/_hdiscr.py', 'pyiga._hdiscr.HDiscretization.assemble_matrix', r"B = B\.tocoo\(\)\n(\s*)coo_I\.append\(rows\[B\.row\]\)\n(\s*)coo_J\.append\(columns\[B\.col\]\)", r"I, J = B.nonzero()\n\1coo_I.append(rows[I])\n\2coo_J.append(columns[J])", 'indices from nonzero(), values from .data again')
brk('C05', 'R05.10', 'pyiga/bspline.py', 'pyiga.bspline.prolongation', r"spsolve\(C2, C1\)\.reshape\(C1\.shape\)", 'spsolve(C2, C1)', 'one-column result left 1-D again')
twin('C05', 'pyiga/bspline.py', 'pyiga.bspline.prolongation', r"spsolve\(C2, C1\)\.reshape\(C1\.shape\)", 'spsolve(C2, C1).reshape((kv2.numdofs, kv1.numdofs))', 'shape spelled through the knot vectors')
brk('C18', 'R18.12', 'pyiga/tensor.py', 'pyiga.tensor.CanonicalTensor.squeeze', r"\n\s*axis = tuple\(i \+ self\.ndim if i < 0 else i for i in axis\)[^\n]*", '', 'negative axes no longer normalised')
brk('C03', 'R03.15', 'pyiga/_hdiscr.py', 'pyiga._hdiscr.HDiscretization._assemble_level', r"for inp in self\.vf\.inputs \+ self\.vf\.params\}", 'for inp in self.vf.inputs}', 'parameters not handed to the level assembler')
twin('C03', 'pyiga/_hdiscr.py', 'pyiga._hdiscr.HDiscretization._assemble_level', r"for inp in self\.vf\.inputs \+ self\.vf\.params\}", 'for inp in itertools.chain(self.vf.inputs, self.vf.params)}', 'chained instead of concatenated')
brk('C11', 'R11.10', 'pyiga/solvers.py', 'pyiga.solvers.local_mg_step', r"x1\[lv_ind\] \+= Bs\[0\]\.dot\(\(f - As\[0\]\.dot\(x1\)\)\[lv_ind\]\)", 'x1[lv_ind] = Bs[0].dot(f[lv_ind])', 'coarsest level overwrites instead of correcting')
twin('C11', 'pyiga/solvers.py', 'pyiga.solvers.local_mg_step', r"x1\[lv_ind\] \+= Bs\[0\]\.dot\(\(f - As\[0\]\.dot\(x1\)\)\[lv_ind\]\)", 'r0 = f - As[0].dot(x1)\n            x1[lv_ind] += Bs[0].dot(r0[lv_ind])', 'residual through a local')
brk('C15', 'R15.11', 'pyiga/mlmatrix.py', 'pyiga.mlmatrix.compute_sparsity_ij', r"meshsupp1 = np\.stack\(\(kv1\.kv\[:kv1\.numdofs\], kv1\.kv\[kv1\.p\+1:\]\), axis=1\)\n(\s*)meshsupp2 = np\.stack\(\(kv2\.kv\[:kv2\.numdofs\], kv2\.kv\[kv2\.p\+1:\]\), axis=1\)", r"meshsupp1 = kv1.mesh_support_idx_all()\n\1meshsupp2 = kv2.mesh_support_idx_all()", 'supports as indices into two different meshes again')
# ---- wave 8: breaks are the stored seeds S221..S260 (whole-patch recipes below); twins = behaviour-preserving spellings of the same sites
twin('C09', 'pyiga/assemble.py', 'pyiga.assemble.stiffness_fast', r"return stiffness\(kvs\)", 'K = stiffness(kvs)\n        return K', 'fallback through a temporary')
twin('C09', 'pyiga/assemble.py', 'pyiga.assemble.integrate', r"extra_dims = fvals\.ndim - geo_det\.ndim\n(\s*)if extra_dims > 0:\n\s*geo_det\.shape = geo_det\.shape \+ \(extra_dims \* \(1,\)\)",
     r'geo_det = geo_det.reshape(geo_det.shape + (fvals.ndim - geo_det.ndim) * (1,))', 'padding by reshape')
twin('C12', 'pyiga/solvers.py', 'pyiga.solvers._adaptive_step_method.<locals>._method', r"fac = min\(5\.0, max\(0\.2, fac\)\)", 'fac = np.clip(fac, 0.2, 5.0)', 'clamp by np.clip on every path')
twin('C12', 'pyiga/solvers.py', 'pyiga.solvers.newton', r"target = max\(atol, rtol \* np\.linalg\.norm\(res\)\)", 'target = max(rtol * np.linalg.norm(res), atol)', 'arguments of max commuted')
twin('C15', 'pyiga/mlmatrix.py', 'pyiga.mlmatrix.MLStructure.nonzeros_for_columns', r"J, I = self\.transpose\(\)\.nonzeros_for_rows\(col_indices\)", 'St = self.transpose()\n        J, I = St.nonzeros_for_rows(col_indices)', 'transposed structure through a temporary')
twin('C19', 'pyiga/bspline.py', 'pyiga.bspline.KnotVector.refine', r"kvnew = np\.sort\(np\.concatenate\(\(self\.kv, new_knots\)\)\)", 'kvnew = np.concatenate((self.kv, new_knots))\n        kvnew.sort()', 'in-place sort of the fresh concatenation')
twin('C20', 'pyiga/compile.py', 'pyiga.compile._compile_cython_module_nocache', r"build_extension\.run\(\)", 'build_extension.run()  # single attempt', 'comment only')
twin('C07', 'pyiga/geometry.py', 'pyiga.geometry.UserFunction.pointwise_eval', r"return self\.eval\(\*points\)", 'coords = tuple(points)\n        return self.eval(*coords)', 'coordinates through a tuple, order kept')
twin('C04', 'pyiga/hierarchical.py', 'pyiga.hierarchical.HSpace._mark_recursive', r"marked\[l-self\.disparity\] = marked\.get\(l-self\.disparity, set\(\)\) \| neighbors",
     'lk = l - self.disparity\n            marked[lk] = marked.get(lk, set()) | neighbors', 'level index through a temporary')
twin('C10', 'pyiga/assemble.py', 'pyiga.assemble.RestrictedLinearSystem.__init__', r"self\.b = self\.restrict_rhs\(b - A\.dot\(self\.R_elim\.T\.dot\(values\)\)\)",
     'lifted = b - A.dot(self.R_elim.T.dot(values))\n        self.b = self.restrict_rhs(lifted)', 'lifting through a fresh temporary (no write to b)')
twin('C14', 'pyiga/assemble.py', 'pyiga.assemble._check_geo_match', r"def _check_geo_match\(G1, G2, grid=4\):", 'def _check_geo_match(G1, G2, grid=2*2):', 'default spelled as a product (same value)')

# ---- rules added after the first wave of independently seeded changes (seeded/S01..S08): variants of those changes, and
#      behaviour-preserving rewrites of the same constructs
brk('C03', 'R03.7', 'pyiga/_hdiscr.py', 'pyiga._hdiscr.HDiscretization.assemble_matrix', r"(\n(\s*)for lv in range\(k\):)", r"\1\n\2    if not neighbors[k][lv]:\n\2        continue", 'coarser level skipped inside the accumulation loop')
twin('C03', 'pyiga/_hdiscr.py', 'pyiga._hdiscr.HDiscretization.assemble_matrix', r"for lv in range\(k\):", 'for lv in reversed(range(k)):', 'levels accumulated in the other order (set union commutes)')
brk('C04', 'R04.6', 'pyiga/hierarchical.py', 'pyiga.hierarchical.HSpace._mark_recursive', r"self\._mark_recursive\(l-self\.disparity, marked, truncate=truncate\)", 'self._mark_recursive(l-1, marked, truncate=truncate)', 'recursion continues on a level other than the one whose marks were extended')
twin('C04', 'pyiga/hierarchical.py', 'pyiga.hierarchical.HSpace._mark_recursive', r"self\._mark_recursive\(l-self\.disparity, marked, truncate=truncate\)", 'self._mark_recursive(-self.disparity + l, marked, truncate=truncate)', 'commuted level expression')
brk('C05', 'R05.4', 'pyiga/hierarchical.py', 'pyiga.hierarchical.HSpace.represent_fine', r"Pj\[act_indices\[k\+1\], :\] = 0", 'Pj[self.active_indices()[k+1], :] = 0', 'truncation zeroes the rows of a different index list than the column blocks use')
twin('C05', 'pyiga/hierarchical.py', 'pyiga.hierarchical.HSpace.represent_fine', r"Pj\[act_indices\[k\+1\], :\] = 0", 'Pj[act_indices[1+k], :] = 0', 'commuted subscript')
brk('C06', 'R06.7', 'pyiga/vform.py', 'pyiga.vform.VForm.replace_physical_derivs', r"inner\(self\.JacInv\[self\.spacedims, k\], spacegrad\)", 'inner(self.JacInv[k, self.spacedims], spacegrad)', 'row and column roles of JacInv swapped at one sibling site')
brk('C08', 'R08.5', 'pyiga/assemble.py', 'pyiga.assemble.assemble_entries_vec', r"(\n(\s*)if layout == 'blocked':\n\s*axes = \(dim,\) \+ tuple\(range\(dim\)\)   # bring last axis to the front)", r"\n\2if format == 'mlb':\n\2    return X\1", 'an exit added before the layout permutation')
brk('C10', 'R10.1', 'pyiga/assemble.py', 'pyiga.assemble.RestrictedLinearSystem.__init__', r"values = np\.asarray\(values\)\[np\.argsort\(indices, kind='stable'\)\]", 'values = np.asarray(values)[np.unique(indices, return_inverse=True)[1]]', 'rank of the indices used where the sorting permutation is needed')
brk('C11', 'R11.4', 'pyiga/solvers.py', 'pyiga.solvers.iterative_solve', r"x = x0\n(\s*)res0 = f - A @ x", r"x = x0\n\1res0 = f", 'reference residual ignores the starting vector')
twin('C11', 'pyiga/solvers.py', 'pyiga.solvers.iterative_solve', r"x = x0\n(\s*)res0 = f - A @ x", r"x = x0\n\1res0 = f - A.dot(x0)", 'reference residual through x0 and dot()')
brk('C12', 'R12.8', 'pyiga/solvers.py', 'pyiga.solvers._adaptive_step_method.<locals>._method', r"xnew, xhat, Fxnew = stepper\(M, F, J, x, tau, data, Fx=Fx\)", 'xnew, xhat, Fx = stepper(M, F, J, x, tau, data, Fx=Fx)', 'loop-carried Fx overwritten by a trial step that may be rejected')

# ---- rules added after the second wave (seeded/S09..S20)
_HASH_SORTED = r"\1\n    def hash(self, child_hashes):\n        return Expr.hash(self, tuple(sorted(child_hashes)))\n"
_HASH_FSET = r"\1\n    def hash(self, child_hashes):\n        return Expr.hash(self, (frozenset(child_hashes),))\n"
_HASH_POS = r"\1\n    def hash(self, child_hashes):\n        return Expr.hash(self, tuple(child_hashes))\n"
_HK = r"(    def hash_key\(self\):\n        return \(self\.oper,\)\n)"
brk('C01', 'R01.9', 'pyiga/vform.py', None, _HK, _HASH_SORTED, 'ScalarOperExpr hashes its operands as a sorted tuple')
brk('C06', 'R06.2', 'pyiga/vform.py', None, _HK, _HASH_FSET, 'ScalarOperExpr hashes its operands as a set')
brk('C13', 'R13.1', 'pyiga/vform.py', None, _HK, _HASH_SORTED, 'ScalarOperExpr hashes its operands as a sorted tuple')
twin('C01', 'pyiga/vform.py', None, _HK, _HASH_POS, 'hash override that keeps the operands positional')
twin('C13', 'pyiga/vform.py', None, _HK, _HASH_POS, 'hash override that keeps the operands positional')
brk('C13', 'R13.1', 'pyiga/vform.py', 'pyiga.vform.PartialDerivExpr.hash_key', r"return \(self\.basisfun\.hash\(\), self\.D, self\.physical\)", 'return (self.basisfun.hash(), self.D, self.physical and any(self.D))', 'physical flag enters the key through a boolean expression')
brk('C06', 'R06.1', 'pyiga/vform.py', 'pyiga.vform.PartialDerivExpr.hash_key', r"return \(self\.basisfun\.hash\(\), self\.D, self\.physical\)", 'return (self.basisfun.hash(), self.D if self.physical else None)', 'derivative orders and flag merged by a conditional expression')
twin('C13', 'pyiga/vform.py', 'pyiga.vform.PartialDerivExpr.hash_key', r"return \(self\.basisfun\.hash\(\), self\.D, self\.physical\)", 'phys = self.physical\n        return (self.basisfun.hash(), tuple(self.D), phys)', 'flag through a local, D through tuple()')
brk('C02', 'R02.3', 'pyiga/bspline.py', 'pyiga.bspline.KnotVector.findspan', r"return pyx_findspan\(self\.kv, self\.p, u\)", "return min(self.kv.searchsorted(u, side='right') - 1, len(self.kv) - self.p - 1)", 'Python span search clamped one span too far')
twin('C02', 'pyiga/bspline.py', 'pyiga.bspline.KnotVector.findspan', r"return pyx_findspan\(self\.kv, self\.p, u\)", "return min(self.kv.searchsorted(u, side='right') - 1, len(self.kv) - 2 - self.p)", 'Python span search clamped to the last non-empty span')
brk('C07', 'R07.4', 'pyiga/geometry.py', 'pyiga.geometry.NurbsFunc.grid_hessian', r"np\.triu_indices\(mat\.shape\[-1\]\)", 'np.tril_indices(mat.shape[-1])', 'lower triangle: xz and yy swapped in 3D')
brk('C07', 'R07.4', 'pyiga/geometry.py', 'pyiga.geometry.NurbsFunc.grid_hessian', r"np\.triu_indices\(mat\.shape\[-1\]\)", 'np.triu_indices(mat.shape[-1], 1)', 'diagonal entries dropped from the linearisation')
twin('C07', 'pyiga/geometry.py', 'pyiga.geometry.NurbsFunc.grid_hessian', r"np\.triu_indices\(mat\.shape\[-1\]\)", 'np.triu_indices(mat.shape[-1], k=0)', 'explicit k=0')
brk('C14', 'R14.1', 'pyiga/assemble.py', 'pyiga.assemble.Multipatch.join_dofs', r"elif sd1 is not None:", 'elif sd1:', 'class id tested by truth value (class 0 is falsy)')
brk('C16', 'R16.5', 'pyiga/tensor.py', 'pyiga.tensor.apply_tprod', r"np\.rollaxis\(A, n-1, 0\)", 'np.rollaxis(A, -1, 0)', 'identity branch rolls the last axis instead of axis n-1')
twin('C16', 'pyiga/tensor.py', 'pyiga.tensor.apply_tprod', r"np\.rollaxis\(A, n-1, 0\)", 'np.moveaxis(A, -1 + n, 0)', 'moveaxis with a commuted axis expression')
brk('C17', 'R17.6', 'pyiga/assemble.py', 'pyiga.assemble.integrate', r"geo_det = np\.abs\(assemble_tools\.determinants\(geo_jac\)\)", 'geo_det = assemble_tools.determinants(geo_jac)', 'signed determinant as integration weight')
twin('C17', 'pyiga/assemble.py', 'pyiga.assemble.inner_products', r"geo_det = np\.abs\(assemble_tools\.determinants\(geo_jac\)\)", 'geo_det = np.absolute(assemble_tools.determinants(geo_jac))', 'np.absolute')
brk('C18', 'R18.6', 'pyiga/tensor.py', 'pyiga.tensor.find_truncation_rank', r"total_err_squ \+= err\*\*2\n(\s*)if total_err_squ > tolsq:", r"if total_err_squ + err**2 > tolsq:", 'accumulation of the discarded energy lost')
twin('C18', 'pyiga/tensor.py', 'pyiga.tensor.find_truncation_rank', r"total_err_squ \+= err\*\*2\n", 'total_err_squ = total_err_squ + err**2\n', 'accumulation written as a plain assignment')
brk('C19', 'R19.6', 'pyiga/bspline.py', 'pyiga.bspline.KnotVector.refine', r"mesh = self\.mesh\n", 'mesh = self.kv[self.p:-self.p] if self.p else self.kv\n', 'midpoints between consecutive raw knots')
twin('C19', 'pyiga/bspline.py', 'pyiga.bspline.KnotVector.refine', r"mesh = self\.mesh\n", 'mesh = np.unique(self.kv)\n', 'breakpoints through np.unique')
brk('C20', 'R20.3', 'pyiga/compile.py', 'pyiga.compile._compile_cython_module_nocache', r"(\n(\s*))os\.replace\(built, os\.path\.join\(MODDIR, os\.path\.basename\(built\)\)\)",
    r"\1if not os.path.isfile(os.path.join(MODDIR, os.path.basename(built))):\1    os.replace(built, os.path.join(MODDIR, os.path.basename(built)))", 'existing cache entry is never replaced')
twin('C20', 'pyiga/compile.py', 'pyiga.compile._compile_cython_module_nocache', r"(\n(\s*))os\.replace\(built, os\.path\.join\(MODDIR, os\.path\.basename\(built\)\)\)",
     r"\1target = os.path.join(MODDIR, os.path.basename(built))\1os.replace(built, target)", 'target through a local')

brk('C04', 'R04.7', 'pyiga/hierarchical.py', 'pyiga.hierarchical.HSpace.refine', r"(\n(\s*))marked = \{lv: set\(cells\) for \(lv, cells\) in marked\.items\(\)\}\n\s*if self\.disparity < np\.inf:\n",
    r"\1if self.disparity < np.inf:\1    marked = {lv: set(cells) for (lv, cells) in marked.items()}\n", 'marks copied only for finite disparity (original defect)')
twin('C04', 'pyiga/hierarchical.py', 'pyiga.hierarchical.HSpace.refine', r"marked = \{lv: set\(cells\) for \(lv, cells\) in marked\.items\(\)\}", 'marked = {lv: set(marked[lv]) for lv in marked}', 'copy written over the keys')


def _load_patch_recipes():
    """Independently written changes kept under /verif/seeded (must be reported) and /verif/refactors (behaviour-preserving,
    must stay silent) take part in the self-validation as whole-patch recipes."""
    import glob
    import json
    here = os.path.dirname(os.path.dirname(os.path.abspath(__file__)))
    for meta in sorted(glob.glob(os.path.join(here, 'seeded', 'S*', 'meta.json'))):
        try:
            m = json.load(open(meta))
        except Exception:
            continue
        R.append(dict(prop=m['property'], kind='break', rule=None, file='seeded/' + m['id'], func=None, pat=None, rep=None,
                      desc='independently seeded change: ' + m.get('what', '')[:90], patch=os.path.join(os.path.dirname(meta), 'patch.diff')))
    for meta in sorted(glob.glob(os.path.join(here, 'refactors', 'F*', 'meta.json'))):
        try:
            m = json.load(open(meta))
        except Exception:
            continue
        for prop in m.get('properties', [m.get('property')]):
            R.append(dict(prop=prop, kind='twin', rule=None, file='refactors/' + m['id'], func=None, pat=None, rep=None,
                          desc='independently written refactoring: ' + m.get('what', '')[:90], patch=os.path.join(os.path.dirname(meta), 'patch.diff')))


_load_patch_recipes()


def recipes_for(prop):
    return [r for r in R if r['prop'] == prop]


def _apply(recipe, scratch, prog):
    path = os.path.join(scratch, recipe['file'])
    text = open(path).read()
    lo, hi = 0, len(text)
    if recipe['func']:
        fi = prog.functions.get(recipe['func'])
        if fi is None:
            return 'anchor-missing'
        lines = text.splitlines(keepends=True)
        start = fi.node.lineno - 1
        # include decorators
        if getattr(fi.node, 'decorator_list', None):
            start = min([start] + [d.lineno - 1 for d in fi.node.decorator_list])
        end = getattr(fi.node, 'end_lineno', None) or fi.node.lineno
        # for lowered Cython nodes end_lineno is unreliable: take the max line of all descendants
        import ast as _ast
        end = max([end] + [getattr(n, 'end_lineno', 0) or getattr(n, 'lineno', 0) for n in _ast.walk(fi.node)])
        lo = sum(len(l) for l in lines[:start])
        hi = sum(len(l) for l in lines[:end])
    seg = text[lo:hi]
    new, n = re.subn(recipe['pat'], recipe['rep'], seg, count=1)
    if n != 1:
        return 'anchor-missing'
    open(path, 'w').write(text[:lo] + new + text[hi:])
    return 'applied'


def _run_one(args):
    idx, repo = args
    recipe = R[idx]
    d = tempfile.mkdtemp(prefix='verif_sc_')
    try:
        for sub in ('pyiga', 'scripts'):
            shutil.copytree(os.path.join(repo, sub), os.path.join(d, sub),
                            ignore=shutil.ignore_patterns('*.so', '*.c', '*.cpp', '__pycache__', 'build', '*.o'))
        program_mod.REPO = repo
        base_prog = _BASE.get('prog')
        if recipe.get('patch'):
            import subprocess
            pr = subprocess.run(['patch', '-p1', '-s', '-f', '-d', d, '-i', recipe['patch']], capture_output=True, text=True)
            if pr.returncode != 0:
                return idx, 'skipped', 'patch does not apply to the current tree'
        else:
            status = _apply(recipe, d, base_prog)
            if status != 'applied':
                return idx, 'skipped', 'anchor of the recipe not found in the current tree'
        program_mod.REPO = d
        buf = io.StringIO()
        try:
            compile(open(os.path.join(d, recipe['file'])).read(), recipe['file'], 'exec') if (recipe['file'].endswith('.py') and not recipe.get('patch')) else None
        except SyntaxError as e:
            return idx, 'recipe-error', 'edited file does not parse: %s' % e
        code, ctx = core.run_property(recipe['prop'], 'quick', repo=d, write=False, out=buf)
        out = buf.getvalue()
        if recipe['kind'] == 'break':
            fired = ctx is not None and any(o.verdict == core.VIOLATED and (recipe['rule'] is None or o.rule == recipe['rule']) for o in ctx.obligations)
            if code == 1 and fired:
                hit = recipe['rule'] or ', '.join(sorted({o.rule for o in ctx.obligations if o.verdict == core.VIOLATED}))
                return idx, 'ok', 'fired %s' % hit
            rules = sorted({o.rule for o in ctx.obligations if o.verdict == core.VIOLATED}) if ctx is not None else []
            return idx, 'FAILED', 'expected %s to fire; exit=%s violated rules=%s%s' % (
                recipe['rule'], code, rules, (' ' + out.strip().splitlines()[0][:160]) if code == 2 and out.strip() else '')
        else:
            if code == 0:
                return idx, 'ok', 'silent'
            lines = [l for l in out.splitlines() if l.startswith('pyiga/') or 'ANALYSIS-ERROR' in l]
            return idx, 'FAILED', 'refactor twin raised exit=%s: %s' % (code, (lines[0][:200] if lines else ''))
    finally:
        shutil.rmtree(d, ignore_errors=True)


_BASE = {}


def run(prop, out=sys.stdout, jobs=None):
    """Run all recipes of one property.  Returns (ok, summary dict)."""
    repo = program_mod.REPO
    idxs = [i for i, r in enumerate(R) if r['prop'] == prop]
    if not idxs:
        return True, dict(recipes=0)
    _BASE['prog'] = program_mod.Program(repo)
    jobs = jobs or min(16, len(idxs), os.cpu_count() or 4)
    try:
        ctxm = multiprocessing.get_context('fork')
        with ctxm.Pool(jobs) as pool:
            results = pool.map(_run_one, [(i, repo) for i in idxs])
    finally:
        program_mod.REPO = repo
    summary = dict(recipes=len(idxs), breaks=0, twins=0, ok=0, skipped=0, failed=0, details=[])
    ok = True
    for idx, status, msg in results:
        r = R[idx]
        summary['breaks' if r['kind'] == 'break' else 'twins'] += 1
        if status == 'ok':
            summary['ok'] += 1
        elif status == 'skipped':
            summary['skipped'] += 1
        else:
            summary['failed'] += 1
            ok = False
        summary['details'].append(dict(kind=r['kind'], rule=r['rule'], where='%s %s' % (r['file'], r['func'] or ''), edit=r['desc'], status=status, result=msg))
        print('  SELFCHECK %-6s %-5s %-6s %s :: %s -> %s' % (status, r['kind'], r['rule'] or '', r['file'].split('/')[-1], r['desc'], msg), file=out)
    return ok, summary

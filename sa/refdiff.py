"""Reference agreement: the statements of the functions a property is anchored in are compared with the instances
confirmed on the reference tree (reference/<prop>.json, written by tools/make_reference.py, never at check time).

The comparison is semantic (sa/treecmp.py): statements are aligned, and a pair that differs is classified

    equal       same statement up to commutativity, keyword order, numeric spelling, dot/@, comparison orientation, ...
    mutation    exactly one semantic mutation away from the confirmed statement (operands / arguments / subscripts swapped,
                a constant changed, a sign or comparison flipped, +-1 offset, a keyword argument or a conjunct dropped,
                one variable replaced by another one) -> a definite difference in what the statement computes
    different   anything else (rewritten, moved, inserted, deleted) -> no verdict

Only `mutation` yields a violation.  Two guards keep behaviour-preserving edits quiet: a consistent renaming (a binding
site changes with its uses) is not a mutation, and two mutated statements that are data-dependent on each other may
compensate and are left undecided.
"""
import ast
import copy
import difflib
import json
import os

from .program import src, loc
from . import treecmp

HERE = os.path.dirname(os.path.dirname(os.path.abspath(__file__)))


def _clean(n):
    return n


def records(fn):
    """Flatten a function into (kind, [component expression nodes], node) records in source order.  Docstrings,
    pass, global/nonlocal and nested function bodies are skipped (nested defs are separate functions)."""
    out = []

    def walk(stmts):
        for s in stmts:
            if isinstance(s, ast.Expr) and isinstance(s.value, ast.Constant) and isinstance(s.value.value, str):
                continue
            if isinstance(s, (ast.Pass, ast.Global, ast.Nonlocal, ast.Import, ast.ImportFrom)):
                continue
            if isinstance(s, (ast.FunctionDef, ast.AsyncFunctionDef, ast.ClassDef)):
                out.append(('def', [], s))
                continue
            if isinstance(s, ast.Assign):
                out.append(('assign', list(s.targets) + [s.value], s))
            elif isinstance(s, ast.AugAssign):
                out.append(('aug' + type(s.op).__name__, [s.target, s.value], s))
            elif isinstance(s, ast.AnnAssign):
                out.append(('assign', [s.target] + ([s.value] if s.value is not None else []), s))
            elif isinstance(s, ast.Return):
                out.append(('return', [s.value] if s.value is not None else [], s))
            elif isinstance(s, ast.Expr):
                out.append(('expr', [s.value], s))
            elif isinstance(s, ast.If):
                out.append(('if', [s.test], s))
                walk(s.body)
                if s.orelse:
                    out.append(('else', [], s))
                    walk(s.orelse)
                out.append(('endif', [], s))
            elif isinstance(s, (ast.For, ast.AsyncFor)):
                out.append(('for', [s.target, s.iter], s))
                walk(s.body)
                if s.orelse:
                    out.append(('else', [], s))
                    walk(s.orelse)
                out.append(('endfor', [], s))
            elif isinstance(s, ast.While):
                out.append(('while', [s.test], s))
                walk(s.body)
                out.append(('endwhile', [], s))
            elif isinstance(s, ast.Assert):
                out.append(('assert', [s.test], s))
            elif isinstance(s, ast.Raise):
                out.append(('raise', [s.exc] if s.exc is not None else [], s))
            elif isinstance(s, (ast.With, ast.AsyncWith)):
                comps = []
                for it in s.items:
                    comps.append(it.context_expr)
                    if it.optional_vars is not None:
                        comps.append(it.optional_vars)
                out.append(('with', comps, s))
                walk(s.body)
                out.append(('endwith', [], s))
            elif isinstance(s, ast.Try):
                out.append(('try', [], s))
                walk(s.body)
                for h in s.handlers:
                    out.append(('except', [h.type] if h.type is not None else [], h))
                    walk(h.body)
                if s.orelse:
                    out.append(('else', [], s))
                    walk(s.orelse)
                if s.finalbody:
                    out.append(('finally', [], s))
                    walk(s.finalbody)
                out.append(('endtry', [], s))
            elif isinstance(s, (ast.Break, ast.Continue)):
                out.append((type(s).__name__.lower(), [], s))
            elif isinstance(s, ast.Delete):
                out.append(('del', list(s.targets), s))
            else:
                out.append((type(s).__name__.lower(), [], s))
    walk(fn.body)
    return out


def records_of(stmts):
    class _F:
        pass
    f = _F()
    f.body = stmts
    return records(f) or [('empty', [], None)]


def _key(rec):
    kind, comps, _n = rec
    try:
        return kind + '|' + '|'.join(repr(treecmp._normalise_consts(treecmp.canon(c))) for c in comps)
    except RecursionError:
        return kind + '|' + '|'.join(src(c) for c in comps)


def _names(node, ctx_type=None):
    return {n.id for n in ast.walk(node) if isinstance(n, ast.Name) and (ctx_type is None or isinstance(n.ctx, ctx_type))}


def _binds(rec):
    kind, comps, n = rec
    out = set()
    if kind == 'assign' or kind.startswith('aug'):
        for t in comps[:-1]:
            out |= _names(t)
    elif kind == 'for':
        out |= _names(comps[0])
    elif kind == 'with':
        for c in comps:
            if isinstance(c, (ast.Name, ast.Tuple)):
                out |= _names(c)
    return out


def _reads(rec):
    kind, comps, n = rec
    out = set()
    for c in comps:
        out |= _names(c, ast.Load)
    return out


KNOWN_DEFAULTS = {
    # keyword -> values that are the documented default of the numpy / scipy / builtin callee it is used with in pyiga
    'endpoint': ('True',), 'copy': ('True',), 'order': ("'C'",), 'indexing': ("'xy'",), 'side': ("'left'",), 'keepdims': ('False',),
    'reverse': ('False',), 'step': ('1',), 'start': ('0',), 'verbose': ('False', '0'), 'kind': ("'quicksort'", 'None'), 'sparse': ('False',), 'check_finite': ('True',),
    'overwrite_a': ('False',), 'overwrite_b': ('False',), 'lower': ('False',), 'return_index': ('False',), 'return_inverse': ('False',),
    'return_counts': ('False',), 'assume_unique': ('False',), 'exist_ok': ('False',), 'ignore_errors': ('False',), 'out': ('None',),
    'format': ('None',), 'subok': ('True',), 'ndmin': ('0',),
}

# defaults that depend on the callee (last component of its name); C-implemented numpy functions have no Python signature
# that could be parsed, so the documented values are listed here
_FLOAT = ('float', 'np.float64', 'np.double', 'np.float_', 'None')
CALLEE_DEFAULTS = {
    ('zeros', 'dtype'): _FLOAT, ('ones', 'dtype'): _FLOAT, ('empty', 'dtype'): _FLOAT, ('eye', 'dtype'): _FLOAT, ('identity', 'dtype'): _FLOAT,
    ('array', 'dtype'): ('None',), ('asarray', 'dtype'): ('None',), ('asanyarray', 'dtype'): ('None',), ('arange', 'dtype'): ('None',),
    ('linspace', 'dtype'): ('None',), ('full', 'dtype'): ('None',), ('zeros_like', 'dtype'): ('None',), ('ones_like', 'dtype'): ('None',),
    ('empty_like', 'dtype'): ('None',), ('sum', 'dtype'): ('None',), ('cumsum', 'dtype'): ('None',), ('prod', 'dtype'): ('None',),
    ('concatenate', 'axis'): ('0',), ('stack', 'axis'): ('0',), ('split', 'axis'): ('0',), ('array_split', 'axis'): ('0',),
    ('sum', 'axis'): ('None',), ('prod', 'axis'): ('None',), ('any', 'axis'): ('None',), ('all', 'axis'): ('None',), ('max', 'axis'): ('None',),
    ('min', 'axis'): ('None',), ('amax', 'axis'): ('None',), ('amin', 'axis'): ('None',), ('mean', 'axis'): ('None',), ('norm', 'axis'): ('None',),
    ('cumsum', 'axis'): ('None',), ('cumprod', 'axis'): ('None',), ('repeat', 'axis'): ('None',), ('unique', 'axis'): ('None',),
    ('append', 'axis'): ('None',), ('delete', 'axis'): ('None',), ('take', 'axis'): ('None',), ('flip', 'axis'): ('None',),
    ('roll', 'axis'): ('None',), ('squeeze', 'axis'): ('None',), ('count_nonzero', 'axis'): ('None',), ('argmax', 'axis'): ('None',),
    ('argmin', 'axis'): ('None',), ('sort', 'axis'): ('-1',), ('argsort', 'axis'): ('-1',), ('diff', 'axis'): ('-1',), ('cross', 'axis'): ('None',),
    ('triu', 'k'): ('0',), ('tril', 'k'): ('0',), ('eye', 'k'): ('0',), ('diag', 'k'): ('0',), ('diagflat', 'k'): ('0',), ('diags', 'k'): ('0',),
    ('triu_indices', 'k'): ('0',), ('tril_indices', 'k'): ('0',), ('diff', 'n'): ('1',), ('splev', 'der'): ('0',), ('splev', 'ext'): ('0',),
    ('tensordot', 'axes'): ('2',), ('round', 'decimals'): ('0',), ('around', 'decimals'): ('0',),
}


_PROG = [None]


def _declared_default(prog, callee, kwname):
    """source text of the default every function of the analysed program named like the callee declares for the parameter
    (None if there is no such function or they disagree)"""
    if prog is None or not callee:
        return None
    last = callee.split('.')[-1]
    found = set()
    for q, f in prog.functions.items():
        if q.split('.')[-1].split('#')[0] != last:
            continue
        a = f.node.args
        pos = a.posonlyargs + a.args
        dflt = {}
        for arg, d in zip(pos[len(pos) - len(a.defaults):], a.defaults):
            dflt[arg.arg] = d
        for arg, d in zip(a.kwonlyargs, a.kw_defaults):
            if d is not None:
                dflt[arg.arg] = d
        if kwname in dflt:
            found.add(src(dflt[kwname]))
        elif kwname in {x.arg for x in pos + a.kwonlyargs}:
            found.add(None)
    if len(found) == 1 and None not in found:
        return next(iter(found))
    return None


_LIB_INDEX = {}


def _library_default(callee, kwname):
    """source text of the default that the installed numpy / scipy / networkx sources declare for the keyword of a function
    named like the callee -- found by PARSING their .py files (nothing is imported or run); None if not found or if
    same-named functions disagree"""
    import importlib.util
    last = callee.split('.')[-1]
    if not last.isidentifier():
        return None
    if last not in _LIB_INDEX:
        found = []
        roots = []
        for pkg in ('numpy', 'scipy', 'networkx'):
            try:
                spec = importlib.util.find_spec(pkg)
                if spec and spec.submodule_search_locations:
                    roots.extend(spec.submodule_search_locations)
            except Exception:
                pass
        needle = 'def %s(' % last
        for root in roots:
            for dp, dn, fn in os.walk(root):
                dn[:] = [d for d in dn if d not in ('tests', '__pycache__', 'testing')]
                for f in fn:
                    if not f.endswith('.py'):
                        continue
                    try:
                        text = open(os.path.join(dp, f), encoding='utf-8', errors='replace').read()
                        if needle not in text:
                            continue
                        tree = ast.parse(text)
                    except Exception:
                        continue
                    for n in ast.walk(tree):
                        if isinstance(n, (ast.FunctionDef, ast.AsyncFunctionDef)) and n.name == last \
                                and not any('from_c_func' in src(d) for d in n.decorator_list):
                            # dispatcher stubs (`def _f_dispatcher(...)`) have other names; this is the public definition
                            a = n.args
                            pos = a.posonlyargs + a.args
                            d = {}
                            for arg, dv in zip(pos[len(pos) - len(a.defaults):], a.defaults):
                                d[arg.arg] = src(dv)
                            for arg, dv in zip(a.kwonlyargs, a.kw_defaults):
                                if dv is not None:
                                    d[arg.arg] = src(dv)
                            found.append(d)
        _LIB_INDEX[last] = found
    vals = {d[kwname] for d in _LIB_INDEX[last] if kwname in d}
    if len(vals) == 1:
        return next(iter(vals))
    return None


def _is_default_keyword(expr, kwname):
    for c in ast.walk(expr):
        if isinstance(c, ast.Call):
            for kw in c.keywords:
                if kw.arg != kwname:
                    continue
                if src(kw.value) in KNOWN_DEFAULTS.get(kwname, ()):
                    return True
                if src(kw.value) in CALLEE_DEFAULTS.get((src(c.func).split('.')[-1], kwname), ()):
                    return True
                # a function of the repository itself: spelling out the declared default changes nothing
                callee = src(c.func)
                if _declared_default(_PROG[0], callee, kwname) == src(kw.value):
                    return True
                # a numpy / scipy / networkx function: the default declared in the installed sources (parsed, not imported)
                if callee.split('.')[0] in ('np', 'numpy', 'scipy', 'nx', 'networkx') and _library_default(callee, kwname) == src(kw.value):
                    return True
    return False


def _binding_count(fn, name):
    n = sum(1 for a in ast.walk(fn.args) if isinstance(a, ast.arg) and a.arg == name)
    for s in ast.walk(fn):
        if isinstance(s, ast.Name) and s.id == name and isinstance(s.ctx, ast.Store):
            n += 1
    return n


def _takes_over(ref_fn, cur_fn, x, y):
    # the reference binds x more often than the current function does, and the new local y is bound by plain assignments only:
    # a variable that was reused (rebound) in the reference has been split into two names
    ys_ = [s for s in ast.walk(cur_fn) if isinstance(s, ast.Name) and s.id == y and isinstance(s.ctx, ast.Store)]
    plain = [s for s in ast.walk(cur_fn) if isinstance(s, ast.Assign) and len(s.targets) == 1 and isinstance(s.targets[0], ast.Name) and s.targets[0].id == y]
    if ys_ and len(ys_) == len(plain) and _binding_count(cur_fn, x) < _binding_count(ref_fn, x):
        return True
    return _takes_over_values(ref_fn, cur_fn, x, y)


def _takes_over_values(ref_fn, cur_fn, x, y):
    """every binding of the new local y in the current function is a plain assignment of a value that the reference function
    assigns to x"""
    ys = [s for s in ast.walk(cur_fn) if isinstance(s, (ast.Assign, ast.AugAssign, ast.AnnAssign, ast.For, ast.With, ast.NamedExpr, ast.comprehension))
          and any(isinstance(n, ast.Name) and n.id == y and isinstance(n.ctx, ast.Store) for n in ast.walk(s)
                  if not isinstance(s, (ast.For, ast.With)) or True)]
    ys = [s for s in ys if any(isinstance(n, ast.Name) and n.id == y and isinstance(n.ctx, ast.Store)
                               for t in ([s.target] if hasattr(s, 'target') else getattr(s, 'targets', [])) for n in ast.walk(t))
          or isinstance(s, ast.With)]
    if not ys:
        return False
    xs = [s.value for s in ast.walk(ref_fn) if isinstance(s, ast.Assign) and len(s.targets) == 1 and isinstance(s.targets[0], ast.Name)
          and s.targets[0].id == x]
    for s in ys:
        if not (isinstance(s, ast.Assign) and len(s.targets) == 1 and isinstance(s.targets[0], ast.Name) and s.targets[0].id == y):
            return False
        if not any(treecmp.compare(s.value, v)[0] == 'equal' for v in xs):
            return False
    return True


def _order_insensitive(loop):
    """the loop body only unions values into set accumulators which it never reads"""
    if not isinstance(loop, ast.For) or loop.orelse:
        return False
    acc, values = set(), []
    for st in loop.body:
        if isinstance(st, ast.AugAssign) and isinstance(st.op, ast.BitOr) and isinstance(st.target, ast.Name) \
                and (isinstance(st.value, (ast.Set, ast.SetComp)) or (isinstance(st.value, ast.Call) and src(st.value.func) in ('set', 'frozenset'))):
            acc.add(st.target.id)
            values.append(st.value)
        elif isinstance(st, ast.Expr) and isinstance(st.value, ast.Call) and isinstance(st.value.func, ast.Attribute) \
                and st.value.func.attr == 'add' and isinstance(st.value.func.value, ast.Name):
            acc.add(st.value.func.value.id)
            values.extend(st.value.args)
        else:
            return False
    reads = {x.id for v in values for x in ast.walk(v) if isinstance(x, ast.Name)}
    return bool(acc) and not (reads & acc)


class _Subst(ast.NodeTransformer):
    def __init__(self, mapping):
        self.mapping = mapping

    def visit_Name(self, n):
        if isinstance(n.ctx, ast.Load) and n.id in self.mapping:
            new = self.mapping[n.id]
            return ast.copy_location(ast.Name(id=new, ctx=ast.Load()) if isinstance(new, str) else copy.deepcopy(new), n)
        return n


def _name_level_mutation(r, c):
    """Two further single mutations that are only visible at the level of names:
    * two variables exchanged:  max(atol, rtol * n)  ->  max(rtol, atol * n)
    * a variable replaced by a numeric literal:  kvs[bdax]  ->  kvs[0]
    Returns a description or None.  (r: reference component, c: current component, both ast nodes)"""
    if not isinstance(r, ast.AST) or not isinstance(c, ast.AST):
        return None
    rn = sorted({n.id for n in ast.walk(r) if isinstance(n, ast.Name) and isinstance(n.ctx, ast.Load)})
    cn = {n.id for n in ast.walk(c) if isinstance(n, ast.Name) and isinstance(n.ctx, ast.Load)}
    if len(rn) > 12:
        return None
    if set(rn) == cn:
        for i, x in enumerate(rn):
            for y in rn[i + 1:]:
                sw = _Subst({x: y, y: x}).visit(copy.deepcopy(r))
                if treecmp.compare(c, sw)[0] == 'equal':
                    return 'variables %s and %s exchanged' % (x, y)
    class _Exact(ast.NodeTransformer):
        n = 0

        def visit_Call(self, node):
            self.generic_visit(node)
            try:
                name = ast.unparse(node.func)
            except Exception:
                name = ''
            if name in ('np.isclose', 'np.allclose', 'numpy.isclose', 'numpy.allclose', 'math.isclose') and len(node.args) == 2 and not node.keywords:
                self.n += 1
                return ast.copy_location(ast.Compare(left=node.args[0], ops=[ast.Eq()], comparators=[node.args[1]]), node)
            return node
    tr = _Exact()
    c2 = tr.visit(copy.deepcopy(c))
    if tr.n and treecmp.compare(c2, r)[0] == 'equal':
        return 'exact equality replaced by a test with the default tolerances (%d site%s)' % (tr.n, '' if tr.n == 1 else 's')
    gone = set(rn) - cn
    if len(gone) <= 1 and cn <= set(rn):
        consts = []
        for k in ast.walk(c):
            if isinstance(k, ast.Constant) and isinstance(k.value, (int, float)) and not isinstance(k.value, bool) and k.value not in consts:
                consts.append(k.value)
        for x in (sorted(gone) or rn):
            for k in consts[:6]:
                # one occurrence replaced (the others stay) or all of them
                occ = [n for n in ast.walk(r) if isinstance(n, ast.Name) and isinstance(n.ctx, ast.Load) and n.id == x]
                for which in range(len(occ)):
                    rr = copy.deepcopy(r)
                    occ2 = [n for n in ast.walk(rr) if isinstance(n, ast.Name) and isinstance(n.ctx, ast.Load) and n.id == x]
                    tgt = occ2[which]
                    for parent in ast.walk(rr):
                        for field, val in ast.iter_fields(parent):
                            if val is tgt:
                                setattr(parent, field, ast.Constant(value=k))
                            elif isinstance(val, list):
                                for idx, item in enumerate(val):
                                    if item is tgt:
                                        val[idx] = ast.Constant(value=k)
                    if treecmp.compare(c, rr)[0] == 'equal':
                        return 'variable %s replaced by the constant %r' % (x, k)
    return None


def classify(ref_rec, cur_rec):
    """('equal'|'mutation'|'different', description)"""
    if {ref_rec[0], cur_rec[0]} == {'break', 'continue'}:
        # the rest of the loop is skipped instead of the rest of the iteration (or the other way round)
        return 'mutation', '%s replaced by %s' % (ref_rec[0], cur_rec[0])
    if ref_rec[0] == cur_rec[0] == 'assign' and len(ref_rec[1]) == len(cur_rec[1]) + 1 and len(cur_rec[1]) >= 2:
        # x = y = E  ->  y = E : one target of a multiple assignment dropped (the caller checks that x is not assigned elsewhere instead)
        rt, ct = ref_rec[1][:-1], cur_rec[1][:-1]
        if treecmp.compare(cur_rec[1][-1], ref_rec[1][-1])[0] == 'equal':
            missing = [t for t in rt if not any(treecmp.compare(c_, t)[0] == 'equal' for c_ in ct)]
            if len(missing) == 1 and isinstance(missing[0], ast.Name):
                return 'mutation', 'target %s of the multiple assignment dropped' % missing[0].id
    if ref_rec[0] != cur_rec[0] or len(ref_rec[1]) != len(cur_rec[1]):
        return 'different', None
    muts = []
    for r, c in zip(ref_rec[1], cur_rec[1]):
        v, d = treecmp.compare(c, r, names=True)
        if v == 'different' and ref_rec[0] in ('if', 'while'):
            neg = ast.UnaryOp(op=ast.Not(), operand=c)
            if treecmp.compare(neg, r)[0] == 'equal' or treecmp.compare(c, ast.UnaryOp(op=ast.Not(), operand=r))[0] == 'equal':
                rn, cn = ref_rec[2], cur_rec[2]
                same_body = False
                try:
                    def keys(block):
                        return [_key(x) for x in records_of(block)]
                    # the whole branches are where they were (and differ from each other): only the test changed
                    same_body = bool(rn.body) and keys(rn.body) == keys(cn.body) and keys(rn.orelse) == keys(cn.orelse) \
                        and keys(rn.body) != keys(rn.orelse)
                except Exception:
                    same_body = False
                if same_body:       # (negated test with swapped branches is the same statement)
                    v, d = 'mutation', 'condition negated'
        if v == 'mutation' and ref_rec[0] in ('if', 'while') and d in ('equality test negated', 'identity test negated', 'membership test negated') \
                and isinstance(ref_rec[2], ast.If) and isinstance(cur_rec[2], ast.If):
            rn, cn = ref_rec[2], cur_rec[2]
            try:
                def keys2(block):
                    return [_key(x) for x in records_of(block)]
                same_body = keys2(rn.body) == keys2(cn.body) and keys2(rn.orelse) == keys2(cn.orelse)
            except Exception:
                same_body = True
            if not same_body:
                v, d = 'different', None     # the branches were rearranged along with the test: a rewrite, not a one-token slip
        if v == 'mutation' and d.startswith('keyword argument') and 'dropped' in d:
            # dropping a keyword that spelled out the default (library table or the repository's own declaration)
            parts = d.split()
            if len(parts) > 2 and _is_default_keyword(r, parts[2]):
                v, d = 'equal', None
        if v == 'different':
            # the other direction: the reference is one `dropped` mutation away from the current statement, i.e. a keyword
            # argument (with a non-default value), a conjunct or a disjunct was ADDED
            v2, d2 = treecmp.compare(r, c, mutations=('keyword argument', 'conjunct', 'disjunct', 'call of'))
            if v2 == 'mutation' and d2.startswith('call of'):
                # a value-changing wrapper ADDED (np.unique(x), sorted(x), abs(x) for x); an added copy only protects
                if 'copy' in d2 or 'dropped' not in d2:
                    v2 = 'different'
                else:
                    v, d = 'mutation', d2.replace('dropped', 'added')
                    v2 = 'handled'
            if v2 == 'mutation':
                if d2.startswith('keyword argument'):
                    kwname = d2.split()[2]
                    if not _is_default_keyword(c, kwname):
                        v, d = 'mutation', d2.replace('dropped', 'added')
                else:
                    v, d = 'mutation', d2.replace('dropped from', 'added to')
        if v == 'mutation' and ref_rec[0] == 'for' and d.startswith('call of') and any(w in d for w in ('reversed', 'sorted')) \
                and _order_insensitive(ref_rec[2]) and _order_insensitive(cur_rec[2]):
            # the iteration order of a loop that only accumulates into sets (|= set(...), .add) does not matter
            v, d = 'equal', None
        if v == 'different' and ref_rec[0] not in ('def',):
            d3 = _name_level_mutation(r, c)
            if d3:
                v, d = 'mutation', d3
        if v == 'equal':
            continue
        if v == 'mutation':
            muts.append(d)
        else:
            return 'different', None
    if not muts:
        return 'equal', None
    if len(muts) == 1:
        return 'mutation', muts[0]
    return 'different', None


def diff_function(ref_fn, cur_fn):
    """[(verdict, description, ref_record, cur_record)] for the aligned statement pairs that are not equal, plus counts"""
    R, C = records(ref_fn), records(cur_fn)
    rk, ck = [_key(x) for x in R], [_key(x) for x in C]
    sm = difflib.SequenceMatcher(a=rk, b=ck, autojunk=False)
    pairs, unpaired = [], 0
    deleted = []
    for tag, i1, i2, j1, j2 in sm.get_opcodes():
        if tag == 'equal':
            continue
        if tag == 'replace' and (i2 - i1) == (j2 - j1):
            for k in range(i2 - i1):
                pairs.append((R[i1 + k], C[j1 + k]))
        else:
            unpaired += max(i2 - i1, j2 - j1)
            deleted.extend(R[i1:i2])
    findings = []
    # names that are bound to each other somewhere in the function (x = x0): replacing one by the other may be an alias
    aliases = set()
    for fn_ in (ref_fn, cur_fn):
        for s in ast.walk(fn_):
            if isinstance(s, ast.Assign) and len(s.targets) == 1 and isinstance(s.targets[0], ast.Name) and isinstance(s.value, ast.Name):
                aliases.add(frozenset((s.targets[0].id, s.value.id)))
    for r, c in pairs:
        v, d = classify(r, c)
        if v == 'mutation' and r[0] in ('assert', 'raise', 'except'):
            v = 'different'         # a stricter or looser sanity check is not a different computation
        if v == 'mutation' and d.startswith('variable '):
            parts = d.split()
            if len(parts) >= 5 and frozenset((parts[1], parts[4])) in aliases:
                v = 'different'
        if v == 'mutation' and d.startswith('target ') and 'multiple assignment dropped' in d:
            x = d.split()[1]

            def _nassign(fn_):
                return sum(1 for s_ in ast.walk(fn_) if isinstance(s_, (ast.Assign, ast.AugAssign, ast.AnnAssign))
                           and any(isinstance(t, ast.Name) and t.id == x for tt in (s_.targets if isinstance(s_, ast.Assign) else [s_.target]) for t in ast.walk(tt)))
            if _nassign(cur_fn) >= _nassign(ref_fn):
                v = 'different'     # assigned by another statement now (the chain was split)
        if v == 'mutation' and d.startswith('variables ') and d.endswith(' exchanged'):
            parts = d.split()
            if frozenset((parts[1], parts[3])) in aliases:
                v = 'different'
        if v == 'mutation' and d.startswith('variable ') and ' replaced by the constant ' in d:
            x = d.split()[1]
            # a name with a literal binding (x = 0, a default value, a loop over a literal) may simply have been propagated
            lit = False
            for fn_ in (ref_fn, cur_fn):
                for s_ in ast.walk(fn_):
                    if isinstance(s_, ast.Assign) and any(isinstance(t, ast.Name) and t.id == x for t in s_.targets) and isinstance(s_.value, ast.Constant):
                        lit = True
                    if isinstance(s_, ast.For) and any(isinstance(t, ast.Name) and t.id == x for t in ast.walk(s_.target)):
                        lit = True
                a_ = fn_.args
                for arg, dflt in zip((a_.posonlyargs + a_.args)[::-1], a_.defaults[::-1]):
                    if arg.arg == x and isinstance(dflt, ast.Constant):
                        lit = True
            still_bound = any(isinstance(n, ast.Name) and n.id == x for n in ast.walk(cur_fn)) or any(a.arg == x for a in ast.walk(cur_fn) if isinstance(a, ast.arg))
            if lit or not still_bound:
                v = 'different'
        if v == 'mutation' and ('disjunct added' in d or 'conjunct added' in d) and isinstance(r[2], ast.If) and isinstance(c[2], ast.If):
            # two statements merged: `if A: X` + `if B: X`  ->  `if A or B: X`   /   `if A: if B: X`  ->  `if A and B: X`
            want_or = 'disjunct' in d
            cur_vals = c[2].test.values if isinstance(c[2].test, ast.BoolOp) else [c[2].test]
            ref_vals = r[2].test.values if isinstance(r[2].test, ast.BoolOp) else [r[2].test]
            added = [x for x in cur_vals if not any(treecmp.compare(x, y)[0] == 'equal' for y in ref_vals)]
            merged = False
            if added:
                for other in ast.walk(ref_fn):
                    if isinstance(other, ast.If) and other is not r[2]:
                        ovals = other.test.values if (isinstance(other.test, ast.BoolOp) and isinstance(other.test.op, ast.Or if want_or else ast.And)) else [other.test]
                        if all(any(treecmp.compare(x, y)[0] == 'equal' for y in ovals) for x in added):
                            same = [_key(x) for x in records_of(other.body)] == [_key(x) for x in records_of(r[2].body)]
                            nested = (not want_or) and any(other is x for x in ast.walk(r[2]))
                            if (want_or and same) or nested:
                                merged = True
            if merged:
                v = 'different'
        if v != 'equal':
            findings.append([v, d, r, c])
    # a deleted accumulation: an augmented assignment of the reference whose target is not written by ANY statement of the
    # current function any more (so it was not rewritten as x = x + ..., moved, or renamed with its uses)
    cur_written = set()
    for rec in C:
        if rec[0] == 'assign' or rec[0].startswith('aug'):
            for t in rec[1][:-1]:
                cur_written.add(src(t).replace(' ', ''))
        elif rec[0] == 'for':
            # a counter that became the loop variable of a `for` is still advanced
            for x in ast.walk(rec[1][0]):
                if isinstance(x, ast.Name):
                    cur_written.add(x.id)
    cur_names = set()
    for rec in C:
        for comp in rec[1]:
            cur_names |= _names(comp)
    # statements may have moved into a helper that the reference does not have (extract method): then nothing was deleted
    moved_out = False
    try:
        from . import alpha as _alpha
        prog = _PROG[0]
        if prog is not None:
            called = {(x.func.attr if isinstance(x.func, ast.Attribute) else getattr(x.func, 'id', None)) for x in ast.walk(cur_fn) if isinstance(x, ast.Call)}
            for f_ in prog.functions.values():
                if f_.name in called and _alpha.is_new_function(f_.qual):
                    moved_out = True
                    break
    except Exception:
        moved_out = False
    for rec in deleted:
        if moved_out:
            break
        if rec[0].startswith('aug'):
            tgt = src(rec[1][0]).replace(' ', '')
            base = tgt.split('[')[0].split('.')[0]
            if tgt not in cur_written and base in cur_names and not any(w.split('[')[0] == tgt.split('[')[0] for w in cur_written):
                findings.append(['mutation', 'accumulation `%s` deleted' % _show(rec), rec, rec])
    # guard 1: consistent renaming -- every 'variable replaced' finding is explained by one substitution that also
    # changes a binding site (assignment target, loop variable, parameter)
    ren = [f for f in findings if f[0] == 'mutation' and f[1].startswith('variable ')]
    if ren:
        ref_params = [a.arg for a in ref_fn.args.args]
        cur_params = [a.arg for a in cur_fn.args.args]
        renamed_params = {a: b for a, b in zip(ref_params, cur_params) if a != b} if len(ref_params) == len(cur_params) else {}
        bind_changes = {a: {b} for a, b in renamed_params.items()}
        for f in findings:
            rb, cb = _binds(f[2]), _binds(f[3])
            if rb != cb and len(rb - cb) == 1 and len(cb - rb) == 1:
                bind_changes.setdefault(next(iter(rb - cb)), set()).add(next(iter(cb - rb)))
        ref_all = {n.id for n in ast.walk(ref_fn) if isinstance(n, ast.Name)} | {a.arg for a in ast.walk(ref_fn) if isinstance(a, ast.arg)}
        cur_all = {n.id for n in ast.walk(cur_fn) if isinstance(n, ast.Name)} | {a.arg for a in ast.walk(cur_fn) if isinstance(a, ast.arg)}
        cur_bound = {x.id for x in ast.walk(cur_fn) if isinstance(x, ast.Name) and isinstance(x.ctx, ast.Store)}
        for f in ren:
            # description: variable X replaced by Y
            parts = f[1].split()
            if len(parts) >= 5 and parts[4] in bind_changes.get(parts[1], ()):
                f[0] = 'different'
            elif len(parts) >= 5 and parts[1] not in cur_all and parts[4] not in ref_all:
                f[0] = 'different'      # X no longer exists and Y is new: X was renamed to Y throughout the function
            elif len(parts) >= 5 and parts[4] not in ref_all and parts[4] in cur_bound and _takes_over(ref_fn, cur_fn, parts[1], parts[4]):
                # Y is a local the reference function does not have, and every value bound to Y is a value the reference
                # binds to X: a reused variable was split into two names -- a multi-statement rewrite, not a one-token mutation
                f[0] = 'different'
    # guard 2: possibly compensating mutations (one binds what the other reads)
    muts = [f for f in findings if f[0] == 'mutation']
    if len(muts) > 1:
        for a in muts:
            for b in muts:
                if a is not b and (_binds(a[3]) & _reads(b[3])):
                    a[0] = b[0] = 'compensating?'
    return findings, unpaired, len(R), len(C)



# ---------------------------------------------------------------- effect agreement with the reference
def _param_writes(fn):
    """{parameter position: [write records]} for the definite in-place writes of fn whose storage is rooted in a parameter
    (caller-owned).  *args / **kwargs are fresh per call and never count; neither does the receiver."""
    from . import effects
    a = fn.args
    pos = [x.arg for x in a.posonlyargs + a.args + a.kwonlyargs]
    out = {}
    try:
        ws = effects.external_writes(fn)
    except Exception:
        return None, pos
    for w in ws:
        if not w['definite']:
            continue
        if w['kind'].endswith(':attr') and isinstance(w.get('base'), ast.Name) and w['base'].id in ('self', 'cls'):
            continue
        for r in w['external']:
            if not r.startswith('param:'):
                continue
            name = r[6:]
            if name in ('self', 'cls') or name not in pos:
                continue
            if not set(w['roots']) <= {r, 'fresh'}:
                continue            # storage of unknown origin on some path: no definite verdict
            out.setdefault(pos.index(name), []).append(w)
    return out, pos


def effect_diff(ref_fn, cur_fn):
    """In-place writes to a caller's argument that the confirmed function does not perform on that argument at all."""
    rw, rpos = _param_writes(ref_fn)
    cw, cpos = _param_writes(cur_fn)
    if rw is None or cw is None or len(rpos) != len(cpos):
        return []
    res = []
    for i, ws in sorted(cw.items()):
        if i in rw:
            continue
        # the reference must not have written this parameter even possibly (non-definite writes count as "it did")
        from . import effects
        try:
            poss = any(('param:' + rpos[i]) in w['roots'] for w in effects.Effects(ref_fn).writes)
        except Exception:
            poss = True
        if poss:
            continue
        res.append((cpos[i], ws[0]))
    return res


def default_diff(ref_fn, cur_fn):
    """[(parameter, old, new)] for declared defaults that are numbers (or booleans) in both versions and differ in value."""
    def table(fn):
        a = fn.args
        pos = a.posonlyargs + a.args
        t = {}
        for arg, d in zip(pos[::-1], a.defaults[::-1]):
            t[arg.arg] = d
        for arg, d in zip(a.kwonlyargs, a.kw_defaults):
            if d is not None:
                t[arg.arg] = d
        return t

    def num(d):
        if isinstance(d, ast.UnaryOp) and isinstance(d.op, ast.USub) and isinstance(d.operand, ast.Constant) and isinstance(d.operand.value, (int, float)):
            return -d.operand.value
        if isinstance(d, ast.Constant) and isinstance(d.value, (int, float, bool)):
            return d.value
        return None
    rt, ct = table(ref_fn), table(cur_fn)
    out = []
    for name, rd in rt.items():
        if name not in ct:
            continue
        a, b = num(rd), num(ct[name])
        if a is None or b is None or isinstance(a, bool) != isinstance(b, bool):
            continue
        if a != b:
            out.append((name, a, b, ct[name]))
    return out


def ignored_params(ref_fn, cur_fn):
    """Parameters (same name in both versions) that the confirmed function reads and the current one never mentions."""
    def reads(fn):
        return {n.id for n in ast.walk(fn) if isinstance(n, ast.Name) and isinstance(n.ctx, ast.Load)}
    def params(fn):
        a = fn.args
        return [x.arg for x in a.posonlyargs + a.args + a.kwonlyargs]
    rr, cr = reads(ref_fn), reads(cur_fn)
    out = []
    for p_ in params(ref_fn):
        if p_ in ('self', 'cls') or p_ not in params(cur_fn):
            continue
        if p_ in rr and p_ not in cr:
            # not merely renamed on entry / captured by a nested helper under the same name: no mention at all
            if not any(isinstance(n, ast.Name) and n.id == p_ for n in ast.walk(cur_fn)):
                out.append(p_)
    return out


def exit_order_swaps(ref_fn, cur_fn):
    """`L.append(e); if T: break/return`  (L read after the loop)  ->  `if T: break/return; L.append(e)`:
    the last update before the exit is lost.  Returns [(append node in cur, description)]."""
    def exits_only(ifnode):
        return isinstance(ifnode, ast.If) and not ifnode.orelse and len(ifnode.body) >= 1 and isinstance(ifnode.body[-1], (ast.Break, ast.Return)) \
            and all(isinstance(b, (ast.Break, ast.Return, ast.Expr)) for b in ifnode.body)

    def is_update(st):
        if isinstance(st, ast.Expr) and isinstance(st.value, ast.Call) and isinstance(st.value.func, ast.Attribute) \
                and st.value.func.attr in ('append', 'extend', 'add') and isinstance(st.value.func.value, ast.Name):
            return st.value.func.value.id
        return None

    def blocks(fn):
        for n in ast.walk(fn):
            for f_ in ('body', 'orelse', 'finalbody'):
                b = getattr(n, f_, None)
                if isinstance(b, list) and b and isinstance(b[0], ast.stmt):
                    yield b
    found = []
    ref_pairs = []
    for b in blocks(ref_fn):
        for i in range(len(b) - 1):
            name = is_update(b[i])
            if name and exits_only(b[i + 1]):
                ref_pairs.append((b[i], b[i + 1], name))
    if not ref_pairs:
        return found
    for b in blocks(cur_fn):
        for i in range(len(b) - 1):
            name = is_update(b[i + 1])
            if name and exits_only(b[i]):
                for ru, rx, rname in ref_pairs:
                    if rname == name and treecmp.compare(b[i + 1].value, ru.value)[0] == 'equal' and treecmp.compare(b[i].test, rx.test)[0] == 'equal':
                        # the container must be observable afterwards (returned / read later)
                        later = any(isinstance(n, ast.Name) and n.id == name and isinstance(n.ctx, ast.Load) and getattr(n, 'lineno', 0) > b[i + 1].end_lineno
                                    for n in ast.walk(cur_fn))
                        if later:
                            found.append((b[i + 1], '`%s` is recorded after the exit `if %s` it used to precede: the value of the final iteration is never recorded'
                                          % (src(b[i + 1])[:60], src(b[i].test)[:50])))
    return found


def load_reference(prop):
    path = os.path.join(HERE, 'reference', prop + '.json')
    if not os.path.exists(path):
        return None
    return json.load(open(path))


def run(ctx, rule, min_functions=1):
    """Compare every function listed in reference/<prop>.json with the current tree."""
    ref = load_reference(ctx.prop)
    if ref is None:
        return
    _PROG[0] = ctx.prog
    n = 0
    gone = []
    for qual, text in sorted(ref['functions'].items()):
        cur = ctx.prog.maybe_func(qual)
        if cur is None:
            gone.append(qual)
            continue
        n += 1
        try:
            ref_fn = ast.parse(text).body[0]
        except SyntaxError:
            ctx.undecided(rule, qual, 'reference not parsable', cur.node, 'reference entry is not valid Python')
            continue
        findings, unpaired, nr, nc = diff_function(ref_fn, cur.node)
        for pname in ignored_params(ref_fn, cur.node):
            # the verdict is about the program as written: the parameter must not occur in the function's own source lines either
            # (normalisation may have inlined the only statement that read it)
            try:
                import re as _re
                body_ = [b for b in cur.node.body if not (isinstance(b, ast.Expr) and isinstance(b.value, ast.Constant) and isinstance(b.value.value, str))]
                lines = cur.unit.lines[body_[0].lineno - 1:cur.node.end_lineno] if body_ else []
                if any(_re.search(r'\b%s\b' % _re.escape(pname), ln.split('#')[0]) for ln in lines):
                    continue
            except Exception:
                continue
            ctx.violated(rule, qual, 'parameter `%s` is never read' % pname, cur.node,
                         'the confirmed function reads its parameter `%s`; the current one accepts it and ignores it (an option that is silently dropped)' % pname)
        for node, msg in exit_order_swaps(ref_fn, cur.node):
            ctx.violated(rule, qual, 'update moved behind an exit: ' + src(node)[:70], node, msg)
        for pname, a, b, node in default_diff(ref_fn, cur.node):
            ctx.violated(rule, qual, 'default value of parameter `%s`' % pname, cur.node,
                         'the declared default of `%s` is %r where the confirmed function declares %r: every caller that relies on the '
                         'default now gets a different computation (numeric constant changed)' % (pname, b, a))
        for pname, w in effect_diff(ref_fn, cur.node):
            ctx.violated(rule, qual, 'in-place write to the caller\'s argument `%s`: %s' % (pname, src(w['node']).split('\n')[0][:90]), w['node'],
                         'the confirmed function never writes to the storage of its parameter `%s`; now `%s` (%s) modifies it in place, so the '
                         'caller\'s object changes behind its back' % (pname, w['target'][:60], w['kind']))
        bad = [f for f in findings if f[0] == 'mutation']
        other = [f for f in findings if f[0] != 'mutation']
        if not findings and not unpaired:
            ctx.met(rule, qual, 'agrees with the confirmed reference (%d statements)' % nr, cur.node, 'statement-wise equal modulo equivalences')
            continue
        for v, d, r, c in bad:
            ctx.violated(rule, qual, 'reference statement: ' + _show(r), c[2],
                         'differs from the confirmed instance by one semantic mutation (%s): now `%s`' % (d, _show(c)))
        if other or unpaired:
            ctx.undecided(rule, qual, 'rewritten against the confirmed reference', cur.node,
                          '%d statement(s) rewritten, %d inserted/deleted/moved: no verdict from the reference comparison' % (len(other), unpaired),
                          nontrivial=False)
    ctx.floor(rule, 'functions compared with the confirmed reference', n, min_functions)
    if gone:
        ctx.note('%s: %d reference function(s) no longer exist under their name: %s' % (rule, len(gone), ', '.join(gone[:6])))


def _show(rec):
    kind, comps, n = rec
    try:
        t = src(n).split('\n')[0]
    except Exception:
        t = kind
    return t[:140]

"""A8 helper: multivariate polynomial / rational normal form of arithmetic expressions.

Poly: dict {monomial (sorted tuple of (sym, power)): Fraction}.
Rat: pair (num, den) of Poly compared by cross multiplication.
Atoms that are not arithmetic (calls, subscripts, attributes) become symbols keyed
by a caller-supplied canonicaliser (default: normalised source text).
"""
import ast
from fractions import Fraction

from .program import src


class NotPolynomial(Exception):
    pass


class Poly:
    __slots__ = ('t',)

    def __init__(self, terms=None):
        self.t = {m: Fraction(c) for m, c in (terms or {}).items() if c != 0}

    @staticmethod
    def const(c):
        return Poly({(): c})

    @staticmethod
    def sym(s):
        return Poly({((s, 1),): 1})

    def __add__(self, o):
        o = _p(o)
        t = dict(self.t)
        for m, c in o.t.items():
            t[m] = t.get(m, 0) + c
        return Poly(t)

    __radd__ = __add__

    def __neg__(self):
        return Poly({m: -c for m, c in self.t.items()})

    def __sub__(self, o):
        return self + (-_p(o))

    def __rsub__(self, o):
        return _p(o) - self

    def __mul__(self, o):
        o = _p(o)
        t = {}
        for m1, c1 in self.t.items():
            for m2, c2 in o.t.items():
                d = dict(m1)
                for s, p in m2:
                    d[s] = d.get(s, 0) + p
                m = tuple(sorted(d.items()))
                t[m] = t.get(m, 0) + c1 * c2
        return Poly(t)

    __rmul__ = __mul__

    def __pow__(self, n):
        if not isinstance(n, int) or n < 0:
            raise NotPolynomial('power')
        r = Poly.const(1)
        for _ in range(n):
            r = r * self
        return r

    def is_zero(self):
        return not self.t

    def is_const(self):
        return all(m == () for m in self.t)

    def const_value(self):
        return self.t.get((), Fraction(0))

    def __eq__(self, o):
        return (self - _p(o)).is_zero()

    def __hash__(self):
        return hash(frozenset(self.t.items()))

    def symbols(self):
        return {s for m in self.t for s, _ in m}

    def subs(self, env):
        """env: sym -> Poly"""
        out = Poly()
        for m, c in self.t.items():
            term = Poly.const(c)
            for s, p in m:
                base = env[s] if s in env else Poly.sym(s)
                term = term * (base ** p)
            out = out + term
        return out

    def __repr__(self):
        if not self.t:
            return '0'
        parts = []
        for m in sorted(self.t):
            c = self.t[m]
            mono = '*'.join(s if p == 1 else '%s^%d' % (s, p) for s, p in m)
            cs = str(c) if c.denominator != 1 else str(c.numerator)
            if not mono:
                parts.append(cs)
            elif c == 1:
                parts.append(mono)
            elif c == -1:
                parts.append('-' + mono)
            else:
                parts.append(cs + '*' + mono)
        return ' + '.join(parts).replace('+ -', '- ')


def _p(x):
    if isinstance(x, Poly):
        return x
    return Poly.const(x)


class Rat:
    __slots__ = ('n', 'd')

    def __init__(self, n, d=None):
        self.n = _p(n)
        self.d = _p(1) if d is None else _p(d)

    def __add__(self, o):
        o = _r(o)
        return Rat(self.n * o.d + o.n * self.d, self.d * o.d)

    __radd__ = __add__

    def __neg__(self):
        return Rat(-self.n, self.d)

    def __sub__(self, o):
        return self + (-_r(o))

    def __rsub__(self, o):
        return _r(o) - self

    def __mul__(self, o):
        o = _r(o)
        return Rat(self.n * o.n, self.d * o.d)

    __rmul__ = __mul__

    def __truediv__(self, o):
        o = _r(o)
        if o.n.is_zero():
            raise NotPolynomial('division by zero')
        return Rat(self.n * o.d, self.d * o.n)

    def __pow__(self, k):
        if isinstance(k, int):
            if k >= 0:
                return Rat(self.n ** k, self.d ** k)
            return Rat(self.d ** (-k), self.n ** (-k))
        raise NotPolynomial('power')

    def __eq__(self, o):
        o = _r(o)
        return (self.n * o.d - o.n * self.d).is_zero()

    def __hash__(self):
        return 0

    def is_zero(self):
        return self.n.is_zero()

    def __repr__(self):
        if self.d == Poly.const(1):
            return repr(self.n)
        return '(%r) / (%r)' % (self.n, self.d)


def _r(x):
    if isinstance(x, Rat):
        return x
    return Rat(_p(x))


def from_ast(node, atom=None, env=None):
    """ast arithmetic expression -> Rat.  ``atom(node)`` returns a symbol name (or a
    Rat) for non-arithmetic leaves; ``env`` maps Name ids to Rat (local definitions)."""
    env = env or {}

    def leaf(n):
        if atom is not None:
            r = atom(n)
            if isinstance(r, (Rat, Poly)):
                return _r(r)
            if r is not None:
                return Rat(Poly.sym(r))
        return Rat(Poly.sym(src(n)))

    def conv(n):
        if isinstance(n, ast.Constant):
            if isinstance(n.value, bool) or not isinstance(n.value, (int, float)):
                raise NotPolynomial(src(n))
            if isinstance(n.value, float):
                return Rat(Poly.const(Fraction(n.value).limit_denominator(10**12)))
            return Rat(Poly.const(n.value))
        if isinstance(n, ast.Name):
            if n.id in env:
                return _r(env[n.id])
            return leaf(n)
        if isinstance(n, ast.UnaryOp):
            if isinstance(n.op, ast.USub):
                return -conv(n.operand)
            if isinstance(n.op, ast.UAdd):
                return conv(n.operand)
        if isinstance(n, ast.BinOp):
            if isinstance(n.op, ast.Add):
                return conv(n.left) + conv(n.right)
            if isinstance(n.op, ast.Sub):
                return conv(n.left) - conv(n.right)
            if isinstance(n.op, ast.Mult):
                return conv(n.left) * conv(n.right)
            if isinstance(n.op, ast.Div):
                return conv(n.left) / conv(n.right)
            if isinstance(n.op, ast.Pow):
                e = n.right
                neg = False
                if isinstance(e, ast.UnaryOp) and isinstance(e.op, ast.USub):
                    e, neg = e.operand, True
                if isinstance(e, ast.Constant) and isinstance(e.value, int):
                    return conv(n.left) ** (-e.value if neg else e.value)
        return leaf(n)
    return conv(node)

"""Which `decide(ok=False)` outcomes are *semantic* and therefore count as a violation.

`Ctx.decide` turns a failed check into `violated` only when the call passes
``definite=True`` or when (rule, statement) matches an entry below.  Everything else --
in particular every comparison of normalised source text with an expected spelling --
yields `undecided` ("not in a recognised form"), so that rewriting a construct in a
different but equivalent way never raises an alarm.

Each entry was reviewed against the rule's code: the `ok` value it covers is computed
from a table lookup, an evaluated index, a polynomial/rational normal form, affine
algebra, an order/provenance tag, a path condition, statement order, or an explicitly
recognised *wrong* form (``True if ok else (False if bad else None)``).
"""
import re

_T = [
    # C01
    ('R01.1', r'.*'), ('R01.2', r'^builtin '), ('R01.8', r'.*'),
    ('R01.3', r' <- '), ('R01.3', r' passed to entry_impl$'), ('R01.3', r'early return\(s\) before combine'),
    ('R01.4', r'^nqp = '), ('R01.5', r'^stride self\.numderiv'),
    ('R01.6', r'^combine: signature groups'), ('R01.6', r'^precompute_fields: signature groups'), ('R01.6', r'^combine takes '),
    # C02
    ('R02.1', r'^cdef double\['), ('R02.2', r'^early return when'), ('R02.2', r'^bisection on'),
    # C03
    ('R03.2', r'^return '), ('R03.2', r'^rhs = '), ('R03.3', r'^self\.truncate = False'),
    ('R03.4', r'^A_hb_interlevel2 = '), ('R03.4', r'^insert_block\(A_hb_interlevel,'),
    ('R03.5', r'^\(supp_cells'), ('R03.5', r'make_tensor_quadrature\(\[kv\.mesh\[bb'),
    # C04
    ('R04.2', r'^out\.'), ('R04.3', r'^mesh refined before'), ('R04.6', r' under self\.disparity < np\.inf$'),
    ('R04.6', r"^caller's dict is not modified"),
    # C05
    ('R05.1', r'^P has shape'), ('R05.1', r'^row ranges'), ('R05.1', r'^affected rows'),
    ('R05.2', r'^bspline\.prolongation'), ('R05.3', r'^sum\('), ('R05.3', r'^self\.hs\.grid_eval'), ('R05.3', r'^coeffs = '), ('R05.3', r'^THB->HB'),
    # C06
    ('R06.2', r'^hash\('), ('R06.4', r'.*'),
    ('R06.5', r'^d\(x '), ('R06.5', r"^'[-+*/]': if "), ('R06.5', r'^\(x cross y\)'), ('R06.5', r'^\{'),
    ('R06.6', r'^self\.hash\(\) is step'), ('R06.6', r'^dependency_analysis is step'),
    # C07
    ('R07.1', r'.*'), ('R07.3', r'^derivative slot'), ('R07.4', r'^(?!f = ).*'),
    ('R07.5', r"^'(left|right|bottom|top|front|back)' -> "), ('R07.6', r'^(?!W = ).*'),
    # C08
    ('R08.1', r'\.map\(asm_chunk'), ('R08.1', r' in _asm_core_vec_'), ('R08.1', r'^control: '), ('R08.1', r'^outer loop is serial'),
    ('R08.2', r'^A_upper = '), ('R08.2', r'^mirror only off the diagonal'), ('R08.2', r'^mirroring under'),
    ('R08.4', r'^\{arr\}\.base'), ('R08.4', r'^slice '), ('R08.5', r'^dims '),
    # C09
    ('R09.1', r'.*'), ('R09.2', r'.*'), ('R09.3', r'^nqp = '), ('R09.3', r'^_assemble_matrix_custom'), ('R09.3', r'^default only when'),
    ('R09.4', r' derives from '), ('R09.4', r'^_create_coo_1d_custom'), ('R09.4', r'^_assemble_matrix_custom'),
    # C11
    ('R11.1', r'^symmetric: sweeps'), ('R11.1', r'^symmetric branch returns'), ('R11.2', r' under i < lv$'),
    ('R11.3', r'^strategy '), ('R11.3', r'^implemented strategies'), ('R11.3', r'-smoothing branches'), ('R11.3', r'^sweeps requested'),
    ('R11.3', r'-smoothing uses sweep'), ('R11.7', r'.*'),
    # C12
    ('R12.1', r'.*'), ('R12.2', r' under r <= 1$'), ('R12.2', r'^appends: '), ('R12.2', r'^tau \*= '), ('R12.2', r'^no break/return'),
    ('R12.3', r'^appends: '), ('R12.3', r'^time and state appended'),
    ('R12.4', r' under '), ('R12.4', r'^loop order'), ('R12.4', r'^falls through'),
    ('R12.5', r' vs d/dz '), ('R12.5', r'^x_est = '), ('R12.6', r'.*'),
    # C13
    ('R13.3', r'^parameter '), ('R13.3', r'^cache key computed before'), ('R13.3', r'^seeding key'), ('R13.5', r'.*'),
    # C14
    ('R14.2', r'^finalize compacts'), ('R14.2', r'^finalize renumbers'),
    # C15
    ('R15.2', r'^I = '), ('R15.2', r'^J = '), ('R15.3', r'.*'), ('R15.5', r'^dispatch '), ('R15.5', r'lower_tri='),
    # C16
    ('R16.5', r'^all branches process axis'), ('R16.5', r' after '), ('R16.5', r'^identity placeholder rolls'), ('R16.6', r'^ranges swapped'),
    # C17
    ('R17.1', r'.*'), ('R17.2', r'^Cinvs = '), ('R17.3', r'^assemble\.inner_products'),
    # C18
    ('R18.1', r'^implements '), ('R18.1', r'^sets self\.'), ('R18.2', r'.*'),
    # C19
    ('R19.2', r'KnotVector\('), ('R19.4', r'^return '), ('R19.5', r' has length '), ('R19.5', r'^knot offset'), ('R19.6', r'^reads '),
    # C20
    ('R20.2', r'^build_temp, build_lib'), ('R20.3', r'^publication after'), ('R20.3', r'^import after'), ('R20.3', r'^scratch directory removed'),
]

_BY_RULE = {}
for _r, _p in _T:
    _BY_RULE.setdefault(_r, []).append(re.compile(_p))


def is_definite(rule, statement):
    for p in _BY_RULE.get(rule, ()):
        if p.search(statement):
            return True
    return False

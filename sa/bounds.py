"""Index-bound obligations for unchecked (boundscheck(False)) kernels.

For every subscript of a buffer with a known extent, collect linear facts that
hold at the subscript (loop ranges, dominating conditions, single-assignment
equalities, conditional-expression arms as case splits, preceding asserts,
caller-supplied axioms) and prove  0 <= index <= extent-1  by Fourier-Motzkin
refutation with integer tightening (sa.affine).
"""
import ast
import itertools

from . import affine
from .affine import Lin, NonAffine
from .program import src, own_nodes, parent, call_name
from . import guards


def _range_bounds(it):
    """range(a) / range(a,b) / reversed(range(..)) / prange(..) -> (lo, hi_exclusive) ast or None"""
    if isinstance(it, ast.Call) and call_name(it) == 'reversed' and it.args:
        it = it.args[0]
    if isinstance(it, ast.Call) and call_name(it) in ('range', 'prange', 'xrange'):
        a = it.args
        if len(a) == 1:
            return ast.Constant(0), a[0]
        if len(a) >= 2:
            if len(a) == 3:
                st = a[2]
                if isinstance(st, ast.Constant) and st.value == 1:
                    return a[0], a[1]
                if (isinstance(st, ast.UnaryOp) and isinstance(st.op, ast.USub) and isinstance(st.operand, ast.Constant)
                        and st.operand.value == 1):
                    # range(hi, lo, -1): lo < v <= hi
                    return ast.BinOp(a[1], ast.Add(), ast.Constant(1)), ast.BinOp(a[0], ast.Add(), ast.Constant(1))
                return None
            return a[0], a[1]
    return None


class FunctionFacts:
    def __init__(self, fn, axioms=(), int_names=None):
        self.fn = fn
        self.axioms = list(axioms)
        self.assign_count = {}
        self.single = {}         # name -> (value node, stmt)
        self.loop_vars = {}
        for n in own_nodes(fn):
            targets = []
            if isinstance(n, ast.Assign):
                for t in n.targets:
                    if isinstance(t, ast.Tuple) and isinstance(n.value, ast.Tuple) and len(t.elts) == len(n.value.elts):
                        targets += [(tt, vv) for tt, vv in zip(t.elts, n.value.elts)]
                    elif isinstance(t, ast.Tuple):
                        targets += [(tt, None) for tt in t.elts]
                    else:
                        targets.append((t, n.value))
            elif isinstance(n, ast.AugAssign):
                targets.append((n.target, None))
                if isinstance(n.target, ast.Name):
                    self.assign_count[n.target.id] = self.assign_count.get(n.target.id, 0) + 1     # counts twice -> never single
            elif isinstance(n, ast.AnnAssign) and n.value is not None:
                targets.append((n.target, n.value))
            elif isinstance(n, (ast.For, ast.comprehension)):
                t = n.target
                for x in ast.walk(t):
                    if isinstance(x, ast.Name):
                        self.assign_count[x.id] = self.assign_count.get(x.id, 0) + 1
                        self.loop_vars.setdefault(x.id, []).append(n)
            for t, v in targets:
                if isinstance(t, ast.Name):
                    self.assign_count[t.id] = self.assign_count.get(t.id, 0) + 1
                    if v is not None:
                        self.single[t.id] = (v, n)
        for a in fn.args.args:
            # parameters re-assigned in the body are not single-assignment
            if a.arg in self.assign_count:
                self.assign_count[a.arg] += 1
        self.single = {k: v for k, v in self.single.items() if self.assign_count.get(k) == 1}

    # ------------------------------------------------------------------
    def facts_at(self, node):
        """Return a list of alternative fact lists (case splits)."""
        base = list(self.axioms)
        splits = []           # list of lists of alternatives (each alternative = list of constraints)
        # enclosing loops
        child = node
        p = parent(node)
        while p is not None and p is not self.fn:
            if isinstance(p, ast.For) and child in p.body and isinstance(p.target, ast.Name):
                rb = _range_bounds(p.iter)
                if rb is not None:
                    try:
                        v = Lin.sym(p.target.id)
                        base.append(affine.ge(v, affine.from_ast(rb[0])))
                        base.append(affine.lt(v, affine.from_ast(rb[1])))
                    except NonAffine:
                        pass
            child = p
            p = parent(p)
        # dominating conditions and asserts
        for (t, pol, n) in guards.dominating_facts(node):
            cs = self._cond(n, pol)
            if cs:
                base.extend(cs)
        # single-assignment equalities (assignment textually before the use)
        line = getattr(node, 'lineno', 0)
        used = set()
        frontier = {x.id for x in ast.walk(node) if isinstance(x, ast.Name)}
        # also names in facts so far
        for c in base:
            frontier |= {s for s in c.symbols() if s.isidentifier()}
        while frontier:
            name = frontier.pop()
            if name in used:
                continue
            used.add(name)
            if name not in self.single:
                continue
            v, stmt = self.single[name]
            if getattr(stmt, 'lineno', 0) > line and not self._in_same_loop(stmt, node):
                continue
            if isinstance(v, ast.IfExp):
                alts = []
                for arm, pol in ((v.body, True), (v.orelse, False)):
                    cs = self._cond(v.test, pol)
                    try:
                        e = affine.from_ast(arm)
                    except NonAffine:
                        e = None
                    if cs is None or e is None:
                        alts = None
                        break
                    alts.append(cs + affine.eq(Lin.sym(name), e))
                    frontier |= {x.id for x in ast.walk(arm) if isinstance(x, ast.Name)}
                if alts:
                    splits.append(alts)
                    frontier |= {x.id for x in ast.walk(v.test) if isinstance(x, ast.Name)}
                continue
            try:
                e = affine.from_ast(v, opaque=False)
            except NonAffine:
                # allow opaque leaves such as kv.shape[0]
                try:
                    e = affine.from_ast(v, opaque=True)
                    if any(not s.isidentifier() and '(' in s for s in e.symbols()):
                        continue
                except NonAffine:
                    continue
            base.extend(affine.eq(Lin.sym(name), e))
            frontier |= {x.id for x in ast.walk(v) if isinstance(x, ast.Name)}
        if not splits:
            return [base]
        out = []
        for combo in itertools.product(*splits):
            f = list(base)
            for alt in combo:
                f.extend(alt)
            out.append(f)
        return out

    def _in_same_loop(self, stmt, node):
        return False

    def _cond(self, test, polarity):
        """constraints known when ``test`` evaluates to ``polarity`` (None if not affine)."""
        if isinstance(test, ast.UnaryOp) and isinstance(test.op, ast.Not):
            return self._cond(test.operand, not polarity)
        if isinstance(test, ast.BoolOp):
            if (isinstance(test.op, ast.And) and polarity) or (isinstance(test.op, ast.Or) and not polarity):
                out = []
                for v in test.values:
                    c = self._cond(v, polarity)
                    if c:
                        out.extend(c)
                return out
            return []
        if isinstance(test, ast.Compare):
            if any(isinstance(o, (ast.Is, ast.IsNot, ast.In, ast.NotIn)) for o in test.ops):
                return []
            if not polarity and any(isinstance(o, (ast.NotEq,)) for o in test.ops):
                pass
            cs = affine.compare_to_constraints(test, polarity=polarity)
            if cs is None:
                return []
            return cs
        return []


def check_subscripts(fn, extents, axioms=(), aliases=None, skip=(), witness=False):
    """extents: {buffer name: [extent Lin per axis]}.  Returns a list of
    (subscript node, axis, index Lin, verdict True/None, info)."""
    ff = FunctionFacts(fn, axioms)
    aliases = aliases or {}
    out = []
    for n in own_nodes(fn):
        if not isinstance(n, ast.Subscript) or not isinstance(n.value, ast.Name):
            continue
        name = aliases.get(n.value.id, n.value.id)
        if name not in extents or n.value.id in skip:
            continue
        idxs = n.slice.elts if isinstance(n.slice, ast.Tuple) else [n.slice]
        ext = extents[name]
        alts = None
        for ax, ix in enumerate(idxs):
            if ax >= len(ext) or isinstance(ix, ast.Slice):
                continue
            try:
                e = affine.from_ast(ix, opaque=False)
            except NonAffine:
                out.append((n, ax, None, None, 'index not affine: ' + src(ix)))
                continue
            if alts is None:
                alts = ff.facts_at(n)
            lo_ok = all(affine.prove(f, affine.ge(e, 0)) or affine.infeasible(f) for f in alts)
            hi_ok = all(affine.prove(f, affine.le(e, ext[ax] - 1)) or affine.infeasible(f) for f in alts)
            info = '0 <= %r <= %r' % (e, ext[ax] - 1)
            if lo_ok and hi_ok:
                out.append((n, ax, e, True, info + ' proved in %d case(s)' % len(alts)))
            else:
                which = ('lower' if not lo_ok else '') + ('/' if not lo_ok and not hi_ok else '') + ('upper' if not hi_ok else '')
                wit = None
                if witness:
                    for f in alts:
                        for neg in ((affine.lt(e, 0),) if not lo_ok else ()) + ((affine.gt(e, ext[ax] - 1),) if not hi_ok else ()):
                            wit = find_witness(list(f) + [neg])
                            if wit:
                                break
                        if wit:
                            break
                if wit:
                    out.append((n, ax, e, False, info + ' REFUTED (%s bound): loop state %s' % (
                        which, ', '.join('%s=%d' % kv for kv in sorted(wit.items())))))
                else:
                    out.append((n, ax, e, None, info + ' NOT proved (%s bound)' % which))
    return out


def find_witness(cons, lo=-2, hi=9, budget=400000):
    """Small integer model of a conjunction of constraints (each Lin >= 0), or None."""
    cons = [c for c in cons]
    syms = set()
    for c in cons:
        syms |= c.symbols()
    if len(syms) > 12:
        return None
    order = []
    remaining = set(syms)
    while remaining:
        # pick the symbol that completes the most constraints
        best, score = None, -1
        for s in sorted(remaining):
            done = set(order) | {s}
            sc = sum(1 for c in cons if c.symbols() <= done)
            if sc > score:
                best, score = s, sc
        order.append(best)
        remaining.discard(best)
    by_level = []
    for i in range(len(order)):
        done = set(order[:i + 1])
        prev = set(order[:i])
        by_level.append([c for c in cons if c.symbols() <= done and not c.symbols() <= prev])
    const_bad = [c for c in cons if not c.symbols() and c.k < 0]
    if const_bad:
        return None
    env = {}
    count = [0]

    def rec(i):
        if i == len(order):
            return True
        s = order[i]
        for v in range(lo, hi + 1):
            count[0] += 1
            if count[0] > budget:
                return False
            env[s] = v
            ok = True
            for c in by_level[i]:
                if c.k + sum(co * env[x] for x, co in c.c.items()) < 0:
                    ok = False
                    break
            if ok and rec(i + 1):
                return True
        env.pop(s, None)
        return False
    if rec(0):
        return dict(env)
    return None

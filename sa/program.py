"""Program model shared by all rules: every Python and Cython source of the
repository parsed into ``ast`` trees, with function / class indices.

Nothing here imports or executes repository code.
"""
import ast
import os
import hashlib

REPO = os.environ.get('VERIF_REPO', '/repo')


class AnchorMissing(Exception):
    """A statement form a rule is anchored in was not recognised inside an existing function: that rule gives no verdict
    (reported as undecided); the reference comparison still covers the function."""


class ConstructMissing(AnchorMissing):
    """A module, class or function a rule is anchored in no longer exists: the analysis is broken (exit 2), never a
    silent pass."""


def _inline_return_temporaries(tree):
    """Canonicalisation applied to every parsed unit: `tmp = E` immediately followed by `return tmp` (tmp not read anywhere
    else in the function) is seen by the rules as `tmp = E; return E`.  Introducing or removing such a temporary is the most
    common behaviour-preserving edit of a return statement; the rules examine return VALUES."""
    import copy
    for fn in [n for n in ast.walk(tree) if isinstance(n, (ast.FunctionDef, ast.AsyncFunctionDef))]:
        reads = {}
        for n in ast.walk(fn):
            if isinstance(n, ast.Name) and isinstance(n.ctx, ast.Load):
                reads[n.id] = reads.get(n.id, 0) + 1
        for holder in ast.walk(fn):
            for fld in ('body', 'orelse', 'finalbody'):
                blk = getattr(holder, fld, None)
                if not (isinstance(blk, list) and len(blk) >= 2):
                    continue
                for i in range(1, len(blk)):
                    r, a = blk[i], blk[i - 1]
                    if isinstance(r, ast.Return) and isinstance(r.value, ast.Name) and isinstance(a, ast.Assign) and len(a.targets) == 1 \
                            and isinstance(a.targets[0], ast.Name) and a.targets[0].id == r.value.id:
                        v = copy.deepcopy(a.value)
                        for x in ast.walk(v):
                            if hasattr(x, 'lineno'):
                                x.lineno = getattr(r, 'lineno', x.lineno)
                        r.value = v


class Unit:
    def __init__(self, path, rel, modname, lang, tree, text, unknown=()):
        self.path = path
        self.rel = rel
        self.modname = modname
        self.lang = lang
        self.tree = tree
        self.text = text
        self.lines = text.splitlines()
        self.unknown = list(unknown)
        _inline_return_temporaries(tree)
        for n in ast.walk(tree):
            n._unit = self
        # parents
        for n in ast.walk(tree):
            for c in ast.iter_child_nodes(n):
                c._parent = n
        tree._parent = None


class FuncInfo:
    def __init__(self, qual, node, unit, cls=None, outer=None):
        self.qual = qual
        self.node = node
        self.unit = unit
        self.cls = cls
        self.outer = outer

    @property
    def name(self):
        return self.node.name

    def __repr__(self):
        return '<Func %s>' % self.qual


class ClassInfo:
    def __init__(self, qual, node, unit):
        self.qual = qual
        self.node = node
        self.unit = unit
        self.methods = {}
        self.base_names = [base_name(b) for b in node.bases]

    @property
    def name(self):
        return self.node.name

    def __repr__(self):
        return '<Class %s>' % self.qual


def base_name(b):
    if isinstance(b, ast.Name):
        return b.id
    if isinstance(b, ast.Attribute):
        return ast.unparse(b)
    return ast.unparse(b)


def loc(node, unit=None):
    unit = unit or getattr(node, '_unit', None)
    f = unit.rel if unit is not None else '?'
    inc = getattr(node, '_file', None)
    if inc and unit is not None and os.path.basename(inc) != os.path.basename(unit.path):
        f = os.path.relpath(inc, REPO) if os.path.isabs(inc) else inc
    return '%s:%s' % (f, getattr(node, 'lineno', '?'))


def src(node):
    """Normalised source text of a node (whitespace/comment/paren-insensitive)."""
    if node is None:
        return 'None'
    try:
        return ast.unparse(node)
    except Exception:
        return '<%s>' % type(node).__name__


class Program:
    PY_DIRS = ('pyiga', 'scripts')

    def __init__(self, repo=None, with_cython=True, extra_dirs=(), alpha=True):
        self.repo = repo or REPO
        self.renamed = {}
        self.units = {}
        self.functions = {}
        self.classes = {}
        self.files_read = []
        self.cy_unknown = {}
        self._load_python(self.PY_DIRS + tuple(extra_dirs))
        if with_cython:
            self._load_cython()
        self._index()
        try:
            from . import treecmp as _treecmp
            _treecmp.set_signatures(self)
        except Exception:
            pass
        if alpha:
            # purely renamed locals get the names of the confirmed reference (sa/alpha.py) before any rule looks at them
            from . import alpha as _alpha
            self.renamed = _alpha.normalise(self)

    # ------------------------------------------------------------------ loading
    def _load_python(self, dirs):
        for d in dirs:
            root = os.path.join(self.repo, d)
            for dp, dn, fn in os.walk(root):
                dn[:] = sorted(x for x in dn if x not in ('__pycache__', 'build'))
                for f in sorted(fn):
                    if not f.endswith('.py'):
                        continue
                    path = os.path.join(dp, f)
                    rel = os.path.relpath(path, self.repo)
                    text = open(path, encoding='utf-8').read()
                    tree = ast.parse(text, filename=path)
                    modname = rel[:-3].replace(os.sep, '.')
                    if modname.endswith('.__init__'):
                        modname = modname[:-9]
                    self.units[modname] = Unit(path, rel, modname, 'py', tree, text)
                    self.files_read.append(rel)

    def _load_cython(self):
        from . import cyfront
        root = os.path.join(self.repo, 'pyiga')
        for f in sorted(os.listdir(root)):
            if not f.endswith('.pyx'):
                continue
            path = os.path.join(root, f)
            rel = os.path.relpath(path, self.repo)
            text = open(path, encoding='utf-8').read()
            tree, unknown = cyfront.lower_file(path)
            modname = 'pyiga.' + f[:-4]
            self.units[modname] = Unit(path, rel, modname, 'cy', tree, text, unknown)
            self.files_read.append(rel)
            if unknown:
                self.cy_unknown[rel] = unknown
        for f in sorted(os.listdir(root)):
            if f.endswith('.pxi'):
                self.files_read.append(os.path.join('pyiga', f))

    def _index(self):
        for unit in self.units.values():
            self._index_body(unit, unit.tree.body, unit.modname, None, None)

    def _index_body(self, unit, body, prefix, cls, outer):
        for n in body:
            if isinstance(n, (ast.FunctionDef, ast.AsyncFunctionDef)):
                q = prefix + '.' + n.name
                fi = FuncInfo(q, n, unit, cls, outer)
                # a redefinition (e.g. property setter) gets a suffix
                if q in self.functions:
                    k = 2
                    while '%s#%d' % (q, k) in self.functions:
                        k += 1
                    q = '%s#%d' % (q, k)
                    fi.qual = q
                self.functions[q] = fi
                n._qual = q
                if cls is not None and outer is None:
                    cls.methods.setdefault(n.name, fi)
                self._index_nested(unit, n, q, fi)
            elif isinstance(n, ast.ClassDef):
                q = prefix + '.' + n.name
                ci = ClassInfo(q, n, unit)
                self.classes[q] = ci
                n._qual = q
                self._index_body(unit, n.body, q, ci, None)
            elif isinstance(n, (ast.If, ast.Try, ast.With, ast.For, ast.While)):
                for fld in ('body', 'orelse', 'finalbody'):
                    self._index_body(unit, getattr(n, fld, []) or [], prefix, cls, outer)
                for h in getattr(n, 'handlers', []) or []:
                    self._index_body(unit, h.body, prefix, cls, outer)

    def _index_nested(self, unit, fn, q, fi):
        stack = list(fn.body)
        while stack:
            s = stack.pop(0)
            if isinstance(s, (ast.FunctionDef, ast.AsyncFunctionDef)):
                qq = q + '.<locals>.' + s.name
                if qq in self.functions:
                    k = 2
                    while '%s#%d' % (qq, k) in self.functions:
                        k += 1
                    qq = '%s#%d' % (qq, k)
                inner = FuncInfo(qq, s, unit, fi.cls, fi)
                self.functions[qq] = inner
                s._qual = qq
                self._index_nested(unit, s, qq, inner)
            elif isinstance(s, ast.ClassDef):
                qq = q + '.<locals>.' + s.name
                ci = ClassInfo(qq, s, unit)
                self.classes[qq] = ci
                self._index_body(unit, s.body, qq, ci, None)
            else:
                stack.extend(c for c in ast.iter_child_nodes(s) if isinstance(c, ast.stmt) or isinstance(c, ast.ExceptHandler))

    # ------------------------------------------------------------------ lookup
    def unit(self, modname):
        u = self.units.get(modname)
        if u is None:
            raise ConstructMissing('module %s not found' % modname)
        return u

    def func(self, qual):
        f = self.functions.get(qual)
        if f is None:
            last = qual.split('.')[-1]
            if '<locals>' in qual or (last.startswith('_') and not last.startswith('__')):
                # a nested or private helper that was inlined, renamed or turned into a method: the rule that is anchored in it
                # gives no verdict (undecided); only a vanished PUBLIC function / class / module is an analysis error
                raise AnchorMissing('helper function %s not found' % qual)
            raise ConstructMissing('function %s not found' % qual)
        return f

    def maybe_func(self, qual):
        return self.functions.get(qual)

    def cls(self, qual):
        c = self.classes.get(qual)
        if c is None:
            raise ConstructMissing('class %s not found' % qual)
        return c

    def funcs_in(self, modname, include_nested=False):
        pre = modname + '.'
        out = []
        for q, f in self.functions.items():
            if q.startswith(pre) and f.unit.modname == modname:
                if not include_nested and f.outer is not None:
                    continue
                out.append(f)
        return out

    def classes_in(self, modname):
        return [c for q, c in self.classes.items() if c.unit.modname == modname]

    def subclasses(self, base_qual, transitive=True):
        """All classes (in the same package) that derive from ``base_qual`` by name."""
        base = self.cls(base_qual)
        names = {base.name}
        out = []
        changed = True
        seen = set()
        while changed:
            changed = False
            for q, c in self.classes.items():
                if q in seen:
                    continue
                if any(b.split('.')[-1] in names for b in c.base_names):
                    seen.add(q)
                    out.append(c)
                    if transitive and c.name not in names:
                        names.add(c.name)
                    changed = True
        return out

    def mro_lookup(self, cls, meth):
        """Find method ``meth`` in cls or its in-package bases (by name)."""
        seen = set()
        stack = [cls]
        while stack:
            c = stack.pop(0)
            if c.qual in seen:
                continue
            seen.add(c.qual)
            if meth in c.methods:
                return c.methods[meth]
            for b in c.base_names:
                bn = b.split('.')[-1]
                for q, cc in self.classes.items():
                    if cc.name == bn and (cc.unit is c.unit or q.startswith('pyiga.')):
                        stack.append(cc)
        return None

    def digest(self):
        h = hashlib.sha256()
        for rel in sorted(set(self.files_read)):
            try:
                h.update(rel.encode())
                h.update(open(os.path.join(self.repo, rel), 'rb').read())
            except OSError:
                pass
        return h.hexdigest()[:16]


# ---------------------------------------------------------------------- small AST helpers
def own_nodes(fn):
    """All nodes of a function body that belong to the function's own scope, in source
    (pre-)order (nested function / class bodies excluded, lambdas and comprehensions included)."""
    def rec(n):
        yield n
        for c in ast.iter_child_nodes(n):
            if isinstance(c, (ast.FunctionDef, ast.AsyncFunctionDef, ast.ClassDef)):
                yield c  # the def statement itself, not its body
                continue
            yield from rec(c)
    for s in fn.body:
        if isinstance(s, (ast.FunctionDef, ast.AsyncFunctionDef, ast.ClassDef)):
            yield s
            continue
        yield from rec(s)


def calls_in(node):
    for n in ast.walk(node):
        if isinstance(n, ast.Call):
            yield n


def call_name(call):
    """Dotted name of the callee, or None."""
    f = call.func
    parts = []
    while isinstance(f, ast.Attribute):
        parts.append(f.attr)
        f = f.value
    if isinstance(f, ast.Name):
        parts.append(f.id)
        return '.'.join(reversed(parts))
    return None


def dotted(node):
    parts = []
    f = node
    while isinstance(f, ast.Attribute):
        parts.append(f.attr)
        f = f.value
    if isinstance(f, ast.Name):
        parts.append(f.id)
        return '.'.join(reversed(parts))
    return None


def parent(node):
    return getattr(node, '_parent', None)


def enclosing_function(node):
    p = parent(node)
    while p is not None and not isinstance(p, (ast.FunctionDef, ast.AsyncFunctionDef)):
        p = parent(p)
    return p


def enclosing_stmt(node):
    p = node
    while p is not None and not isinstance(p, ast.stmt):
        p = parent(p)
    return p


def ancestors(node):
    p = parent(node)
    while p is not None:
        yield p
        p = parent(p)


def kwarg(call, name, pos=None):
    for k in call.keywords:
        if k.arg == name:
            return k.value
    if pos is not None and len(call.args) > pos and not any(isinstance(a, ast.Starred) for a in call.args[:pos + 1]):
        return call.args[pos]
    return None


def is_const(node, value):
    return isinstance(node, ast.Constant) and node.value == value and type(node.value) is type(value)


def names_in(node):
    return {n.id for n in ast.walk(node) if isinstance(n, ast.Name)}


def find_assignments(fn_node, name):
    """Assignments ``name = value`` in a function's own scope -> list of value nodes."""
    out = []
    for n in own_nodes(fn_node):
        if isinstance(n, ast.Assign):
            for t in n.targets:
                if isinstance(t, ast.Name) and t.id == name:
                    out.append(n.value)
                elif isinstance(t, ast.Tuple) and isinstance(n.value, ast.Tuple) and len(t.elts) == len(n.value.elts):
                    for tt, vv in zip(t.elts, n.value.elts):
                        if isinstance(tt, ast.Name) and tt.id == name:
                            out.append(vv)
        elif isinstance(n, ast.AnnAssign) and isinstance(n.target, ast.Name) and n.target.id == name and n.value is not None:
            out.append(n.value)
    return out

"""Property-independent defect patterns around memoisation, applied to the functions a property is anchored in.

G1  stale value after a memo miss-only assignment
        if k not in D:  D[k] = v = compute(k)        # or  v = ...; D[k] = v  inside the if
        use(v)                                       # on a hit v still holds the value of an EARLIER key
G2  under-keyed memo: the stored value depends on a parameter / loop variable that is not part of the key
        if id(kv) not in S: S[id(kv)] = f(kv, x)      # x missing from the key
        if not self.cls:    self.cls = compile(vf)    # vf is a parameter, the cache has no key at all
G3  persistent memo on self that is not reset by the methods that write what the memoised computation reads
        self._p2g[p] = self.patch_to_global_idx(p)    # finalize() renumbers, nobody clears self._p2g

Each detector returns findings (kind, node, message) and is exact about what it claims: the patterns are syntactic
idioms with a data-flow side condition; anything that does not match the idiom yields nothing.
"""
import ast

from .program import src, own_nodes, call_name, parent
from . import guards


def _names(e, load_only=True):
    return {n.id for n in ast.walk(e) if isinstance(n, ast.Name) and (not load_only or isinstance(n.ctx, ast.Load))}


def _memo_tests(test):
    """(key expr, container expr) if test is `K not in D`; ('', attr expr) for `not X` / `X is None` on an attribute or name"""
    t = test
    if isinstance(t, ast.Compare) and len(t.ops) == 1 and isinstance(t.ops[0], ast.NotIn):
        return t.left, t.comparators[0]
    if isinstance(t, ast.UnaryOp) and isinstance(t.op, ast.Not) and isinstance(t.operand, (ast.Attribute, ast.Name)):
        return None, t.operand
    if isinstance(t, ast.Compare) and len(t.ops) == 1 and isinstance(t.ops[0], ast.Is) and isinstance(t.comparators[0], ast.Constant) \
            and t.comparators[0].value is None and isinstance(t.left, (ast.Attribute, ast.Name)):
        return None, t.left
    return None


def _sources(fn):
    """names that carry per-call / per-iteration information: parameters (except self) and loop targets"""
    out = {a.arg for a in fn.args.args + fn.args.kwonlyargs if a.arg != 'self'}
    if fn.args.vararg:
        out.add(fn.args.vararg.arg)
    for n in ast.walk(fn):
        if isinstance(n, ast.For):          # comprehension variables are internal to the expression they occur in
            out |= _names(n.target, load_only=False)
    return out


def _depends(e, fn, sources, depth=0, seen=None):
    """subset of `sources` that expression e depends on, through single-assignment locals"""
    seen = seen if seen is not None else set()
    out = set()
    for nm in _names(e):
        if nm in sources:
            out.add(nm)
        elif depth < 6 and nm not in seen:
            seen.add(nm)
            defs = [s for s in own_nodes(fn) if isinstance(s, ast.Assign) and any(isinstance(t, ast.Name) and t.id == nm for t in s.targets)]
            for d in defs:
                out |= _depends(d.value, fn, sources, depth + 1, seen)
    return out


def memo_sites(fn):
    """[(if_node, key_expr|None, container_expr, store_stmt, value_expr)] for the memo idiom inside fn"""
    out = []
    for iff in [n for n in own_nodes(fn) if isinstance(n, ast.If)]:
        mt = _memo_tests(iff.test)
        if mt is None:
            continue
        key, cont = mt
        for s in iff.body:
            if not isinstance(s, ast.Assign):
                continue
            for t in s.targets:
                if key is not None and isinstance(t, ast.Subscript) and src(t.value) == src(cont) and src(t.slice) == src(key):
                    out.append((iff, key, cont, s, s.value))
                elif key is None and src(t) == src(cont):
                    out.append((iff, None, cont, s, s.value))
    return out


def g1_stale_after_miss(fn):
    findings = []
    for iff, key, cont, store, value in memo_sites(fn):
        if key is None:
            continue
        # names bound only inside the miss branch
        bound = set()
        for s in iff.body:
            if isinstance(s, ast.Assign):
                for t in s.targets:
                    if isinstance(t, ast.Name):
                        bound.add(t.id)
        if not bound:
            continue
        loop = guards.in_loop(iff, fn)
        scope = loop.body if loop is not None else fn.body
        # statements after the if on the same level
        if iff not in scope:
            continue
        after = scope[scope.index(iff) + 1:]
        before = scope[:scope.index(iff)]
        rebound_before = set()
        for s in before:
            for n in ast.walk(s):
                if isinstance(n, ast.Name) and isinstance(n.ctx, ast.Store):
                    rebound_before.add(n.id)
        for s in after:
            reads = _names(s)
            stores = {n.id for n in ast.walk(s) if isinstance(n, ast.Name) and isinstance(n.ctx, ast.Store)}
            hit = (reads & bound) - rebound_before
            if hit:
                v = sorted(hit)[0]
                findings.append(('G1', s, '`%s` is assigned only when `%s` (a miss of the memo %s); on a hit the statement `%s` uses the value left over '
                                          'from an earlier key instead of %s[%s]' % (v, src(iff.test), src(cont), src(s)[:60], src(cont), src(key))))
                break
            bound -= stores
            if not bound:
                break
    return findings


def g2_underkeyed(fn):
    findings = []
    sources = _sources(fn)
    for iff, key, cont, store, value in memo_sites(fn):
        if key is None and not (isinstance(cont, ast.Attribute) and isinstance(cont.value, ast.Name) and cont.value.id == 'self'):
            continue        # `if x is None: x = default` on a local / parameter is a default value, not a memo
        if key is None and fn.name in ('__init__',):
            continue
        vdeps = _depends(value, fn, sources)
        kdeps = _depends(key, fn, sources) if key is not None else set()
        # a local container created inside the current loop iteration / call is not a memo across keys
        missing = vdeps - kdeps
        if not missing:
            continue
        # the container itself may be per-key (created in the same iteration): skip when it is assigned inside the innermost loop
        loop = guards.in_loop(iff, fn)
        if isinstance(cont, ast.Name):
            created = [s for s in own_nodes(fn) if isinstance(s, ast.Assign) and any(isinstance(t, ast.Name) and t.id == cont.id for t in s.targets)]
            if loop is not None and any(guards.in_loop(c, fn) is loop for c in created):
                continue
            # a purely local dict only matters if the missing names vary while it lives: they must be loop variables
            loopvars = set()
            for n in ast.walk(fn):
                if isinstance(n, ast.For):
                    loopvars |= _names(n.target, load_only=False)
            missing = missing & loopvars
            if not missing:
                continue
        findings.append(('G2', store, 'the memo %s is keyed by `%s` but the stored value `%s` also depends on %s: a later request that differs only '
                                      'in %s is served the value computed for the first one'
                         % (src(cont), src(key) if key is not None else 'nothing', src(value)[:70], ', '.join(sorted(missing)), ', '.join(sorted(missing)))))
    return findings


def _attr_reads_writes(cls):
    """per method: (attributes of self read, attributes of self written, self-methods called)"""
    info = {}
    for name, m in cls.methods.items():
        reads, writes, calls = set(), set(), set()
        for n in ast.walk(m.node):
            if isinstance(n, ast.Attribute) and isinstance(n.value, ast.Name) and n.value.id == 'self':
                p = parent(n)
                if isinstance(p, ast.Call) and p.func is n:
                    calls.add(n.attr)
                    continue
                if isinstance(n.ctx, ast.Store):
                    writes.add(n.attr)
                else:
                    reads.add(n.attr)
                    # self.a[...] = v ; self.a.append(..) ; self.a |= ..
                    if isinstance(p, ast.Subscript) and isinstance(p.ctx, ast.Store):
                        writes.add(n.attr)
                    if isinstance(p, ast.Attribute) and isinstance(parent(p), ast.Call) and parent(p).func is p and \
                            p.attr in ('append', 'extend', 'add', 'update', 'clear', 'pop', 'remove', 'discard', 'insert', 'sort', 'setdefault'):
                        writes.add(n.attr)
                    if isinstance(p, ast.AugAssign) and p.target is n:
                        writes.add(n.attr)
                    if isinstance(p, ast.Subscript) and isinstance(parent(p), ast.AugAssign) and parent(p).target is p:
                        writes.add(n.attr)
        info[name] = (reads, writes, calls)
    return info


def g3_uninvalidated(cls):
    """persistent memo attributes of a class that some state writer forgets to reset"""
    findings = []
    info = _attr_reads_writes(cls)

    def closure_reads(mname, seen=None):
        seen = seen if seen is not None else set()
        if mname in seen or mname not in info:
            return set()
        seen.add(mname)
        r = set(info[mname][0])
        for c in info[mname][2]:
            r |= closure_reads(c, seen)
        return r
    for name, m in cls.methods.items():
        if name == '__init__':
            continue
        # aliases: local = self.attr
        alias = {}
        for s in own_nodes(m.node):
            if isinstance(s, ast.Assign) and len(s.targets) == 1 and isinstance(s.targets[0], ast.Name) and isinstance(s.value, ast.Attribute) \
                    and isinstance(s.value.value, ast.Name) and s.value.value.id == 'self':
                alias[s.targets[0].id] = s.value.attr
        for iff, key, cont, store, value in memo_sites(m.node):
            attr = None
            if isinstance(cont, ast.Attribute) and isinstance(cont.value, ast.Name) and cont.value.id == 'self':
                attr = cont.attr
            elif isinstance(cont, ast.Name) and cont.id in alias:
                attr = alias[cont.id]
            if attr is None or key is None:
                continue
            called = [c.func.attr for c in ast.walk(value) if isinstance(c, ast.Call) and isinstance(c.func, ast.Attribute)
                      and isinstance(c.func.value, ast.Name) and c.func.value.id == 'self']
            if not called:
                continue
            needed = set()
            for c in called:
                needed |= closure_reads(c)
            needed.discard(attr)
            for wname, (r, w, c) in info.items():
                if wname in ('__init__', name):
                    continue
                touched = (w & needed)
                if touched and attr not in w:
                    findings.append(('G3', store, 'self.%s memoises %s, which reads self.%s; %s() writes that state but does not reset self.%s, so the '
                                                  'memo outlives the numbering it was computed from'
                                     % (attr, ' / '.join('self.%s()' % x for x in called), ', self.'.join(sorted(touched)), wname, attr)))
                    break
    return findings


def run(ctx, rule):
    """Apply the detectors to every function (and class) in the property's scope (reference/scope.json)."""
    import fnmatch
    import json
    import os
    here = os.path.dirname(os.path.dirname(os.path.abspath(__file__)))
    scope = json.load(open(os.path.join(here, 'reference', 'scope.json'))).get(ctx.prop)
    if not scope:
        return
    n = sites = 0
    classes = set()
    for q, f in sorted(ctx.prog.functions.items()):
        if not any(fnmatch.fnmatchcase(q, pat) for pat in scope):
            continue
        n += 1
        sites += len(memo_sites(f.node))
        if f.cls is not None:
            classes.add(f.cls.qual)
        for det in (g1_stale_after_miss, g2_underkeyed):
            for kind, node, msg in det(f.node):
                ctx.violated(rule, f.qual, '%s memo discipline: %s' % (kind, src(node)[:80]), node, msg)
    for cq in sorted(classes):
        c = ctx.prog.classes.get(cq)
        if c is None:
            continue
        for kind, node, msg in g3_uninvalidated(c):
            ctx.violated(rule, cq, '%s memo discipline: %s' % (kind, src(node)[:80]), node, msg)
    ctx.met(rule, ctx.prop + ' scope', 'memo discipline: %d functions, %d memo sites, %d classes examined' % (n, sites, len(classes)), None,
            'no stale-after-miss use, no under-keyed memo, no persistent memo that a state writer forgets to reset', where='-', nontrivial=sites > 0)

"""Property-independent defect patterns around memoisation, applied to the functions a property is anchored in.

G1  stale value after a memo miss-only assignment
        if k not in D:  D[k] = v = compute(k)        # or  v = ...; D[k] = v  inside the if
        use(v)                                       # on a hit v still holds the value of an EARLIER key
G2  under-keyed memo: the stored value depends on a parameter / loop variable that is not part of the key
        if id(kv) not in S: S[id(kv)] = f(kv, x)      # x missing from the key
        if not self.cls:    self.cls = compile(vf)    # vf is a parameter, the cache has no key at all
G3  persistent memo on self that is not reset by the methods that write what the memoised computation reads
        self._p2g[p] = self.patch_to_global_idx(p)    # finalize() renumbers, nobody clears self._p2g

Each detector returns findings (kind, node, message) and is exact about what it claims: the patterns are syntactic
idioms with a data-flow side condition; anything that does not match the idiom yields nothing.
"""
import ast

from .program import src, own_nodes, call_name, parent
from . import guards


def _names(e, load_only=True):
    return {n.id for n in ast.walk(e) if isinstance(n, ast.Name) and (not load_only or isinstance(n.ctx, ast.Load))}


def _memo_tests(test):
    """(key expr, container expr) if test is `K not in D`; ('', attr expr) for `not X` / `X is None` on an attribute or name"""
    t = test
    if isinstance(t, ast.Compare) and len(t.ops) == 1 and isinstance(t.ops[0], ast.NotIn):
        return t.left, t.comparators[0]
    if isinstance(t, ast.Compare) and len(t.ops) == 1 and isinstance(t.ops[0], ast.NotEq):
        # `if D.get('tag') != x:` / `if D['tag'] != x:` -- a one-slot memo whose validity tag is x
        for a, b in ((t.left, t.comparators[0]), (t.comparators[0], t.left)):
            if isinstance(a, ast.Call) and isinstance(a.func, ast.Attribute) and a.func.attr == 'get' and a.args and isinstance(a.args[0], ast.Constant):
                return b, a.func.value
            if isinstance(a, ast.Subscript) and isinstance(a.slice, ast.Constant) and isinstance(a.slice.value, str):
                return b, a.value
    if isinstance(t, ast.UnaryOp) and isinstance(t.op, ast.Not) and isinstance(t.operand, (ast.Attribute, ast.Name)):
        return None, t.operand
    if isinstance(t, ast.Compare) and len(t.ops) == 1 and isinstance(t.ops[0], ast.Is) and isinstance(t.comparators[0], ast.Constant) \
            and t.comparators[0].value is None and isinstance(t.left, (ast.Attribute, ast.Name)):
        return None, t.left
    return None


def _sources(fn):
    """names that carry per-call / per-iteration information: parameters (except self) and loop targets"""
    out = {a.arg for a in fn.args.args + fn.args.kwonlyargs if a.arg != 'self'}
    if fn.args.vararg:
        out.add(fn.args.vararg.arg)
    for n in ast.walk(fn):
        if isinstance(n, ast.For):          # comprehension variables are internal to the expression they occur in
            out |= _names(n.target, load_only=False)
    return out


def _depends(e, fn, sources, depth=0, seen=None):
    """subset of `sources` that expression e depends on, through single-assignment locals"""
    seen = seen if seen is not None else set()
    out = set()
    for nm in _names(e):
        if nm in sources:
            out.add(nm)
        elif depth < 6 and nm not in seen:
            seen.add(nm)
            defs = [s for s in own_nodes(fn) if isinstance(s, ast.Assign) and any(isinstance(t, ast.Name) and t.id == nm for t in s.targets)]
            for d in defs:
                out |= _depends(d.value, fn, sources, depth + 1, seen)
    return out


def memo_sites(fn):
    """[(if_node, key_expr|None, container_expr, store_stmt, value_expr)] for the memo idiom inside fn"""
    out = []
    for iff in [n for n in own_nodes(fn) if isinstance(n, ast.If)]:
        mt = _memo_tests(iff.test)
        if mt is None:
            continue
        key, cont = mt
        for s in iff.body:
            if not isinstance(s, ast.Assign):
                continue
            for t in s.targets:
                if key is not None and isinstance(t, ast.Subscript) and src(t.value) == src(cont) and src(t.slice) == src(key):
                    out.append((iff, key, cont, s, s.value))
                elif key is not None and isinstance(iff.test, ast.Compare) and isinstance(iff.test.ops[0], ast.NotEq) \
                        and isinstance(t, ast.Subscript) and src(t.value) == src(cont) and isinstance(t.slice, ast.Constant) \
                        and src(s.value) != src(key):
                    out.append((iff, key, cont, s, s.value))       # tagged one-slot memo: D['value'] = f(...) under D.get('tag') != x
                elif key is None and src(t) == src(cont):
                    out.append((iff, None, cont, s, s.value))
    return out


def g1_stale_after_miss(fn):
    findings = []
    for iff, key, cont, store, value in memo_sites(fn):
        if key is None:
            continue
        # names bound only inside the miss branch
        bound = set()
        for s in iff.body:
            if isinstance(s, ast.Assign):
                for t in s.targets:
                    if isinstance(t, ast.Name):
                        bound.add(t.id)
        if not bound:
            continue
        loop = guards.in_loop(iff, fn)
        scope = loop.body if loop is not None else fn.body
        # statements after the if on the same level
        if iff not in scope:
            continue
        after = scope[scope.index(iff) + 1:]
        before = scope[:scope.index(iff)]
        rebound_before = set()
        for s in before:
            for n in ast.walk(s):
                if isinstance(n, ast.Name) and isinstance(n.ctx, ast.Store):
                    rebound_before.add(n.id)
        for s in after:
            reads = _names(s)
            stores = {n.id for n in ast.walk(s) if isinstance(n, ast.Name) and isinstance(n.ctx, ast.Store)}
            hit = (reads & bound) - rebound_before
            if hit:
                v = sorted(hit)[0]
                findings.append(('G1', s, '`%s` is assigned only when `%s` (a miss of the memo %s); on a hit the statement `%s` uses the value left over '
                                          'from an earlier key instead of %s[%s]' % (v, src(iff.test), src(cont), src(s)[:60], src(cont), src(key))))
                break
            bound -= stores
            if not bound:
                break
    return findings


def g2_underkeyed(fn):
    findings = []
    sources = _sources(fn)
    for iff, key, cont, store, value in memo_sites(fn):
        if key is None and not (isinstance(cont, ast.Attribute) and isinstance(cont.value, ast.Name) and cont.value.id == 'self'):
            continue        # `if x is None: x = default` on a local / parameter is a default value, not a memo
        if key is None and fn.name in ('__init__',):
            continue
        vdeps = _depends(value, fn, sources)
        kdeps = _depends(key, fn, sources) if key is not None else set()
        # a local container created inside the current loop iteration / call is not a memo across keys
        missing = vdeps - kdeps
        if not missing:
            continue
        # the container itself may be per-key (created in the same iteration): skip when it is assigned inside the innermost loop
        loop = guards.in_loop(iff, fn)
        is_param = isinstance(cont, ast.Name) and cont.id in {a.arg for a in fn.args.args}
        if isinstance(cont, ast.Name) and not is_param:
            created = [s for s in own_nodes(fn) if isinstance(s, ast.Assign) and any(isinstance(t, ast.Name) and t.id == cont.id for t in s.targets)]
            if loop is not None and any(guards.in_loop(c, fn) is loop for c in created):
                continue
            # a purely local dict only matters if the missing names vary while it lives: they must be loop variables
            loopvars = set()
            for n in ast.walk(fn):
                if isinstance(n, ast.For):
                    loopvars |= _names(n.target, load_only=False)
            missing = missing & loopvars
            if not missing:
                continue
        findings.append(('G2', store, 'the memo %s is keyed by `%s` but the stored value `%s` also depends on %s: a later request that differs only '
                                      'in %s is served the value computed for the first one'
                         % (src(cont), src(key) if key is not None else 'nothing', src(value)[:70], ', '.join(sorted(missing)), ', '.join(sorted(missing)))))
    return findings


def _attr_reads_writes(cls):
    """per method: (attributes of self read, attributes of self written, self-methods called)"""
    info = {}

    class _M:
        def __init__(self, node):
            self.node = node
    members = []
    for s in cls.node.body:         # the class body itself: a property getter and its setter share one name
        if isinstance(s, (ast.FunctionDef, ast.AsyncFunctionDef)):
            nm = s.name
            if any(isinstance(d, ast.Attribute) and d.attr in ('setter', 'deleter') for d in s.decorator_list):
                nm = s.name + '.setter'
            members.append((nm, _M(s)))
    if not members:
        members = list(cls.methods.items())
    for name, m in members:
        reads, writes, calls = set(), set(), set()
        for n in ast.walk(m.node):
            if isinstance(n, ast.Attribute) and isinstance(n.value, ast.Name) and n.value.id == 'self':
                p = parent(n)
                if isinstance(p, ast.Call) and p.func is n:
                    calls.add(n.attr)
                    continue
                if isinstance(n.ctx, ast.Store):
                    writes.add(n.attr)
                else:
                    reads.add(n.attr)
                    # self.a[...] = v ; self.a.append(..) ; self.a |= ..
                    if isinstance(p, ast.Subscript) and isinstance(p.ctx, ast.Store):
                        writes.add(n.attr)
                    if isinstance(p, ast.Attribute) and isinstance(parent(p), ast.Call) and parent(p).func is p and \
                            p.attr in ('append', 'extend', 'add', 'update', 'clear', 'pop', 'remove', 'discard', 'insert', 'sort', 'setdefault'):
                        writes.add(n.attr)
                    if isinstance(p, ast.AugAssign) and p.target is n:
                        writes.add(n.attr)
                    if isinstance(p, ast.Subscript) and isinstance(parent(p), ast.AugAssign) and parent(p).target is p:
                        writes.add(n.attr)
        info[name] = (reads, writes, calls)
    return info


def g3_uninvalidated(cls):
    """persistent memo attributes of a class that some state writer forgets to reset"""
    findings = []
    info = _attr_reads_writes(cls)

    def closure_reads(mname, seen=None):
        seen = seen if seen is not None else set()
        if mname in seen or mname not in info:
            return set()
        seen.add(mname)
        r = set(info[mname][0])
        for c in info[mname][2]:
            r |= closure_reads(c, seen)
        return r
    def closure_writes(mname, seen=None):
        seen = seen if seen is not None else set()
        if mname in seen or mname not in info:
            return set()
        seen.add(mname)
        w = set(info[mname][1])
        for c in info[mname][2]:
            w |= closure_writes(c, seen)
        return w
    for name, m in cls.methods.items():
        if name == '__init__':
            continue
        # aliases: local = self.attr
        alias = {}
        for s in own_nodes(m.node):
            if isinstance(s, ast.Assign) and len(s.targets) == 1 and isinstance(s.targets[0], ast.Name) and isinstance(s.value, ast.Attribute) \
                    and isinstance(s.value.value, ast.Name) and s.value.value.id == 'self':
                alias[s.targets[0].id] = s.value.attr
        for iff, key, cont, store, value in memo_sites(m.node):
            attr = None
            if isinstance(cont, ast.Attribute) and isinstance(cont.value, ast.Name) and cont.value.id == 'self':
                attr = cont.attr
            elif isinstance(cont, ast.Name) and cont.id in alias:
                attr = alias[cont.id]
            if attr is None:
                continue
            if key is None and not attr.startswith('_'):
                continue        # keyless: only private fields are memos, public ones are lazily defaulted settings
            called = [c.func.attr for c in ast.walk(value) if isinstance(c, ast.Call) and isinstance(c.func, ast.Attribute)
                      and isinstance(c.func.value, ast.Name) and c.func.value.id == 'self']
            # a private helper that the confirmed reference does not have and that is called from this one site is the memoised
            # computation moved out of the method: it is read as if it were still written inline
            from . import alpha as _alpha
            def _extracted(c):
                mm = cls.methods.get(c)
                if mm is None or not _alpha.is_new_function(mm.qual):
                    return False
                sites = [x for m2 in cls.methods.values() for x in ast.walk(m2.node) if isinstance(x, ast.Call) and isinstance(x.func, ast.Attribute)
                         and x.func.attr == c and isinstance(x.func.value, ast.Name) and x.func.value.id == 'self']
                return len(sites) == 1
            called = [c for c in called if not _extracted(c)]
            if not called:
                continue
            needed = set()
            for c in called:
                needed |= closure_reads(c)
            needed.discard(attr)
            for wname, (r, w, c) in info.items():
                if wname in ('__init__', name):
                    continue
                touched = (w & needed)
                if touched and attr not in closure_writes(wname):
                    findings.append(('G3', store, 'self.%s memoises %s, which reads self.%s; %s() writes that state but does not reset self.%s, so the '
                                                  'memo outlives the numbering it was computed from'
                                     % (attr, ' / '.join('self.%s()' % x for x in called), ', self.'.join(sorted(touched)), wname, attr)))
                    break
    return findings


def g4_rebound_parameter_forwarded(fn):
    """A parameter p is saved under another name and rebound (`p, max_p = 0, p`), i.e. from there on `p` is a working
    variable and the caller's value lives in the other name.  Passing `p` on as the same-named option of a callee then
    forwards the working variable (a running counter), not the caller's option."""
    findings = []
    params = {a.arg for a in fn.args.args + fn.args.kwonlyargs}
    saved = {}      # param -> (name holding the original value, statement)
    for s in own_nodes(fn):
        if isinstance(s, ast.Assign) and len(s.targets) == 1 and isinstance(s.targets[0], ast.Tuple) and isinstance(s.value, ast.Tuple) \
                and len(s.targets[0].elts) == len(s.value.elts):
            tn = [t.id if isinstance(t, ast.Name) else None for t in s.targets[0].elts]
            for i, v in enumerate(s.value.elts):
                if isinstance(v, ast.Name) and v.id in params and v.id in tn and tn[i] is not None and tn[i] != v.id:
                    j = tn.index(v.id)
                    if not (isinstance(s.value.elts[j], ast.Name) and s.value.elts[j].id == v.id):
                        saved[v.id] = (tn[i], s)
    if not saved:
        return findings
    for c in own_nodes(fn):
        if not isinstance(c, ast.Call):
            continue
        for kw in c.keywords:
            if kw.arg in saved and isinstance(kw.value, ast.Name) and kw.value.id == kw.arg and c.lineno > saved[kw.arg][1].lineno:
                findings.append(('G4', c, 'the option %s=%s is passed on after `%s` turned `%s` into a working variable; the caller\'s value is in `%s`'
                                 % (kw.arg, kw.arg, src(saved[kw.arg][1]), kw.arg, saved[kw.arg][0])))
    return findings


def g5_configuration_inherited(cls):
    """Inside a method of class K an object of the same class is built (K(...) or a static constructor K.f(...)).  Every
    configuration parameter p of that constructor which has a non-None default and is stored as self.p by K.__init__ must
    be passed explicitly: otherwise the derived object silently gets the default instead of this object's setting."""
    findings = []
    init = cls.methods.get('__init__')
    if init is None:
        return findings
    stored = set()
    iparams = [a.arg for a in init.node.args.args]
    for s in own_nodes(init.node):
        if isinstance(s, ast.Assign) and len(s.targets) == 1 and isinstance(s.targets[0], ast.Attribute) and isinstance(s.targets[0].value, ast.Name) \
                and s.targets[0].value.id == 'self' and s.targets[0].attr in iparams and s.targets[0].attr in _names(s.value):
            stored.add(s.targets[0].attr)
    if not stored:
        return findings

    def config_params(fn, skip_first):
        args = fn.args.args[1:] if skip_first else fn.args.args
        defaults = fn.args.defaults
        out = {}
        for a, d in zip(args[len(args) - len(defaults):], defaults):
            if a.arg in stored and not (isinstance(d, ast.Constant) and d.value is None):
                out[a.arg] = d
        return out
    for mname, m in cls.methods.items():
        if mname == '__init__':
            continue
        for c in own_nodes(m.node):
            if not isinstance(c, ast.Call):
                continue
            callee = None
            if isinstance(c.func, ast.Name) and c.func.id == cls.name:
                callee, skip = init.node, True
            elif isinstance(c.func, ast.Attribute) and isinstance(c.func.value, ast.Name) and c.func.value.id == cls.name and c.func.attr in cls.methods:
                cm = cls.methods[c.func.attr].node
                is_static = any(src(d) in ('staticmethod', 'classmethod') for d in cm.decorator_list)
                callee, skip = cm, (not is_static) or any(src(d) == 'classmethod' for d in cm.decorator_list)
            if callee is None or any(kw.arg is None for kw in c.keywords):
                continue
            need = config_params(callee, skip)
            if not need:
                continue
            names = [a.arg for a in (callee.args.args[1:] if skip else callee.args.args)]
            passed = {kw.arg for kw in c.keywords} | set(names[:len(c.args)])
            uses_self = any(isinstance(n, ast.Name) and n.id == 'self' for n in ast.walk(m.node))
            if not uses_self:
                continue        # a static helper has no setting to inherit
            for p, d in sorted(need.items()):
                if p not in passed:
                    findings.append(('G5', c, '%s(...) is built inside %s.%s without %s=...: the new object gets the default %s=%s instead of '
                                              'inheriting self.%s' % (src(c.func), cls.name, mname, p, p, src(d), p)))
    return findings


def g6_error_by_difference_of_squares(fn):
    """An error / residual norm obtained as sqrt(|a^2 - b^2|) and then compared with a tolerance: the subtraction cancels,
    the result has an absolute accuracy of about sqrt(eps)*|a| and cannot resolve tolerances below 1e-8 relative."""
    findings = []
    tol_compared = set()
    for n in ast.walk(fn):
        if isinstance(n, ast.Compare):
            names = _names(n)
            if any('tol' in x.lower() for x in names):
                tol_compared |= names
    for s in own_nodes(fn):
        if not (isinstance(s, ast.Assign) and len(s.targets) == 1 and isinstance(s.targets[0], ast.Name)):
            continue
        if s.targets[0].id not in tol_compared:
            continue
        for c in ast.walk(s.value):
            if isinstance(c, ast.Call) and (call_name(c) or '').split('.')[-1] == 'sqrt' and c.args:
                a = c.args[0]
                while isinstance(a, ast.Call) and (call_name(a) or '').split('.')[-1] in ('abs', 'fabs', 'maximum', 'max') and a.args:
                    a = a.args[0] if not (isinstance(a.args[0], ast.Constant)) else a.args[-1]
                if isinstance(a, ast.BinOp) and isinstance(a.op, ast.Sub):
                    def squared(x):
                        return any(isinstance(p, ast.BinOp) and isinstance(p.op, ast.Pow) and isinstance(p.right, ast.Constant) and p.right.value == 2
                                   for p in ast.walk(x))
                    if squared(a.left) and squared(a.right):
                        findings.append(('G6', s, '`%s` obtains the quantity tested against the tolerance as the square root of a difference of squares: '
                                                  'the subtraction cancels, so values below about 1e-8 of the operands are noise and tolerances such as the '
                                                  'default 1e-12 can never be met (the stop test does not fire, the recorded history is meaningless)' % src(s)[:90]))
    return findings


def _bare_and_attr(expr):
    """(names used as whole objects, names used only as the base of attribute reads) in an expression"""
    bare, attr = set(), set()

    def rec(n, parent_attr):
        if isinstance(n, ast.Name):
            (attr if parent_attr else bare).add(n.id)
            return
        for c in ast.iter_child_nodes(n):
            rec(c, isinstance(n, ast.Attribute) and c is n.value)
    rec(expr, False)
    return bare, attr - bare


def g2b_projection_key(fn):
    """A memo whose key is built from ATTRIBUTES of an object (k0.p, k0.numdofs) while the stored value is computed from the
    whole object (f(k0, k1)): two different objects that agree in those attributes share one entry."""
    from . import resolve
    findings = []
    for iff, key, cont, store, value in memo_sites(fn):
        if key is None:
            continue
        try:
            kexpr = resolve.expand(key, iff)
        except Exception:
            kexpr = key
        kb, ka = _bare_and_attr(kexpr)
        vb, _va = _bare_and_attr(value)
        lossy = sorted((vb & ka) - {'self', 'cls'})
        if lossy:
            findings.append(('G2', store, 'the memo %s is keyed by `%s`, i.e. only by attributes of %s, but the stored value `%s` is computed from the '
                                          'whole object(s): two different %s that agree in these attributes are served the same entry'
                             % (src(cont), src(kexpr)[:80], ', '.join(lossy), src(value)[:60], ' / '.join(lossy))))
    return findings


def g11_linear_level_factor(fn):
    """Cell and function indices of a dyadic hierarchy scale by 2**(level difference).  An index divided or multiplied by
    2 * (l - k) agrees with that for differences 1 and 2 only."""
    findings = []
    for n in ast.walk(fn):
        if isinstance(n, ast.BinOp) and isinstance(n.op, (ast.FloorDiv, ast.Mult, ast.Div)):
            for side in (n.right, n.left):
                if isinstance(side, ast.BinOp) and isinstance(side.op, ast.Mult):
                    a, b = side.left, side.right
                    for two, diff in ((a, b), (b, a)):
                        if isinstance(two, ast.Constant) and two.value == 2 and isinstance(diff, ast.BinOp) and isinstance(diff.op, ast.Sub) \
                                and isinstance(diff.left, ast.Name) and isinstance(diff.right, ast.Name) \
                                and _level_like(fn, diff.left.id) and _level_like(fn, diff.right.id):
                            findings.append(('G11', n, '`%s` scales an index by 2*(%s - %s); between levels %s and %s of a dyadic hierarchy the '
                                                       'ratio is 2**(%s - %s): the two agree for differences 1 and 2 only'
                                             % (src(n)[:60], diff.left.id, diff.right.id, diff.right.id, diff.left.id, diff.left.id, diff.right.id)))
    return findings


def _level_like(fn, name):
    """the name is used as a level: first argument of a hierarchy query (self.hmesh.*, self.mesh(..), cell_parent, ...) or an
    index into a per-level list (meshes[..], active[..], actfun[..])"""
    for n in ast.walk(fn):
        if isinstance(n, ast.Call) and n.args and isinstance(n.args[0], ast.Name) and n.args[0].id == name \
                and isinstance(n.func, ast.Attribute) and ('cell' in n.func.attr or 'function' in n.func.attr or n.func.attr in ('mesh', 'knotvectors')):
            return True
        if isinstance(n, ast.Call) and len(n.args) >= 3 and isinstance(n.args[-1], ast.Name) and n.args[-1].id == name \
                and isinstance(n.func, ast.Attribute) and 'grandparent' in n.func.attr:
            return True
        if isinstance(n, ast.Subscript) and isinstance(n.slice, ast.Name) and n.slice.id == name and isinstance(n.value, ast.Attribute) \
                and n.value.attr in ('meshes', 'active', 'deactivated', 'actfun', 'deactfun', 'P'):
            return True
    return name in ('l', 'k', 'lv', 'lvl', 'level')


def g12_triangular_sum_of_asymmetric_summand(fn):
    """sum(w(e,u) * T(e,u) for e in range(d) for u in range(e, d)) with w = (1 if e == u else 2) equals the full double sum only
    if T is symmetric in (e, u).  T is compared with itself under e <-> u (two-index factors X[e,u] are taken to be
    symmetric, as Hessians are)."""
    from . import treecmp
    findings = []
    for n in ast.walk(fn):
        if not isinstance(n, (ast.GeneratorExp, ast.ListComp)) or len(n.generators) < 2:
            continue
        gens = n.generators
        for i, g in enumerate(gens):
            if not (isinstance(g.target, ast.Name) and isinstance(g.iter, ast.Call) and src(g.iter.func) == 'range' and len(g.iter.args) == 2):
                continue
            lo = g.iter.args[0]
            outer = [h for h in gens[:i] if isinstance(h.target, ast.Name) and isinstance(lo, ast.Name) and h.target.id == lo.id]
            if not outer:
                continue
            e, u = outer[0].target.id, g.target.id
            # the doubled off-diagonal weight
            w = [x for x in ast.walk(n.elt) if isinstance(x, ast.IfExp) and isinstance(x.test, ast.Compare)
                 and {src(x.test.left), src(x.test.comparators[0])} == {e, u}]
            if not w:
                continue

            class Swap(ast.NodeTransformer):
                def visit_Name(self, node):
                    if node.id == e:
                        return ast.copy_location(ast.Name(id=u, ctx=node.ctx), node)
                    if node.id == u:
                        return ast.copy_location(ast.Name(id=e, ctx=node.ctx), node)
                    return node

                def visit_Subscript(self, node):
                    self.generic_visit(node)
                    # X[e, u] with both summation indices: symmetric factor, order normalised
                    if isinstance(node.slice, ast.Tuple) and len(node.slice.elts) == 2 and {src(x) for x in node.slice.elts} == {e, u}:
                        node.slice.elts = sorted(node.slice.elts, key=src)
                    return node
            import copy
            from .alpha import clone
            a = Swap().visit(clone(n.elt))
            b = clone(n.elt)

            class Norm(ast.NodeTransformer):
                def visit_Subscript(self, node):
                    self.generic_visit(node)
                    if isinstance(node.slice, ast.Tuple) and len(node.slice.elts) == 2 and {src(x) for x in node.slice.elts} == {e, u}:
                        node.slice.elts = sorted(node.slice.elts, key=src)
                    return node
            b = Norm().visit(b)
            if treecmp.compare(a, b)[0] != 'equal':
                findings.append(('G12', n, 'the double sum over (%s, %s) is restricted to %s <= %s with the off-diagonal terms counted twice, but the '
                                           'summand is not symmetric under %s <-> %s (only the two-index factor is): mixed terms come out wrong'
                                 % (e, u, e, u, e, u)))
    return findings


def g13_negated_degree_slice(fn):
    """x[a:-p] is EMPTY for p == 0 (-0 == 0): a slice bounded by the negated degree needs the degree-0 case handled."""
    findings = []
    for n in ast.walk(fn):
        if not (isinstance(n, ast.Slice) and isinstance(n.upper, ast.UnaryOp) and isinstance(n.upper.op, ast.USub)):
            continue
        o = n.upper.operand
        t = src(o)
        if not (t == 'p' or t.endswith('.p')):
            continue
        facts = guards.dominating_facts(n)
        base = t
        handled = False
        for (txt, pol, _nd) in facts:
            tt = txt.replace(' ', '')
            for nm in {base, 'p', 'self.p'}:
                if (not pol and tt in (nm + '==0', '0==' + nm)) or (pol and tt in (nm + '>0', nm + '>=1', nm + '!=0', '0<' + nm, '1<=' + nm)):
                    handled = True
        if not handled:
            findings.append(('G13', n, 'the slice `%s` is bounded by the negated degree: for degree 0 the bound is -0 == 0 and the slice is empty, so the '
                                       'result silently degenerates (no case distinction for p == 0 dominates it)' % src(n)))
    return findings


def g14_derived_value_cached_before_source_changes(fn):
    """self.A = f(self.B) followed, later in the same method, by a statement that rewrites self.B while self.A is not
    recomputed: self.A describes the old B."""
    findings = []
    body = [s for s in fn.body]
    flat = []

    def walk(stmts, depth):
        for s in stmts:
            flat.append(s)
            for fld in ('body', 'orelse', 'finalbody'):
                b = getattr(s, fld, None)
                if isinstance(b, list) and b and isinstance(b[0], ast.stmt) and not isinstance(s, (ast.FunctionDef, ast.AsyncFunctionDef, ast.ClassDef)):
                    walk(b, depth + 1)
    walk(body, 0)

    def self_attr_reads(e, seen=None):
        out = set()
        for x in ast.walk(e):
            if isinstance(x, ast.Attribute) and isinstance(x.value, ast.Name) and x.value.id == 'self' and isinstance(x.ctx, ast.Load):
                out.add(x.attr)
        return out
    # locals defined from self attributes (one level): name -> attributes read
    local_src = {}
    for s in flat:
        if isinstance(s, ast.Assign) and len(s.targets) == 1 and isinstance(s.targets[0], ast.Name):
            local_src.setdefault(s.targets[0].id, set()).update(self_attr_reads(s.value))
    for i, s in enumerate(flat):
        if not (isinstance(s, ast.Assign) and len(s.targets) == 1 and isinstance(s.targets[0], ast.Attribute)
                and isinstance(s.targets[0].value, ast.Name) and s.targets[0].value.id == 'self'):
            continue
        A = s.targets[0].attr
        # only SIZES / counts derived from a container: len(self.B), sum(len(..)), self.B.shape -- values that describe B
        sized = [c for c in ast.walk(s.value) if isinstance(c, ast.Call) and src(c.func) == 'len']
        srcs = set()
        for c in sized:
            srcs |= self_attr_reads(c)
            for x in ast.walk(c):
                if isinstance(x, ast.Name) and x.id in local_src:
                    srcs |= local_src[x.id]
        srcs.discard(A)
        if not srcs:
            continue
        for later in flat[i + 1:]:
            hit = None
            for x in ast.walk(later):
                if isinstance(x, ast.Attribute) and isinstance(x.value, ast.Name) and x.value.id == 'self' and x.attr in srcs:
                    p_ = parent(x)
                    if isinstance(x.ctx, (ast.Store, ast.Del)):
                        hit = x.attr
                    elif isinstance(p_, ast.Subscript) and isinstance(p_.ctx, ast.Del):
                        hit = x.attr
                    elif isinstance(p_, ast.Attribute) and isinstance(parent(p_), ast.Call) and parent(p_).func is p_ \
                            and p_.attr in ('pop', 'remove', 'clear', 'append', 'extend', 'insert'):
                        hit = x.attr
            if hit is None:
                continue
            recomputed = any(isinstance(z, ast.Assign) and any(isinstance(t, ast.Attribute) and src(t) == 'self.' + A for t in z.targets)
                             for z in flat[flat.index(later):])
            if not recomputed:
                findings.append(('G14', s, '`%s` stores a size derived from self.%s, and a later statement of the same method (`%s`) rewrites '
                                           'self.%s without recomputing self.%s: the stored size describes the container as it was before'
                                 % (src(s)[:70], hit, src(later).split('\n')[0][:60], hit, A)))
            break
    return findings


def g2c_early_return_memo(fn):
    """`if self.X is not None: return self.X` ... `self.X = value` where the value depends on a parameter of the method:
    the first call fixes what every later call returns, whatever its arguments."""
    findings = []
    params = {a.arg for a in fn.args.args[1:] + fn.args.kwonlyargs}
    if not params:
        return findings
    for iff in [n for n in own_nodes(fn) if isinstance(n, ast.If)]:
        t = iff.test
        attr = None
        if isinstance(t, ast.Compare) and len(t.ops) == 1 and isinstance(t.ops[0], ast.IsNot) and isinstance(t.comparators[0], ast.Constant) \
                and t.comparators[0].value is None and isinstance(t.left, ast.Attribute) and src(t.left.value) == 'self':
            attr = t.left.attr
        elif isinstance(t, ast.Attribute) and src(t.value) == 'self':
            attr = t.attr
        if attr is None or not iff.body or not isinstance(iff.body[-1], ast.Return) or iff.body[-1].value is None \
                or src(iff.body[-1].value) != 'self.' + attr:
            continue
        # the test must not mention a parameter (then it is keyed)
        if any(isinstance(x, ast.Name) and x.id in params for x in ast.walk(t)):
            continue
        stores = [s_ for s_ in own_nodes(fn) if isinstance(s_, ast.Assign) and any(src(x) == 'self.' + attr for x in s_.targets)]
        for st in stores:
            deps = set()
            todo = [st.value]
            seen = set()
            while todo:
                e = todo.pop()
                for x in ast.walk(e):
                    if isinstance(x, ast.Name) and x.id not in seen:
                        seen.add(x.id)
                        if x.id in params:
                            deps.add(x.id)
                        for d in own_nodes(fn):
                            if isinstance(d, ast.Assign) and any(isinstance(tg, ast.Name) and tg.id == x.id for tg in d.targets):
                                todo.append(d.value)
            if deps:
                findings.append(('G2', st, 'the result is memoised in self.%s without a key (`%s`), but the stored value depends on the argument(s) %s: '
                                           'the first call fixes what all later calls return, whatever they pass'
                                 % (attr, src(iff).split('\n')[0][:60], ', '.join(sorted(deps)))))
                break
    return findings


def g17_late_binding_closure(fn):
    """A lambda / nested function created inside a loop that reads a variable assigned in that loop, and is kept for later
    (stored in a container, a tuple that is appended, or a variable used after the loop): all closures see the LAST value."""
    findings = []
    for loop in [n for n in own_nodes(fn) if isinstance(n, (ast.For, ast.While))]:
        assigned = set()
        for s_ in ast.walk(loop):
            if isinstance(s_, ast.Assign):
                for t in s_.targets:
                    for x in ast.walk(t):
                        if isinstance(x, ast.Name):
                            assigned.add(x.id)
        if isinstance(loop, ast.For):
            for x in ast.walk(loop.target):
                if isinstance(x, ast.Name):
                    assigned.add(x.id)
        for lam in [n for n in ast.walk(loop) if isinstance(n, (ast.Lambda, ast.FunctionDef)) and n is not loop]:
            if isinstance(lam, ast.Lambda):
                own = {a.arg for a in lam.args.args + lam.args.kwonlyargs} | ({lam.args.vararg.arg} if lam.args.vararg else set())
                defaults = lam.args.defaults + [d for d in lam.args.kw_defaults if d is not None]
                body = lam.body
                reads = {x.id for x in ast.walk(body) if isinstance(x, ast.Name)} - own
            else:
                own = {a.arg for a in lam.args.args + lam.args.kwonlyargs} | {x.id for x in ast.walk(lam) if isinstance(x, ast.Name) and isinstance(x.ctx, ast.Store)}
                reads = {x.id for st in lam.body for x in ast.walk(st) if isinstance(x, ast.Name) and isinstance(x.ctx, ast.Load)} - own
            captured = reads & assigned
            if not captured:
                continue
            # kept for later: the closure (or a name bound to it) flows into an append / a container / a yield, and is not
            # called within the same iteration only
            holder = parent(lam)
            kept = False
            name = None
            if isinstance(holder, ast.Assign) and len(holder.targets) == 1 and isinstance(holder.targets[0], ast.Name):
                name = holder.targets[0].id
            elif isinstance(lam, ast.FunctionDef):
                name = lam.name
            for c in ast.walk(loop):
                if isinstance(c, ast.Call) and isinstance(c.func, ast.Attribute) and c.func.attr in ('append', 'extend', 'add', 'insert', 'setdefault'):
                    if any(x is lam for a in c.args for x in ast.walk(a)) or \
                            (name and any(isinstance(x, ast.Name) and x.id == name for a in c.args for x in ast.walk(a))):
                        kept = True
                if isinstance(c, ast.Assign) and isinstance(c.targets[0], ast.Subscript) and \
                        (any(x is lam for x in ast.walk(c.value)) or (name and any(isinstance(x, ast.Name) and x.id == name for x in ast.walk(c.value)))):
                    kept = True
                if isinstance(c, (ast.Yield,)) and c.value is not None and \
                        (any(x is lam for x in ast.walk(c.value)) or (name and any(isinstance(x, ast.Name) and x.id == name for x in ast.walk(c.value)))):
                    kept = True
            if kept:
                findings.append(('G17', lam, 'the closure `%s` is created in a loop, reads `%s` (assigned anew in every iteration) and is kept for use after '
                                             'the iteration: when it is finally called, every such closure sees the value of the LAST iteration'
                                 % (src(lam)[:50], ', '.join(sorted(captured)))))
    return findings


def g18_mutated_while_iterated(fn):
    """A list is shortened or extended (remove / pop / append / insert / del x[i] / clear) inside a `for` loop that iterates over
    the SAME list object -- directly or through a plain alias `y = x` -- : the iteration skips or repeats elements.  (Iterating
    over a copy -- list(x), x[:], sorted(x) -- is the repair and is not reported.)"""
    findings = []
    alias = {}
    for s in own_nodes(fn):
        if isinstance(s, ast.Assign) and len(s.targets) == 1 and isinstance(s.targets[0], ast.Name) and isinstance(s.value, ast.Name):
            alias[s.targets[0].id] = s.value.id

    def root(n):
        seen = set()
        while n in alias and n not in seen:
            seen.add(n)
            n = alias[n]
        return n
    # a name that is rebound in more than one place is not a stable alias
    binds = {}
    for s in own_nodes(fn):
        if isinstance(s, ast.Name) and isinstance(s.ctx, ast.Store):
            binds[s.id] = binds.get(s.id, 0) + 1
    for loop in [l for l in own_nodes(fn) if isinstance(l, ast.For) and isinstance(l.iter, ast.Name)]:
        it = loop.iter.id
        if binds.get(it, 0) > 1:
            continue
        for c in ast.walk(ast.Module(loop.body, [])):
            tgt = None
            if isinstance(c, ast.Call) and isinstance(c.func, ast.Attribute) and isinstance(c.func.value, ast.Name) \
                    and c.func.attr in ('remove', 'pop', 'append', 'insert', 'clear', 'extend'):
                tgt = c.func.value.id
            elif isinstance(c, ast.Delete):
                for t in c.targets:
                    if isinstance(t, ast.Subscript) and isinstance(t.value, ast.Name):
                        tgt = t.value.id
            if tgt is None or binds.get(tgt, 0) > 1:
                continue
            if root(tgt) == root(it) and (tgt == it or tgt in alias or it in alias):
                # the mutation must be able to happen while the loop goes on (not followed by an unconditional exit of THIS loop)
                findings.append(('G18', c, '`%s` is modified inside the loop `for %s in %s`%s: the loop runs over the list object that is being '
                                           'changed, so elements are skipped (after a removal) or visited again'
                                 % (src(c)[:60], src(loop.target), it, '' if tgt == it else ' (`%s` and `%s` are the same list: `%s = %s`)' % (
                                     tgt, it, tgt if tgt in alias else it, alias.get(tgt, alias.get(it))))))
                break
    return findings


def g19_stale_after_handler(fn):
    """try: x = f() ... except E: <handler that neither binds x nor leaves> ; <statements reading x>: after the handler the
    statements run with the x of an EARLIER iteration (or with none at all)."""
    findings = []
    for t in [n for n in own_nodes(fn) if isinstance(n, ast.Try)]:
        if t.finalbody or not t.handlers:
            continue
        bound = set()
        for s in t.body:
            for x in ast.walk(s):
                if isinstance(x, ast.Name) and isinstance(x.ctx, ast.Store):
                    bound.add(x.id)
        if not bound:
            continue
        par = parent(t)
        blk = None
        for fld in ('body', 'orelse', 'finalbody'):
            b = getattr(par, fld, None)
            if isinstance(b, list) and t in b:
                blk = b
        if blk is None:
            continue
        after = blk[blk.index(t) + 1:]
        if not after:
            continue
        for h in t.handlers:
            if guards.always_exits(h.body):
                continue
            hb = {x.id for s in h.body for x in ast.walk(s) if isinstance(x, ast.Name) and isinstance(x.ctx, ast.Store)}
            # names bound before the try statement in the same function scope with a value that is meaningful as a fallback
            pre = set()
            for s in guards.preceding_statements(t):
                for x in ast.walk(s):
                    if isinstance(x, ast.Name) and isinstance(x.ctx, ast.Store):
                        pre.add(x.id)
            missing = bound - hb - pre
            if not missing:
                continue
            for s in after:
                reads = [x for x in ast.walk(s) if isinstance(x, ast.Name) and isinstance(x.ctx, ast.Load) and x.id in missing]
                if reads:
                    findings.append(('G19', reads[0], '`%s` is bound only inside the try block; the handler `except %s` neither binds it nor leaves, so '
                                                      'after a caught exception the statements after the try statement read the value of an earlier '
                                                      'iteration (a step that was never computed is tested and accepted) or raise UnboundLocalError'
                                     % (reads[0].id, src(h.type) if h.type is not None else '')))
                    break
                if any(isinstance(x, ast.Name) and isinstance(x.ctx, ast.Store) and x.id in missing for x in ast.walk(s)):
                    missing = missing - {x.id for x in ast.walk(s) if isinstance(x, ast.Name) and isinstance(x.ctx, ast.Store)}
            else:
                continue
            break
    return findings


_SYMMETRIC_BINARY = {'np.maximum', 'np.minimum', 'max', 'min', 'np.fmax', 'np.fmin', 'np.hypot', 'np.allclose', 'np.isclose', 'np.array_equal',
                     'np.logical_and', 'np.logical_or', 'np.logical_xor', 'np.dot', 'np.inner', 'np.outer', 'np.kron', 'np.cross', 'np.lexsort'}


def g20_same_argument_twice(fn):
    """max(a, a), np.maximum(x, x), np.allclose(u, u): a two-argument combination of an expression with itself -- the second
    operand of a symmetric formula was meant to be the OTHER object."""
    findings = []
    for c in own_nodes(fn):
        if isinstance(c, ast.Call) and len(c.args) >= 2 and (call_name(c) or '') in ('np.maximum', 'np.minimum', 'max', 'min', 'np.fmax', 'np.fmin',
                                                                                  'np.hypot', 'np.allclose', 'np.isclose', 'np.array_equal'):
            a, b = c.args[0], c.args[1]
            if len(c.args) == 2 and ast.dump(a) == ast.dump(b) and not isinstance(a, ast.Constant) \
                    and not any(isinstance(x, ast.Call) and (call_name(x) or '').split('.')[-1] in ('rand', 'random', 'randn', 'next') for x in ast.walk(a)):
                findings.append(('G20', c, '`%s` combines `%s` with itself: the result is just that operand, the other object of the symmetric '
                                           'formula never enters' % (src(c)[:80], src(a)[:40])))
    return findings


def g21_wraparound_at_first_iteration(fn):
    """for i in range(n): ... x[i-1] = ... : at i = 0 the store goes to x[-1], the LAST element (no IndexError), unless the
    loop starts at 1 or the store is guarded by i > 0."""
    findings = []
    for loop in [l for l in own_nodes(fn) if isinstance(l, ast.For) and isinstance(l.target, ast.Name) and isinstance(l.iter, ast.Call)
                 and isinstance(l.iter.func, ast.Name) and l.iter.func.id == 'range']:
        a = loop.iter.args
        if len(a) == 1 or (len(a) >= 2 and isinstance(a[0], ast.Constant) and a[0].value == 0 and (len(a) == 2 or (
                isinstance(a[2], ast.Constant) and isinstance(a[2].value, int) and a[2].value > 0))):
            v = loop.target.id
        else:
            continue
        for st in ast.walk(ast.Module(loop.body, [])):
            tgts = []
            if isinstance(st, ast.Assign):
                tgts = st.targets
            elif isinstance(st, ast.AugAssign):
                tgts = [st.target]
            for t in tgts:
                if not (isinstance(t, ast.Subscript) and isinstance(t.slice, ast.BinOp) and isinstance(t.slice.op, ast.Sub)
                        and isinstance(t.slice.left, ast.Name) and t.slice.left.id == v and isinstance(t.slice.right, ast.Constant)
                        and isinstance(t.slice.right.value, int) and t.slice.right.value >= 1):
                    continue
                if nearest_for(st, fn) is not loop:
                    continue
                facts = guards.path_conditions(st, stop=loop)
                guarded = any(v in {x.id for x in ast.walk(nd) if isinstance(x, ast.Name)} for (_t, _p, nd) in facts)
                if guarded:
                    continue
                findings.append(('G21', st, 'in the first iteration (%s = 0) `%s` writes element -%d, i.e. counts from the END of the sequence: for a '
                                            'sequence of length 1 (or whenever the last slot matters) the store overwrites live data instead of '
                                            'the previous slot' % (v, src(t)[:50], t.slice.right.value)))
    return findings


def nearest_for(node, fn):
    p = parent(node)
    while p is not None and p is not fn:
        if isinstance(p, (ast.For, ast.While)):
            return p
        p = parent(p)
    return None


def g2d_order_destroying_key(fn):
    """A lookup key (used in `k in D`, `D[k]`, `D.get(k)`) built from several parameters through an order- or sign-destroying
    call (sorted / set / frozenset / min / max / abs), while the function reads those parameters individually elsewhere: two
    requests that differ in the order of the arguments share one entry although the computed value depends on the order."""
    findings = []
    params = {a.arg for a in fn.args.posonlyargs + fn.args.args + fn.args.kwonlyargs} - {'self', 'cls'}
    LOSSY = {'sorted', 'set', 'frozenset'}
    for st in own_nodes(fn):
        if not (isinstance(st, ast.Assign) and len(st.targets) == 1 and isinstance(st.targets[0], ast.Name)):
            continue
        k = st.targets[0].id
        lossy = [c for c in ast.walk(st.value) if isinstance(c, ast.Call) and isinstance(c.func, ast.Name) and c.func.id in LOSSY]
        for c in lossy:
            inside = {n.id for a in c.args for n in ast.walk(a) if isinstance(n, ast.Name)} & params
            if len(inside) < 2:
                continue
            # k is a lookup key
            used_as_key = False
            for n in own_nodes(fn):
                if isinstance(n, ast.Compare) and isinstance(n.left, ast.Name) and n.left.id == k and any(isinstance(o, (ast.In, ast.NotIn)) for o in n.ops):
                    used_as_key = True
                if isinstance(n, ast.Subscript) and isinstance(n.slice, ast.Name) and n.slice.id == k:
                    used_as_key = True
                if isinstance(n, ast.Call) and isinstance(n.func, ast.Attribute) and n.func.attr in ('get', 'setdefault', 'pop') and n.args \
                        and isinstance(n.args[0], ast.Name) and n.args[0].id == k:
                    used_as_key = True
            if not used_as_key:
                continue
            # the parameters are read individually outside the key expression (positionally distinct uses)
            key_nodes = {id(x) for x in ast.walk(st.value)}
            outside = {n.id for n in own_nodes(fn) if isinstance(n, ast.Name) and isinstance(n.ctx, ast.Load) and n.id in inside and id(n) not in key_nodes}
            if len(outside) >= 2:
                findings.append(('G2', st, 'the lookup key `%s` is built with %s(...) over the parameters %s, which discards their order, while the value is '
                                           'computed from them individually: requests that are permutations of each other are served one entry'
                                 % (k, c.func.id, ', '.join(sorted(inside)))))
    return findings


def g22_sum_as_zero_test(fn):
    """`if np.sum(x) != 0:` / `if x.sum():` guarding a computation that uses x: the SUM of a sign-indefinite array is zero for
    (2, -0.5, -1.5) too -- an all-zero test needs np.any / count_nonzero.  Only reported when the guarded block (or the code
    skipped by an early exit) uses the array in arithmetic."""
    findings = []

    def summed(e):
        """array expression x if e is np.sum(x) / x.sum() / sum(x)"""
        if isinstance(e, ast.Call):
            n = src(e.func)
            if n in ('np.sum', 'numpy.sum', 'sum') and len(e.args) == 1 and not e.keywords:
                return e.args[0]
            if isinstance(e.func, ast.Attribute) and e.func.attr == 'sum' and not e.args and not e.keywords:
                return e.func.value
        return None

    def zero_test(t):
        if isinstance(t, ast.UnaryOp) and isinstance(t.op, ast.Not):
            return zero_test(t.operand) or summed(t.operand)
        if isinstance(t, ast.Compare) and len(t.ops) == 1 and isinstance(t.ops[0], (ast.Eq, ast.NotEq)):
            for a, b in ((t.left, t.comparators[0]), (t.comparators[0], t.left)):
                if isinstance(b, ast.Constant) and b.value in (0, 0.0) and not isinstance(b.value, bool):
                    x = summed(a)
                    if x is not None:
                        return x
        return None
    for iff in [n for n in own_nodes(fn) if isinstance(n, ast.If)]:
        x = zero_test(iff.test)
        if x is None or not isinstance(x, ast.Name):
            continue
        # counts (len(...), comparisons, boolean masks) summed are non-negative: only arrays of values matter.  Evidence that x holds
        # signed values: it is used as an operand of arithmetic / dot products in the guarded code
        body = list(iff.body) + list(iff.orelse)
        arith = False
        for b in body:
            for n in ast.walk(b):
                if isinstance(n, ast.BinOp) and any(isinstance(m, ast.Name) and m.id == x.id for m in ast.walk(n)):
                    arith = True
                if isinstance(n, ast.Call) and isinstance(n.func, ast.Attribute) and n.func.attr in ('dot', 'matvec') \
                        and any(isinstance(m, ast.Name) and m.id == x.id for a in n.args for m in ast.walk(a)):
                    arith = True
        if arith:
            findings.append(('G22', iff, '`%s` tests the SUM of `%s` against zero and the guarded code computes with `%s`: values of both signs that cancel '
                                         '(1 and -1) pass for "all zero" and their contribution is skipped; an all-zero test is np.any(%s)'
                             % (src(iff.test)[:60], x.id, x.id, x.id)))
    return findings


def g23_setdefault_as_store(fn):
    """`D.setdefault(k, V)` as a statement with a computed V (not an empty container / literal): when k is already present V is
    silently dropped -- an update (`D[k] = D.get(k, E) | V`) written as an initialisation."""
    findings = []
    params = {a.arg for a in fn.args.posonlyargs + fn.args.args + fn.args.kwonlyargs}
    if fn.args.kwarg:
        kw = fn.args.kwarg.arg
    else:
        kw = None
    for st in own_nodes(fn):
        if not (isinstance(st, ast.Expr) and isinstance(st.value, ast.Call) and isinstance(st.value.func, ast.Attribute) and st.value.func.attr == 'setdefault'):
            continue
        c = st.value
        if len(c.args) != 2:
            continue
        recv = c.func.value
        if isinstance(recv, ast.Name) and recv.id == kw:
            continue            # defaults for **kwargs: the documented use
        v = c.args[1]
        if isinstance(v, ast.Constant) or (isinstance(v, (ast.List, ast.Dict, ast.Set, ast.Tuple)) and not getattr(v, 'elts', getattr(v, 'keys', []))) \
                or (isinstance(v, ast.Call) and isinstance(v.func, ast.Name) and v.func.id in ('list', 'dict', 'set', 'tuple') and not v.args):
            continue
        # V is a value computed in this function (a local that is not a parameter default)
        names = {n.id for n in ast.walk(v) if isinstance(n, ast.Name)}
        if not names:
            continue
        findings.append(('G23', st, '`%s` stores `%s` only if the key is absent and its result is discarded: when `%s` already has the key the newly '
                                    'computed value is dropped without a trace (lost update)' % (src(c)[:70], src(v)[:40], src(recv)[:30])))
    return findings


def g8_meshgrid_indexing(fn):
    """np.meshgrid defaults to indexing='xy', which swaps the first two axes.  pyiga enumerates tensor-product indices in C
    order (first axis slowest) everywhere -- np.unravel_index, itertools.product, ravel() of coefficient arrays -- so a
    Cartesian product built with the default indexing is transposed against everything it is paired with as soon as both
    of the first two axes have more than one entry."""
    findings = []
    for c in own_nodes(fn):
        if isinstance(c, ast.Call) and (call_name(c) or '') in ('np.meshgrid', 'numpy.meshgrid'):
            ix = [kw.value for kw in c.keywords if kw.arg == 'indexing']
            if not ix or not (isinstance(ix[0], ast.Constant) and ix[0].value == 'ij'):
                n_in = len(c.args) + (2 if any(isinstance(a, ast.Starred) for a in c.args) else 0)
                if n_in >= 2:
                    findings.append(('G8', c, '`%s` uses the default indexing=\'xy\': the first two axes of the product are swapped relative to the C-order '
                                              '(\'ij\') enumeration used by itertools.product / ravel() / unravel_index throughout the package' % src(c)[:70]))
    return findings


def g9_optional_number_tested_by_truth(fn):
    """A parameter with default None that is used as a number (an index or an operand of arithmetic) is tested by its truth
    value: 0 is a valid number but falsy, so the call with 0 takes the `not given` branch."""
    findings = []
    args = fn.args.args
    defaults = fn.args.defaults
    opt = set()
    for a, d in zip(args[len(args) - len(defaults):], defaults):
        if isinstance(d, ast.Constant) and d.value is None:
            opt.add(a.arg)
    for a, d in zip(fn.args.kwonlyargs, fn.args.kw_defaults):
        if d is not None and isinstance(d, ast.Constant) and d.value is None:
            opt.add(a.arg)
    if not opt:
        return findings
    numeric = set()
    for n in ast.walk(fn):
        if isinstance(n, ast.Subscript):
            sl = n.slice
            for x in ast.walk(sl):
                if isinstance(x, ast.Name) and x.id in opt:
                    numeric.add(x.id)
        if isinstance(n, ast.BinOp) and isinstance(n.op, (ast.Add, ast.Sub, ast.Mult, ast.Div, ast.FloorDiv, ast.Mod, ast.Pow)):
            for side in (n.left, n.right):
                if isinstance(side, ast.Name) and side.id in opt:
                    numeric.add(side.id)
    reassigned = {t.id for s in ast.walk(fn) if isinstance(s, ast.Assign) for t in s.targets if isinstance(t, ast.Name)}
    for n in own_nodes(fn):
        test = None
        if isinstance(n, (ast.If, ast.While, ast.IfExp)):
            test = n.test
        if test is None:
            continue
        lits = guards.literals(test, True) + guards.literals(test, False)
        for (_t, _p, lit) in lits:
            if isinstance(lit, ast.Name) and lit.id in (numeric - reassigned):
                findings.append(('G9', n, 'the optional parameter `%s` (default None) is used as a number but tested by its truth value in `%s`: the '
                                          'valid value 0 is falsy and takes the branch meant for "not given"' % (lit.id, src(test)[:60])))
                break
    return findings


def g10_optional_flag_defaulted_by_or(fn, explicit_false_names):
    """`p = p or default` (or `p or default` used in place of p) for an optional parameter p=None whose explicit falsy value
    is meaningful -- somewhere in the package the option is passed as p=False / p=0: the explicit False is replaced by the
    default."""
    findings = []
    args = fn.args.args
    defaults = fn.args.defaults
    opt = set()
    for a, d in zip(args[len(args) - len(defaults):], defaults):
        if isinstance(d, ast.Constant) and d.value is None:
            opt.add(a.arg)
    for n in own_nodes(fn):
        if isinstance(n, ast.BoolOp) and isinstance(n.op, ast.Or) and isinstance(n.values[0], ast.Name) and n.values[0].id in opt \
                and n.values[0].id in explicit_false_names:
            p = n.values[0].id
            findings.append(('G10', n, '`%s` replaces an explicit falsy `%s` by the fallback, but the option is passed as %s=False elsewhere in the '
                                       'package (it is a tri-state: None = use the default, False = off): an explicit False silently becomes the default'
                             % (src(n)[:60], p, p)))
    return findings


def explicit_false_options(prog):
    """names of keyword arguments that are passed an explicit False / 0 somewhere in the package"""
    out = set()
    for u in prog.units.values():
        if not u.modname.startswith('pyiga'):
            continue
        for c in ast.walk(u.tree):
            if isinstance(c, ast.Call):
                for kw in c.keywords:
                    if kw.arg and isinstance(kw.value, ast.Constant) and (kw.value.value is False or (kw.value.value == 0 and not isinstance(kw.value.value, bool))):
                        out.add(kw.arg)
    return out


TOLERANT_EQ_NAMES = {
    # class with a tolerance-based __eq__ (np.allclose) -> the names its instances carry throughout pyiga (confirmed by reading)
    'KnotVector': ('kv', 'kv1', 'kv2', 'knotvec', 'knotvector', 'kvs'),
}


def tolerant_eq_classes(prog):
    out = set()
    for q, c in prog.classes.items():
        m = c.methods.get('__eq__')
        if m is not None and any(isinstance(x, ast.Call) and (call_name(x) or '').split('.')[-1] in ('allclose', 'isclose') for x in ast.walk(m.node)):
            out.add(c.name)
    return out


def g7_memo_hit_by_tolerant_equality(fn, module_tree, tolerant):
    """A result is served from a module-level container when `stored == argument`, and the argument is an instance of a
    class whose __eq__ is a tolerance test: "equal" arguments that differ within the tolerance get each other's results."""
    findings = []
    containers = set()
    for s in module_tree.body:
        if isinstance(s, ast.Assign) and isinstance(s.value, (ast.List, ast.Dict)) or \
                (isinstance(s, ast.Assign) and isinstance(s.value, ast.Call) and (call_name(s.value) or '') in ('list', 'dict', 'OrderedDict', 'collections.OrderedDict', 'collections.deque', 'deque')):
            for t in s.targets:
                if isinstance(t, ast.Name):
                    containers.add(t.id)
    if not containers:
        return findings
    names = set()
    for cname in tolerant:
        names |= set(TOLERANT_EQ_NAMES.get(cname, ()))
    params = {a.arg for a in fn.args.args}
    for loop in [l for l in own_nodes(fn) if isinstance(l, ast.For)]:
        if not (isinstance(loop.iter, ast.Name) and loop.iter.id in containers):
            continue
        targets = _names(loop.target, load_only=False)
        for iff in [n for n in ast.walk(loop) if isinstance(n, ast.If)]:
            if not any(isinstance(r, ast.Return) and r.value is not None and (_names(r.value) & targets) for r in ast.walk(iff)):
                continue
            for cmp_ in [c for c in ast.walk(iff.test) if isinstance(c, ast.Compare) and len(c.ops) == 1 and isinstance(c.ops[0], ast.Eq)]:
                sides = [cmp_.left, cmp_.comparators[0]]
                ids = [s.id for s in sides if isinstance(s, ast.Name)]
                if len(ids) == 2 and (set(ids) & targets) and (set(ids) & params & names):
                    p = sorted(set(ids) & params & names)[0]
                    findings.append(('G7', cmp_, 'results are served from the module-level container %s when `%s`; `%s` is a %s, whose __eq__ is a tolerance '
                                                 'test (np.allclose): an argument that differs from an earlier one within the tolerance receives the result '
                                                 'computed for the earlier one' % (loop.iter.id, src(cmp_), p, sorted(tolerant)[0])))
    return findings


def run(ctx, rule):
    """Apply the detectors to every function (and class) in the property's scope (reference/scope.json)."""
    import fnmatch
    import json
    import os
    here = os.path.dirname(os.path.dirname(os.path.abspath(__file__)))
    scope = json.load(open(os.path.join(here, 'reference', 'scope.json'))).get(ctx.prop)
    if not scope:
        return
    n = sites = 0
    classes = set()
    tolerant = tolerant_eq_classes(ctx.prog)
    falsy_opts = explicit_false_options(ctx.prog)
    for q, f in sorted(ctx.prog.functions.items()):
        if not any(fnmatch.fnmatchcase(q, pat) for pat in scope):
            continue
        n += 1
        for kind, node, msg in g10_optional_flag_defaulted_by_or(f.node, falsy_opts):
            ctx.violated(rule, f.qual, '%s optional argument: %s' % (kind, src(node)[:80]), node, msg)
        if tolerant and f.unit.lang == 'py':
            for kind, node, msg in g7_memo_hit_by_tolerant_equality(f.node, f.unit.tree, tolerant):
                ctx.violated(rule, f.qual, '%s memo discipline: %s' % (kind, src(node)[:80]), node, msg)
        sites += len(memo_sites(f.node))
        if f.cls is not None:
            classes.add(f.cls.qual)
        for det in (g1_stale_after_miss, g2_underkeyed, g2b_projection_key, g4_rebound_parameter_forwarded, g6_error_by_difference_of_squares,
                    g8_meshgrid_indexing, g9_optional_number_tested_by_truth, g11_linear_level_factor, g12_triangular_sum_of_asymmetric_summand,
                    g13_negated_degree_slice, g14_derived_value_cached_before_source_changes, g2c_early_return_memo, g17_late_binding_closure,
                    g18_mutated_while_iterated, g19_stale_after_handler, g20_same_argument_twice, g21_wraparound_at_first_iteration,
                    g2d_order_destroying_key, g22_sum_as_zero_test, g23_setdefault_as_store):
            for kind, node, msg in det(f.node):
                what = {'G4': 'option forwarding', 'G6': 'error estimate', 'G8': 'index order', 'G9': 'optional argument', 'G11': 'dyadic scaling',
                        'G12': 'symmetric summation', 'G13': 'degree-0 slice', 'G14': 'stale derived value', 'G17': 'late-binding closure',
                        'G18': 'list changed while iterated', 'G19': 'stale value after a caught exception', 'G20': 'operand combined with itself',
                        'G21': 'negative index at the first iteration', 'G22': 'sum used as an all-zero test', 'G23': 'setdefault used as a store'}.get(kind, 'memo discipline')
                ctx.violated(rule, f.qual, '%s %s: %s' % (kind, what, src(node)[:80]), node, msg)
    for cq in sorted(classes):
        c = ctx.prog.classes.get(cq)
        if c is None:
            continue
        for kind, node, msg in g3_uninvalidated(c):
            ctx.violated(rule, cq, '%s memo discipline: %s' % (kind, src(node)[:80]), node, msg)
        for kind, node, msg in g5_configuration_inherited(c):
            ctx.violated(rule, cq, '%s configuration inherited: %s' % (kind, src(node)[:80]), node, msg)
    ctx.met(rule, ctx.prop + ' scope', 'memo discipline: %d functions, %d memo sites, %d classes examined' % (n, sites, len(classes)), None,
            'no stale-after-miss use, no under-keyed memo, no persistent memo that a state writer forgets to reset', where='-', nontrivial=sites > 0)

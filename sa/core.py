"""Check driver: obligations, verdicts, evidence, known findings, exit codes."""
import ast
import hashlib
import json
import os
import re
import sys
import time
import traceback

from .program import Program, AnchorMissing, loc, src

VERIF = os.path.dirname(os.path.dirname(os.path.abspath(__file__)))

MET, VIOLATED, UNDECIDED, NOTE = 'met', 'violated', 'undecided', 'note'


class Obligation:
    __slots__ = ('rule', 'construct', 'statement', 'verdict', 'where', 'reason', 'nontrivial')

    def __init__(self, rule, construct, statement, verdict, where, reason='', nontrivial=True):
        self.rule = rule
        self.construct = construct          # qualified construct (function, class, table entry)
        self.statement = statement          # normalised statement / expression the verdict is about
        self.verdict = verdict
        self.where = where                  # file:line (diagnostic only, never a key)
        self.reason = reason
        self.nontrivial = nontrivial

    def key(self):
        return (self.rule, self.construct, self.statement)

    def as_dict(self):
        return dict(rule=self.rule, construct=self.construct, statement=self.statement,
                    verdict=self.verdict, where=self.where, reason=self.reason)


class Ctx:
    """Handed to every rule module: the program plus a sink for obligations."""

    def __init__(self, prop, prog, tier):
        self.prop = prop
        self.prog = prog
        self.tier = tier
        self.obligations = []
        self.notes = []
        self.analysed = {}
        self.floors = []       # (rule, what, count, floor)

    def ob(self, rule, construct, statement, verdict, node=None, reason='', where=None, nontrivial=True):
        if where is None:
            where = loc(node) if node is not None else '?'
        if not isinstance(statement, str):
            statement = src(statement)
        o = Obligation(rule, construct, statement, verdict, where, reason, nontrivial)
        self.obligations.append(o)
        return o

    def met(self, rule, construct, statement, node=None, reason='', **kw):
        return self.ob(rule, construct, statement, MET, node, reason, **kw)

    def violated(self, rule, construct, statement, node=None, reason='', **kw):
        return self.ob(rule, construct, statement, VIOLATED, node, reason, **kw)

    def undecided(self, rule, construct, statement, node=None, reason='', **kw):
        return self.ob(rule, construct, statement, UNDECIDED, node, reason, **kw)

    def decide(self, rule, construct, statement, ok, node=None, reason='', definite=False, **kw):
        """ok: True -> met, None -> undecided.  ok False -> violated ONLY with ``definite=True``,
        i.e. when the caller's test is semantic (a table entry missing, an evaluated index, a normal-form
        identity, an order tag, ...).  A failed comparison of normalised source text is not a witness of
        a defect -- the construct may just be written differently -- so it yields ``undecided``."""
        if not isinstance(statement, str):
            statement = src(statement)
        if ok is None:
            v = UNDECIDED
        elif bool(ok):
            v = MET
        else:
            if not definite:
                from .definite import is_definite
                definite = is_definite(rule, statement)
            v = VIOLATED if definite else UNDECIDED
            if not definite and reason:
                reason = 'not in a recognised form: ' + reason
        return self.ob(rule, construct, statement, v, node, reason, **kw)

    def formula(self, rule, construct, expr, expected_src, node=None, reason='', label=None):
        """Semantic comparison of an arithmetic expression with an expected formula (both brought to a
        rational normal form over their leaf expressions).  Equal -> met; different while built from the
        same leaves -> violated (a definite witness: same operands, different function); different leaves
        or non-arithmetic -> undecided."""
        from . import poly
        import ast as _ast
        st = label or src(expr)
        try:
            got = poly.from_ast(expr) if isinstance(expr, _ast.AST) else poly.from_ast(_ast.parse(expr, mode='eval').body)
            want = poly.from_ast(_ast.parse(expected_src, mode='eval').body)
        except (poly.NotPolynomial, SyntaxError, ZeroDivisionError):
            return self.ob(rule, construct, st, UNDECIDED, node, 'not an arithmetic expression: ' + reason)
        if got == want:
            return self.ob(rule, construct, st, MET, node, reason)
        gs = got.n.symbols() | got.d.symbols()
        ws = want.n.symbols() | want.d.symbols()
        if gs <= ws:
            return self.ob(rule, construct, st, VIOLATED, node, reason + ' -- expected ' + expected_src)
        return self.ob(rule, construct, st, UNDECIDED, node, 'built from other operands than ' + expected_src + ': ' + reason)

    def expect(self, rule, construct, observed, expected_src, node=None, reason='', label=None, mutations=None):
        """Compare an expression with the expected one modulo equivalences (sa/treecmp.py): equal -> met; exactly one
        semantic mutation away (swapped operands/arguments/subscripts, changed constant, flipped sign or comparison,
        +-1 offset, dropped keyword) -> violated, naming the mutation; anything else -> undecided."""
        from . import treecmp
        st = label or (src(observed) if not isinstance(observed, str) else observed)
        try:
            verdict, what = treecmp.compare(observed, expected_src, mutations)
        except RecursionError:
            verdict, what = 'different', None
        if verdict == 'equal':
            return self.ob(rule, construct, st, MET, node, reason)
        if verdict == 'mutation':
            got = src(observed) if not isinstance(observed, str) else observed
            return self.ob(rule, construct, st, VIOLATED, node, '%s -- %s: `%s` where `%s` is required' % (reason, what, got[:120], expected_src[:120]))
        return self.ob(rule, construct, st, UNDECIDED, node, 'not in a recognised form (expected `%s`): %s' % (expected_src[:100], reason))

    def expect_assign(self, rule, fi, target, expected_src, reason='', label=None, mutations=None, which=None):
        """The assignment(s) to ``target`` (source text of the target) in function ``fi`` must have the expected value."""
        from .program import own_nodes
        cands = [s for s in own_nodes(fi.node) if isinstance(s, (ast.Assign, ast.AugAssign, ast.AnnAssign))
                 and any(src(t).replace(' ', '') == target.replace(' ', '') for t in (s.targets if isinstance(s, ast.Assign) else [s.target]))]
        if which is not None:
            cands = [c for c in cands if which(c)]
        lab = label or ('%s = %s' % (target, expected_src))
        if not cands:
            return self.ob(rule, fi.qual, lab, UNDECIDED, fi.node, 'no assignment to %s found: %s' % (target, reason))
        from . import treecmp
        for c in cands:
            if treecmp.compare(c.value, expected_src)[0] == 'equal':
                return self.ob(rule, fi.qual, lab, MET, c, reason)
        return self.expect(rule, fi.qual, cands[0].value, expected_src, cands[0], reason, label=lab, mutations=mutations)

    def expect_call(self, rule, fi, callee, expected_src, reason='', label=None, mutations=None, scope=None):
        """A call of ``callee`` (dotted name as written) inside ``fi`` must equal the expected call."""
        from .program import call_name
        cands = [c for c in ast.walk(scope if scope is not None else fi.node) if isinstance(c, ast.Call) and call_name(c) == callee]
        lab = label or expected_src
        if not cands:
            return self.ob(rule, fi.qual, lab, UNDECIDED, fi.node, 'no call of %s found: %s' % (callee, reason))
        from . import treecmp
        for c in cands:
            if treecmp.compare(c, expected_src)[0] == 'equal':
                return self.ob(rule, fi.qual, lab, MET, c, reason)
        return self.expect(rule, fi.qual, cands[0], expected_src, cands[0], reason, label=lab, mutations=mutations)

    def expect_return(self, rule, fi, expected_src, reason='', label=None, mutations=None, index=-1):
        from . import guards
        rets = [r for r in guards.returns_of(fi.node) if r.value is not None]
        lab = label or ('return ' + expected_src)
        if not rets:
            return self.ob(rule, fi.qual, lab, UNDECIDED, fi.node, 'no return value: ' + reason)
        r = rets[index]
        return self.expect(rule, fi.qual, r.value, expected_src, r, reason, label=lab, mutations=mutations)

    def shared(self, func, rule_from, rule_to):
        """Run a rule function of another property and file its obligations under this property's rule id (the same
        construct is a necessary condition of both properties)."""
        before = len(self.obligations)
        func(self)
        for o in self.obligations[before:]:
            if o.rule == rule_from:
                o.rule = rule_to

    def note(self, text):
        self.notes.append(text)

    def floor(self, rule, what, count, floor):
        """A rule that matches fewer instances than it structurally needs is broken."""
        self.floors.append((rule, what, count, floor))
        if count < floor:
            raise AnchorMissing('%s: %s: found %d instance(s), need at least %d' % (rule, what, count, floor))

    def count(self, key, n=1):
        self.analysed[key] = self.analysed.get(key, 0) + n


def load_findings():
    p = os.path.join(VERIF, 'known_findings.json')
    if not os.path.exists(p):
        return {'known': [], 'fixed': []}
    with open(p) as f:
        return json.load(f)


def finding_matches(entry, prop, ob):
    if entry.get('property') != prop:
        return False
    if entry.get('rule') != ob.rule:
        return False
    if entry.get('construct') != ob.construct:
        return False
    st = entry.get('statement')
    if st is not None and st != ob.statement and _shape(st) != _shape(ob.statement):
        return False
    return True


def _shape(text):
    """the statement with its plain local names replaced by placeholders in order of first occurrence: a listed finding is the
    same finding after a consistent renaming of locals (names in call position, attribute and keyword names are kept)"""
    import ast as _ast
    try:
        tree = _ast.parse(text.strip())
    except SyntaxError:
        return text
    funcs = {id(c.func) for c in _ast.walk(tree) if isinstance(c, _ast.Call)}
    names = {}
    for n in _ast.walk(tree):
        pass
    class R(_ast.NodeTransformer):
        def visit_Name(self, n):
            if id(n) in funcs or n.id == 'self':
                return n
            return _ast.copy_location(_ast.Name(id=names.setdefault(n.id, '_%d' % (len(names) + 1)), ctx=n.ctx), n)
    return _ast.unparse(R().visit(tree))


def replay_path(prop, ob):
    h = hashlib.sha1(repr(ob.key()).encode()).hexdigest()[:10]
    safe = re.sub(r'[^A-Za-z0-9_.-]+', '_', '%s_%s' % (ob.rule, ob.construct))[:80]
    d = os.path.join(VERIF, 'replays', prop)
    os.makedirs(d, exist_ok=True)
    return os.path.join(d, '%s_%s.json' % (safe, h))


def _guard_rule_functions():
    """Wrap every rule function r<pp>_<n>(ctx) of every rule module: when the statement form a rule is anchored in is not
    recognised (AnchorMissing, including an instance floor that is not reached) the rule gives no verdict -- one undecided
    obligation -- and the other rules still run.  A module / class / function that no longer exists (ConstructMissing) still
    aborts the analysis with exit 2."""
    import glob
    import importlib
    import functools
    from .program import ConstructMissing
    for path in sorted(glob.glob(os.path.join(VERIF, 'rules', 'C*.py'))):
        m = importlib.import_module('rules.' + os.path.basename(path)[:-3])
        for name in dir(m):
            f = getattr(m, name)
            if not (re.match(r'^r\d+(_\d+)?$', name) and callable(f)) or getattr(f, '_guarded', False):
                continue

            def make(fn, fname, modname):
                @functools.wraps(fn)
                def wrapped(ctx, *a, **kw):
                    try:
                        return fn(ctx, *a, **kw)
                    except ConstructMissing:
                        raise
                    except AnchorMissing as e:
                        rule = kw.get('rule') or ('R%s.%s' % (fname[1:3], fname.split('_')[1] if '_' in fname else '1'))
                        ctx.undecided(rule, '%s.%s' % (modname, fname), 'anchor of the rule', None,
                                      'statement form not recognised, the rule gives no verdict here: %s' % e, where='-')
                        return None
                    except Exception as e:          # the rule's own recogniser met a shape it was not written for
                        rule = kw.get('rule') or ('R%s.%s' % (fname[1:3], fname.split('_')[1] if '_' in fname else '1'))
                        last = traceback.format_exc().strip().splitlines()
                        where_ = [l.strip() for l in last if l.strip().startswith('File "/verif/rules')]
                        ctx.undecided(rule, '%s.%s' % (modname, fname), 'rule aborted', None,
                                      'the rule could not analyse the current form of the code (%s: %s; %s): no verdict from this rule'
                                      % (type(e).__name__, str(e)[:80], where_[-1][:90] if where_ else ''), where='-')
                        ctx.note('rule %s.%s aborted: %s: %s' % (modname, fname, type(e).__name__, str(e)[:120]))
                        return None
                wrapped._guarded = True
                return wrapped
            setattr(m, name, make(f, name, m.__name__))


def run_property(prop, tier='quick', repo=None, write=True, out=sys.stdout, prog=None, extra_coverage=None):
    """Run all rules of one property.  Returns (exit_code, ctx)."""
    t0 = time.time()
    seed = int(os.environ.get('VERIF_SEED', '0') or 0)
    try:
        import importlib
        mod = importlib.import_module('rules.' + prop)
    except ModuleNotFoundError:
        print('ANALYSIS-ERROR property=%s no rule module' % prop, file=out)
        return 2, None
    ctx = None
    try:
        if prog is None:
            prog = Program(repo)
        ctx = Ctx(prop, prog, tier)
        if getattr(prog, 'renamed', None):
            # what sa/alpha.py normalised towards the confirmed reference before the rules ran (spelling only)
            rn = sum(1 for w in prog.renamed.values() if 'renamed' in w)
            il = sum(1 for w in prog.renamed.values() if 'inlined' in w)
            rs = sum(1 for w in prog.renamed.values() if 'respelled' in w)
            ctx.note('read through the reference spelling: %d function(s) differ from reference/functions.json in spelling only '
                     '(locals renamed in %d, new temporaries inlined in %d, equivalent statements respelled in %d): %s'
                     % (len(prog.renamed), rn, il, rs, ', '.join(sorted(prog.renamed)[:8])))
            ctx.analysed['functions_normalised'] = len(prog.renamed)
        _guard_rule_functions()
        mod.run(ctx)
        from . import refdiff
        refdiff.run(ctx, 'R%s.0' % prop[1:])
        from . import patterns
        patterns.run(ctx, 'R%s.G' % prop[1:])
        if tier == 'thorough' and hasattr(mod, 'run_thorough'):
            mod.run_thorough(ctx)
    except AnchorMissing as e:
        print('ANALYSIS-ERROR property=%s anchor: %s' % (prop, e), file=out)
        return 2, ctx
    except Exception:
        tb = traceback.format_exc()
        print('ANALYSIS-ERROR property=%s internal error\n%s' % (prop, tb), file=out)
        return 2, ctx

    findings = load_findings()
    known = findings.get('known', [])
    obs = ctx.obligations
    # de-duplicate identical keys (same construct reached twice)
    seen = {}
    for o in obs:
        k = o.key()
        rank = {MET: 0, UNDECIDED: 1, VIOLATED: 2}
        if k not in seen or rank.get(o.verdict, 0) > rank.get(seen[k].verdict, 0):
            seen[k] = o
    uniq = list(seen.values())
    viol = [o for o in uniq if o.verdict == VIOLATED]
    unlisted, listed = [], []
    for o in viol:
        if any(finding_matches(e, prop, o) for e in known):
            listed.append(o)
        else:
            unlisted.append(o)

    n_met = sum(1 for o in uniq if o.verdict == MET)
    n_und = sum(1 for o in uniq if o.verdict == UNDECIDED)
    rules = sorted({o.rule for o in uniq})
    print('[%s] tier=%s units=%d functions=%d classes=%d rules=%s' % (
        prop, tier, len(prog.units), len(prog.functions), len(prog.classes), ','.join(rules)), file=out)
    per_rule = {}
    for o in uniq:
        d = per_rule.setdefault(o.rule, {MET: 0, VIOLATED: 0, UNDECIDED: 0})
        d[o.verdict] = d.get(o.verdict, 0) + 1
    for r in rules:
        d = per_rule[r]
        print('  %-8s met=%-3d violated=%-3d undecided=%-3d' % (r, d[MET], d[VIOLATED], d[UNDECIDED]), file=out)
    for o in uniq:
        if o.verdict == UNDECIDED:
            print('  UNDECIDED %s %s %s :: %s (%s)' % (o.rule, o.where, o.construct, o.statement, o.reason), file=out)
    for n in ctx.notes:
        print('  NOTE %s' % n, file=out)
    for o in listed:
        print('KNOWN-FINDING: property=%s %s %s at %s: %s -- %s' % (
            prop, o.rule, o.construct, o.where, o.statement, o.reason), file=out)
    for o in unlisted:
        rp = replay_path(prop, o)
        if write:
            with open(rp, 'w') as f:
                json.dump(dict(property=prop, **o.as_dict()), f, indent=1)
        print('%s: %s [%s] %s: %s' % (o.where, o.rule, o.construct, o.statement, o.reason), file=out)
        print('VIOLATION property=%s replay=%s' % (prop, rp), file=out)

    wall = time.time() - t0
    if write:
        write_evidence(prop, tier, seed, ctx, uniq, unlisted, listed, wall, mod, extra_coverage)
    return (1 if unlisted else 0), ctx


def write_evidence(prop, tier, seed, ctx, uniq, unlisted, listed, wall, mod, extra_coverage=None):
    prog = ctx.prog
    nontrivial = {(o.rule, o.construct, o.statement) for o in uniq if o.nontrivial}
    samples = []
    by_rule = {}
    for o in uniq:
        by_rule.setdefault(o.rule, []).append(o)
    for r in sorted(by_rule):
        for o in by_rule[r][:4]:
            samples.append(o.as_dict())
    for o in uniq:
        if o.verdict != MET and o.as_dict() not in samples:
            samples.append(o.as_dict())
    n_ob = len(uniq)
    n_met = sum(1 for o in uniq if o.verdict == MET)
    cov = dict(
        explanation=getattr(mod, 'EXPLANATION', '') or ('static rules for %s' % prop),
        evaluations=len(ctx.obligations),
        distinct_nontrivial=len(nontrivial),
        rule=('Obligations are rule instances enumerated from the current source (file/function/call site/table entry); '
              'distinct = distinct (rule, construct, normalised statement); non-trivial = carries a checkable structural '
              'condition (instances that are vacuous, e.g. a loop with no index expression, are not counted).'),
        obligations=n_ob,
        discharged=n_met,
        undecided=sum(1 for o in uniq if o.verdict == UNDECIDED),
        violated_unlisted=len(unlisted),
        known_findings=len(listed),
        rules={r: dict(met=sum(1 for o in v if o.verdict == MET),
                       violated=sum(1 for o in v if o.verdict == VIOLATED),
                       undecided=sum(1 for o in v if o.verdict == UNDECIDED)) for r, v in by_rule.items()},
        floors=[dict(rule=r, what=w, count=c, floor=f) for (r, w, c, f) in ctx.floors],
        analysed=dict(units=len(prog.units), functions=len(prog.functions), classes=len(prog.classes),
                      files=sorted(set(prog.files_read)), source_digest=prog.digest(),
                      cython_nodes_not_lowered=prog.cy_unknown, **ctx.analysed),
        notes=ctx.notes,
        samples=samples[:60],
        does_not_decide=getattr(mod, 'DOES_NOT_DECIDE', ''),
        exhaustive=False,
    )
    if extra_coverage:
        cov.update(extra_coverage)
    ev = dict(property_id=prop, tier=tier, seed=seed, level='other', coverage=cov,
              assumptions=list(getattr(mod, 'ASSUMPTIONS', [])) + [
                  'Python ast and the Cython parser represent the source faithfully',
                  'numpy/scipy/Cython/C compiler behave as documented (trusted)',
                  'verdict "met" means every enumerated structural obligation holds; it does not assert the numerical behaviour',
              ],
              wall_s=round(wall, 3), violations=len(unlisted))
    d = os.path.join(VERIF, 'evidence')
    os.makedirs(d, exist_ok=True)
    tmp = os.path.join(d, '.%s.json.tmp' % prop)
    with open(tmp, 'w') as f:
        json.dump(ev, f, indent=1, default=str)
    os.replace(tmp, os.path.join(d, '%s.json' % prop))


def replay(prop, path, out=sys.stdout):
    """Re-run the property and report whether the recorded construct still violates."""
    with open(path) as f:
        rec = json.load(f)
    code, ctx = run_property(prop, 'quick', write=False, out=open(os.devnull, 'w'))
    if ctx is None:
        print('ANALYSIS-ERROR replay failed', file=out)
        return 2
    for o in ctx.obligations:
        if o.rule == rec['rule'] and o.construct == rec['construct'] and o.statement == rec['statement']:
            print('%s %s %s: %s -> %s (%s)' % (o.where, o.rule, o.construct, o.statement, o.verdict, o.reason), file=out)
            if o.verdict == VIOLATED:
                print('VIOLATION property=%s replay=%s' % (prop, path), file=out)
                return 1
            return 0
    print('construct no longer present: %s %s' % (rec['rule'], rec['construct']), file=out)
    return 0

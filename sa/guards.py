"""A2: guards and syntactic dominance over structured statements."""
import ast

from .program import parent, src, own_nodes


# ------------------------------------------------------------------ boolean literals
def literals(test, polarity=True):
    """Flatten a test into a list of (expr_src, polarity) literals that are *all*
    known to hold when ``test`` evaluates to ``polarity``.  Sound: returns fewer
    literals when the structure does not allow a conjunction (e.g. ``A or B`` true)."""
    out = []
    if isinstance(test, ast.UnaryOp) and isinstance(test.op, ast.Not):
        return literals(test.operand, not polarity)
    if isinstance(test, ast.BoolOp):
        if isinstance(test.op, ast.And) and polarity:
            for v in test.values:
                out.extend(literals(v, True))
            return out
        if isinstance(test.op, ast.Or) and not polarity:
            for v in test.values:
                out.extend(literals(v, False))
            return out
        return _with_expansion(test, polarity)
    return _with_expansion(test, polarity)


def _with_expansion(test, polarity):
    """the literal as written, and -- when it reads local temporaries with a decidable straight-line definition
    (sa/resolve.py) -- the same literal with those temporaries replaced by their definitions"""
    out = [(src(test), polarity, test)]
    # the complementary spelling of an (in)equality / identity / membership test holds with the opposite polarity:
    # `p != 0` false is `p == 0` true (exact for ==, is, in; not used for <, >= because of NaN)
    if isinstance(test, ast.Compare) and len(test.ops) == 1:
        comp = {ast.Eq: ast.NotEq, ast.NotEq: ast.Eq, ast.Is: ast.IsNot, ast.IsNot: ast.Is, ast.In: ast.NotIn, ast.NotIn: ast.In}.get(type(test.ops[0]))
        if comp is not None:
            t2 = ast.Compare(left=test.left, ops=[comp()], comparators=test.comparators)
            out.append((src(t2), not polarity, test))
    try:
        from . import resolve
        if getattr(test, '_parent', None) is not None:
            t2 = src(resolve.expand(test, test))
            if t2 != out[0][0]:
                out.append((t2, polarity, test))
    except Exception:
        pass
    return out


def path_conditions(node, stop=None):
    """Literals known to hold at ``node`` from enclosing if/while/ifexp/assert-free
    structure (within one function)."""
    out = []
    child = node
    p = parent(node)

    def early_exit_guards(blk, idx):
        # `if T: continue / return / break / raise` (no else) before the statement in the same block: T is false afterwards
        for s in blk[:idx]:
            if isinstance(s, ast.If) and not s.orelse and s.body and isinstance(s.body[-1], (ast.Continue, ast.Return, ast.Break, ast.Raise)):
                out.extend(literals(s.test, False))
    while p is not None:
        for fld in ('body', 'orelse', 'finalbody'):
            blk = getattr(p, fld, None)
            if isinstance(blk, list) and child in blk:
                early_exit_guards(blk, blk.index(child))
        if p is stop:
            break           # (the early exits inside the stop node's own block still count)
        if isinstance(p, (ast.FunctionDef, ast.AsyncFunctionDef, ast.Lambda, ast.ClassDef, ast.Module)):
            break
        if isinstance(p, ast.If):
            if child in p.body:
                out.extend(literals(p.test, True))
            elif child in p.orelse:
                out.extend(literals(p.test, False))
        elif isinstance(p, ast.While):
            if child in p.body:
                out.extend(literals(p.test, True))
        elif isinstance(p, ast.IfExp):
            if child is p.body:
                out.extend(literals(p.test, True))
            elif child is p.orelse:
                out.extend(literals(p.test, False))
        elif isinstance(p, ast.BoolOp):
            # short circuit: in  A and B, B is evaluated only if A
            idx = p.values.index(child) if child in p.values else -1
            for v in p.values[:max(idx, 0)]:
                out.extend(literals(v, isinstance(p.op, ast.And)))
        elif isinstance(p, ast.comprehension):
            pass
        elif isinstance(p, (ast.ListComp, ast.SetComp, ast.GeneratorExp, ast.DictComp)):
            # element is evaluated under all ifs of all generators
            if child is getattr(p, 'elt', None) or child is getattr(p, 'key', None) or child is getattr(p, 'value', None):
                for g in p.generators:
                    for c in g.ifs:
                        out.extend(literals(c, True))
        child = p
        p = parent(p)
    return out


def preceding_statements(stmt):
    """Statements that are executed before ``stmt`` on every path reaching it, in
    the same or an enclosing block (straight-line predecessors only)."""
    out = []
    child = stmt
    p = parent(stmt)
    while p is not None:
        for fld in ('body', 'orelse', 'finalbody'):
            blk = getattr(p, fld, None)
            if isinstance(blk, list) and child in blk:
                idx = blk.index(child)
                out.extend(reversed(blk[:idx]))
        if isinstance(p, (ast.FunctionDef, ast.AsyncFunctionDef, ast.Lambda, ast.Module, ast.ClassDef)):
            break
        child = p
        p = parent(p)
    return out


def always_exits(stmts):
    """True if the statement list cannot complete normally (ends in return/raise/
    continue/break on every path)."""
    for s in stmts:
        if isinstance(s, (ast.Return, ast.Raise, ast.Continue, ast.Break)):
            return True
        if isinstance(s, ast.If) and s.orelse and always_exits(s.body) and always_exits(s.orelse):
            return True
        if isinstance(s, ast.Try) and s.finalbody and always_exits(s.finalbody):
            return True
    return False


def dominating_facts(node):
    """path_conditions plus facts from earlier statements of the form
        if C: <always exits>      -> not C holds afterwards
        assert C                  -> C holds afterwards
    (straight-line predecessors in enclosing blocks only)."""
    facts = list(path_conditions(node))
    st = node
    while st is not None and not isinstance(st, ast.stmt):
        st = parent(st)
    if st is None:
        return facts
    for s in preceding_statements(st):
        if isinstance(s, ast.Assert):
            facts.extend(literals(s.test, True))
        elif isinstance(s, ast.If) and always_exits(s.body) and not s.orelse:
            facts.extend(literals(s.test, False))
        elif isinstance(s, ast.If) and s.orelse and always_exits(s.orelse) and not always_exits(s.body):
            facts.extend(literals(s.test, True))
    return facts


def holds_order(facts, a, op, b):
    """`a op b` (op one of < <= > >=) holds by the facts in any of its spellings: as written, with the operands exchanged, or as
    the complementary comparison known to be false.  Only for operands that cannot be NaN (loop indices, levels, lengths)."""
    flip = {'<': '>', '>': '<', '<=': '>=', '>=': '<='}
    comp = {'<': '>=', '>': '<=', '<=': '>', '>=': '<'}
    want = {('%s%s%s' % (a, op, b), True), ('%s%s%s' % (b, flip[op], a), True),
            ('%s%s%s' % (a, comp[op], b), False), ('%s%s%s' % (b, flip[comp[op]], a), False)}
    for (t, pol, _n) in facts:
        t = t.replace(' ', '')
        while t.startswith('(') and t.endswith(')'):
            t = t[1:-1]
        if (t, pol) in want:
            return True
    return False


def has_literal(facts, text, polarity=True):
    return any(t == text and p == polarity for (t, p, _n) in facts)


# ------------------------------------------------------------------ exits
def returns_of(fn):
    return [n for n in own_nodes(fn) if isinstance(n, ast.Return)]


def raises_of(fn):
    return [n for n in own_nodes(fn) if isinstance(n, ast.Raise)]


def falls_off_end(fn):
    return not always_exits(fn.body)


def stmt_list_reaches_call(stmts, pred):
    """Every normal completion of ``stmts`` has executed a statement for which
    ``pred(stmt)`` holds (syntax-directed must-analysis).  Returns True/False."""
    for s in stmts:
        if pred(s):
            return True
        if isinstance(s, ast.If):
            if s.orelse and stmt_list_reaches_call(s.body, pred) and stmt_list_reaches_call(s.orelse, pred):
                return True
        elif isinstance(s, ast.Try):
            if s.finalbody and stmt_list_reaches_call(s.finalbody, pred):
                return True
            if not s.handlers and stmt_list_reaches_call(s.body, pred):
                return True
        elif isinstance(s, ast.With):
            if stmt_list_reaches_call(s.body, pred):
                return True
    return False


def loop_carried(loop):
    """Names (other than the loop target) whose value flows from one iteration of ``loop`` into the next: assigned in
    the body, and read in the body at a point where they have not yet been assigned in the same iteration (source
    order, first occurrence), or updated by an augmented assignment / inside a nested loop condition."""
    target = {n.id for n in ast.walk(loop.target) if isinstance(n, ast.Name)} if isinstance(loop, ast.For) else set()
    assigned = set()
    for n in ast.walk(loop):
        if n is loop:
            continue
        if isinstance(n, ast.Name) and isinstance(n.ctx, ast.Store):
            assigned.add(n.id)
        if isinstance(n, (ast.For, ast.comprehension)) and n is not loop:
            pass
    assigned -= target
    # comprehension / inner-loop targets are re-initialised by their own header
    inner_targets = set()
    for n in ast.walk(loop):
        if n is not loop and isinstance(n, (ast.For, ast.comprehension)):
            inner_targets |= {x.id for x in ast.walk(n.target) if isinstance(x, ast.Name)}
    carried = set()
    seen_store = set()

    def visit(stmts):
        for s in stmts:
            if isinstance(s, ast.AugAssign):
                for x in ast.walk(s.value):
                    if isinstance(x, ast.Name) and x.id in assigned and x.id not in seen_store and x.id not in inner_targets:
                        carried.add(x.id)
                if isinstance(s.target, ast.Name):
                    if s.target.id not in seen_store and s.target.id not in inner_targets:
                        carried.add(s.target.id)
                    seen_store.add(s.target.id)
                continue
            if isinstance(s, (ast.If, ast.While)):
                for x in ast.walk(s.test):
                    if isinstance(x, ast.Name) and x.id in assigned and x.id not in seen_store and x.id not in inner_targets:
                        carried.add(x.id)
                before = set(seen_store)
                visit(s.body)
                after_body = set(seen_store)
                seen_store.clear()
                seen_store.update(before)
                visit(s.orelse)
                # assigned on both branches -> assigned
                both = after_body & set(seen_store)
                seen_store.clear()
                seen_store.update(before | both)
                if isinstance(s, ast.While):
                    seen_store.clear()
                    seen_store.update(before)
                continue
            if isinstance(s, ast.For):
                for x in ast.walk(s.iter):
                    if isinstance(x, ast.Name) and x.id in assigned and x.id not in seen_store and x.id not in inner_targets:
                        carried.add(x.id)
                before = set(seen_store)
                visit(s.body)
                seen_store.clear()
                seen_store.update(before)
                continue
            if isinstance(s, (ast.With, ast.Try)):
                visit(getattr(s, 'body', []))
                for h in getattr(s, 'handlers', []):
                    visit(h.body)
                visit(getattr(s, 'finalbody', []))
                continue
            # simple statement: reads first, then stores
            value_nodes = []
            if isinstance(s, ast.Assign):
                value_nodes = [s.value] + [t for t in s.targets if not isinstance(t, ast.Name)]
            else:
                value_nodes = [s]
            for v in value_nodes:
                for x in ast.walk(v):
                    if isinstance(x, ast.Name) and isinstance(x.ctx, ast.Load) and x.id in assigned and x.id not in seen_store and x.id not in inner_targets:
                        carried.add(x.id)
            if isinstance(s, ast.Assign):
                for t in s.targets:
                    for x in ast.walk(t):
                        if isinstance(x, ast.Name) and isinstance(x.ctx, ast.Store):
                            seen_store.add(x.id)
    visit(loop.body)
    return carried


def in_loop(node, fn=None):
    p = parent(node)
    while p is not None and p is not fn and not isinstance(p, (ast.FunctionDef, ast.AsyncFunctionDef)):
        if isinstance(p, (ast.For, ast.While)):
            return p
        p = parent(p)
    return None


# ------------------------------------------------------------------ evaluating dispatch chains
_EVAL_NODES = (ast.Name, ast.Attribute, ast.Constant, ast.Compare, ast.BoolOp, ast.UnaryOp, ast.Tuple, ast.List, ast.Set, ast.Load, ast.And,
               ast.Or, ast.Not, ast.Eq, ast.NotEq, ast.Lt, ast.LtE, ast.Gt, ast.GtE, ast.In, ast.NotIn, ast.USub, ast.Is, ast.IsNot)


def eval_test(test, env):
    """Truth value of a test built from the atoms in `env` (source text -> value: 'dim', 'self.L', ...), literals,
    comparisons, in / not in, and / or / not; None if it involves anything else."""
    def ev(e):
        t = src(e)
        if t in env:
            return env[t]
        if isinstance(e, ast.Constant):
            return e.value
        if isinstance(e, (ast.Tuple, ast.List, ast.Set)):
            return tuple(ev(x) for x in e.elts)
        if isinstance(e, ast.UnaryOp) and isinstance(e.op, ast.Not):
            return not ev(e.operand)
        if isinstance(e, ast.UnaryOp) and isinstance(e.op, ast.USub):
            return -ev(e.operand)
        if isinstance(e, ast.BoolOp):
            vals = [ev(v) for v in e.values]
            return all(vals) if isinstance(e.op, ast.And) else any(vals)
        if isinstance(e, ast.Compare):
            left = ev(e.left)
            for op, c in zip(e.ops, e.comparators):
                right = ev(c)
                r = {ast.Eq: lambda a, b: a == b, ast.NotEq: lambda a, b: a != b, ast.Lt: lambda a, b: a < b, ast.LtE: lambda a, b: a <= b,
                     ast.Gt: lambda a, b: a > b, ast.GtE: lambda a, b: a >= b, ast.In: lambda a, b: a in b, ast.NotIn: lambda a, b: a not in b,
                     ast.Is: lambda a, b: a is b, ast.IsNot: lambda a, b: a is not b}[type(op)](left, right)
                if not r:
                    return False
                left = right
            return True
        raise ValueError(t)
    try:
        return bool(ev(test))
    except Exception:
        return None


def specialise(stmts, env):
    """The statements of `stmts` that can execute when the atoms of `env` have the given values: an `if` whose test is
    decided by env is replaced by its taken branch (recursively), anything else is kept whole.  Statements after an
    unconditional return/raise of the specialised list are dropped."""
    out = []
    for s in stmts:
        if isinstance(s, ast.If):
            v = eval_test(s.test, env)
            if v is True:
                out.extend(specialise(s.body, env))
            elif v is False:
                out.extend(specialise(s.orelse, env))
            else:
                out.append(s)
                continue
            if out and isinstance(out[-1], (ast.Return, ast.Raise)):
                break
            continue
        out.append(_specialise_ifexp(s, env))
        if isinstance(s, (ast.Return, ast.Raise)):
            break
    return out


def _specialise_ifexp(stmt, env):
    """the simple statement with every conditional EXPRESSION whose test env decides replaced by its taken operand (a copy;
    the statement itself is returned when there is nothing to decide)"""
    if isinstance(stmt, (ast.If, ast.For, ast.While, ast.With, ast.Try, ast.FunctionDef, ast.AsyncFunctionDef, ast.ClassDef)):
        return stmt
    if not any(isinstance(x, ast.IfExp) and eval_test(x.test, env) is not None for x in ast.walk(stmt)):
        return stmt
    from . import alpha

    class Cut(ast.NodeTransformer):
        def visit_IfExp(self, n):
            v = eval_test(n.test, env)
            if v is True:
                return self.visit(n.body)
            if v is False:
                return self.visit(n.orelse)
            return self.generic_visit(n)
    new = Cut().visit(alpha.clone(stmt))
    new._parent = getattr(stmt, '_parent', None)
    for x in ast.walk(new):
        for c in ast.iter_child_nodes(x):
            c._parent = x
    return new


def eval_expr(e, env):
    """Value of a small pure expression (names of env, constants, tuples / lists, + on sequences, slices and indices,
    conditional expressions, comparisons, tuple(...) / list(...) / len(...)); raises ValueError for anything else."""
    if isinstance(e, ast.Constant):
        return e.value
    if isinstance(e, ast.Name):
        if e.id in env:
            return env[e.id]
        raise ValueError(e.id)
    if isinstance(e, (ast.Tuple, ast.List)):
        return tuple(eval_expr(x, env) for x in e.elts)
    if isinstance(e, ast.IfExp):
        return eval_expr(e.body, env) if eval_expr(e.test, env) else eval_expr(e.orelse, env)
    if isinstance(e, ast.BinOp) and isinstance(e.op, (ast.Add, ast.Sub, ast.Mult)):
        a, b = eval_expr(e.left, env), eval_expr(e.right, env)
        if isinstance(e.op, ast.Add):
            return a + b
        if isinstance(e.op, ast.Sub):
            return a - b
        return a * b
    if isinstance(e, ast.UnaryOp) and isinstance(e.op, ast.USub):
        return -eval_expr(e.operand, env)
    if isinstance(e, ast.UnaryOp) and isinstance(e.op, ast.Not):
        return not eval_expr(e.operand, env)
    if isinstance(e, ast.BoolOp):
        vals = [eval_expr(v, env) for v in e.values]
        return all(vals) if isinstance(e.op, ast.And) else any(vals)
    if isinstance(e, ast.Compare):
        v = eval_test(e, {src(x): eval_expr(x, env) for x in [e.left] + list(e.comparators) if not isinstance(x, ast.Constant)})
        if v is None:
            raise ValueError(src(e))
        return v
    if isinstance(e, ast.Subscript):
        base = eval_expr(e.value, env)
        sl = e.slice
        if isinstance(sl, ast.Slice):
            lo = eval_expr(sl.lower, env) if sl.lower is not None else None
            up = eval_expr(sl.upper, env) if sl.upper is not None else None
            st = eval_expr(sl.step, env) if sl.step is not None else None
            return base[lo:up:st]
        return base[eval_expr(sl, env)]
    if isinstance(e, ast.Call) and isinstance(e.func, ast.Name) and e.func.id in ('tuple', 'list', 'len') and len(e.args) == 1 and not e.keywords:
        v = eval_expr(e.args[0], env)
        return len(v) if e.func.id == 'len' else tuple(v)
    raise ValueError(src(e))

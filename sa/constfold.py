"""A7: constant folding of straight-line coefficient functions.

A tiny evaluator over the AST of functions such as ``coeffs_esdirk34``: float and
int literals, + - * / **, names bound earlier in the same body (chained
assignments allowed), list / tuple literals, np.array([...]), np.sqrt, np.fill_diagonal,
elementwise matrix +/-, slicing A[:-1, :] and ``return`` of a value or tuple.
No repository code is imported or executed: only the syntax tree is interpreted,
with numpy used by the *checker* as an array container.
"""
import ast
import math

import numpy as np

from .program import src, call_name


class NotConstant(Exception):
    pass


def fold_expr(e, env):
    if isinstance(e, ast.Constant):
        if isinstance(e.value, (int, float)) and not isinstance(e.value, bool):
            return e.value
        if e.value is None:
            return None
        raise NotConstant(src(e))
    if isinstance(e, ast.Name):
        if e.id in env:
            return env[e.id]
        raise NotConstant('free name ' + e.id)
    if isinstance(e, ast.UnaryOp):
        v = fold_expr(e.operand, env)
        if isinstance(e.op, ast.USub):
            return -v
        if isinstance(e.op, ast.UAdd):
            return v
        raise NotConstant(src(e))
    if isinstance(e, ast.BinOp):
        a, b = fold_expr(e.left, env), fold_expr(e.right, env)
        op = e.op
        if isinstance(op, ast.Add):
            return a + b
        if isinstance(op, ast.Sub):
            return a - b
        if isinstance(op, ast.Mult):
            return a * b
        if isinstance(op, ast.Div):
            return a / b
        if isinstance(op, ast.Pow):
            return a ** b
        if isinstance(op, ast.MatMult):
            return a @ b
        raise NotConstant(src(e))
    if isinstance(e, (ast.List, ast.Tuple)):
        return [fold_expr(x, env) for x in e.elts]
    if isinstance(e, ast.Subscript):
        base = fold_expr(e.value, env)
        idx = _fold_index(e.slice, env)
        return np.asarray(base)[idx] if not isinstance(base, list) or isinstance(idx, tuple) else base[idx]
    if isinstance(e, ast.Call):
        name = call_name(e)
        if name in ('np.array', 'numpy.array', 'np.asarray'):
            return np.array(fold_expr(e.args[0], env), dtype=float)
        if name in ('np.sqrt', 'math.sqrt'):
            return math.sqrt(fold_expr(e.args[0], env))
        if name in ('np.cos', 'math.cos'):
            return math.cos(fold_expr(e.args[0], env))
        if name in ('np.sin', 'math.sin'):
            return math.sin(fold_expr(e.args[0], env))
        if name in ('float', 'int'):
            return fold_expr(e.args[0], env)
        if name in env and callable(env[name]):
            return env[name](*[fold_expr(a, env) for a in e.args])
        raise NotConstant('call ' + str(name))
    if isinstance(e, ast.Attribute):
        if src(e) in ('np.pi', 'math.pi'):
            return math.pi
        if e.attr == 'T':
            return np.asarray(fold_expr(e.value, env)).T
        raise NotConstant(src(e))
    if isinstance(e, ast.Starred):
        raise NotConstant('starred')
    raise NotConstant(src(e))


def _fold_index(s, env):
    if isinstance(s, ast.Tuple):
        return tuple(_fold_index(x, env) for x in s.elts)
    if isinstance(s, ast.Slice):
        return slice(fold_expr(s.lower, env) if s.lower is not None else None,
                     fold_expr(s.upper, env) if s.upper is not None else None,
                     fold_expr(s.step, env) if s.step is not None else None)
    return fold_expr(s, env)


def fold_function(fn, env=None):
    """Interpret a straight-line function body; return the folded return value."""
    env = dict(env or {})
    for s in fn.body:
        if isinstance(s, ast.Expr) and isinstance(s.value, ast.Constant):
            continue        # docstring
        if isinstance(s, ast.Assign):
            v = fold_expr(s.value, env)
            for t in s.targets:
                if isinstance(t, ast.Name):
                    env[t.id] = v
                elif isinstance(t, (ast.Tuple, ast.List)) and len(t.elts) == len(v):
                    for tt, vv in zip(t.elts, v):
                        env[tt.id] = vv
                else:
                    raise NotConstant('assignment target ' + src(t))
            continue
        if isinstance(s, ast.Expr) and isinstance(s.value, ast.Call):
            name = call_name(s.value)
            if name == 'np.fill_diagonal':
                arr = fold_expr(s.value.args[0], env)
                val = fold_expr(s.value.args[1], env)
                arr = np.array(arr, dtype=float)
                np.fill_diagonal(arr, val)
                if isinstance(s.value.args[0], ast.Name):
                    env[s.value.args[0].id] = arr
                continue
            raise NotConstant('statement ' + src(s))
        if isinstance(s, ast.Return):
            return fold_expr(s.value, env)
        raise NotConstant('statement ' + type(s).__name__)
    raise NotConstant('no return')

"""A5: affine index algebra.

Lin: linear expression  sum c_i * sym_i + c0  with Fraction coefficients, built
from ast expressions (non-affine sub-expressions become opaque symbols keyed by
their normalised source, so ``kv.shape[0]`` or ``len(x)`` are just symbols).

prove(facts, goal): integer-aware Fourier-Motzkin refutation of  facts and not goal.
"""
import ast
from fractions import Fraction

from .program import src


class NonAffine(Exception):
    pass


class Lin:
    __slots__ = ('c', 'k')

    def __init__(self, coeffs=None, const=0):
        self.c = {s: Fraction(v) for s, v in (coeffs or {}).items() if v != 0}
        self.k = Fraction(const)

    @staticmethod
    def sym(name):
        return Lin({name: 1}, 0)

    @staticmethod
    def const(v):
        return Lin({}, v)

    def __add__(self, o):
        o = _lin(o)
        c = dict(self.c)
        for s, v in o.c.items():
            c[s] = c.get(s, 0) + v
        return Lin(c, self.k + o.k)

    __radd__ = __add__

    def __neg__(self):
        return Lin({s: -v for s, v in self.c.items()}, -self.k)

    def __sub__(self, o):
        return self + (-_lin(o))

    def __rsub__(self, o):
        return _lin(o) - self

    def scale(self, f):
        f = Fraction(f)
        return Lin({s: v * f for s, v in self.c.items()}, self.k * f)

    def __mul__(self, o):
        o = _lin(o)
        if not o.c:
            return self.scale(o.k)
        if not self.c:
            return o.scale(self.k)
        raise NonAffine('product of two non-constant terms')

    __rmul__ = __mul__

    def is_const(self):
        return not self.c

    def symbols(self):
        return set(self.c)

    def __eq__(self, o):
        o = _lin(o)
        return self.c == o.c and self.k == o.k

    def __hash__(self):
        return hash((frozenset(self.c.items()), self.k))

    def subs(self, env):
        out = Lin({}, self.k)
        for s, v in self.c.items():
            if s in env:
                out = out + _lin(env[s]).scale(v)
            else:
                out = out + Lin({s: v})
        return out

    def __repr__(self):
        parts = []
        for s in sorted(self.c):
            v = self.c[s]
            if v == 1:
                parts.append('+%s' % s)
            elif v == -1:
                parts.append('-%s' % s)
            else:
                parts.append('%+g*%s' % (float(v), s))
        if self.k != 0 or not parts:
            parts.append('%+g' % float(self.k))
        s = ''.join(parts)
        return s[1:] if s.startswith('+') else s


def _lin(x):
    if isinstance(x, Lin):
        return x
    return Lin({}, x)


def from_ast(node, env=None, opaque=True):
    """Convert an ast expression to Lin.  ``env`` maps names to Lin (substitution).
    Non-affine parts become opaque symbols when ``opaque`` else NonAffine is raised."""
    env = env or {}

    def conv(n):
        if isinstance(n, ast.Constant):
            if isinstance(n.value, bool) or not isinstance(n.value, (int, float)):
                raise NonAffine(src(n))
            if isinstance(n.value, float) and n.value != int(n.value):
                return Lin({}, Fraction(n.value).limit_denominator(10**9))
            return Lin({}, n.value)
        if isinstance(n, ast.Name):
            if n.id in env:
                return _lin(env[n.id])
            return Lin.sym(n.id)
        if isinstance(n, ast.UnaryOp):
            if isinstance(n.op, ast.USub):
                return -conv(n.operand)
            if isinstance(n.op, ast.UAdd):
                return conv(n.operand)
        if isinstance(n, ast.BinOp):
            if isinstance(n.op, ast.Add):
                return conv(n.left) + conv(n.right)
            if isinstance(n.op, ast.Sub):
                return conv(n.left) - conv(n.right)
            if isinstance(n.op, ast.Mult):
                try:
                    return conv(n.left) * conv(n.right)
                except NonAffine:
                    if not opaque:
                        raise
                    return Lin.sym(src(n))
            if isinstance(n.op, (ast.FloorDiv, ast.Div)):
                l, r = conv(n.left), conv(n.right)
                if r.is_const() and r.k != 0 and l.is_const():
                    q = l.k / r.k
                    if isinstance(n.op, ast.FloorDiv):
                        import math
                        q = Fraction(math.floor(q))
                    return Lin({}, q)
        if opaque:
            return Lin.sym(src(n))
        raise NonAffine(src(n))
    return conv(node)


# ------------------------------------------------------------------ constraints
# A constraint is a Lin  e  meaning  e >= 0  (integers).
def ge(a, b):
    return _lin(a) - _lin(b)


def le(a, b):
    return _lin(b) - _lin(a)


def gt(a, b):
    return _lin(a) - _lin(b) - 1


def lt(a, b):
    return _lin(b) - _lin(a) - 1


def eq(a, b):
    return [ge(a, b), le(a, b)]


def compare_to_constraints(node, env=None, polarity=True):
    """ast.Compare (chain allowed) -> list of constraints, or None if not affine-comparable."""
    if not isinstance(node, ast.Compare):
        return None
    out = []
    left = node.left
    for op, right in zip(node.ops, node.comparators):
        try:
            a, b = from_ast(left, env), from_ast(right, env)
        except NonAffine:
            return None
        t = type(op)
        if not polarity:
            if len(node.ops) != 1:
                return None
            t = {ast.Lt: ast.GtE, ast.LtE: ast.Gt, ast.Gt: ast.LtE, ast.GtE: ast.Lt, ast.Eq: ast.NotEq, ast.NotEq: ast.Eq}.get(t)
        if t is ast.Lt:
            out.append(lt(a, b))
        elif t is ast.LtE:
            out.append(le(a, b))
        elif t is ast.Gt:
            out.append(gt(a, b))
        elif t is ast.GtE:
            out.append(ge(a, b))
        elif t is ast.Eq:
            out.extend(eq(a, b))
        else:
            return None
        left = right
    return out


def _normalize(e):
    """integer tightening: divide by gcd of coefficients, floor the constant."""
    if not e.c:
        return e
    from math import gcd
    dens = [v.denominator for v in e.c.values()] + [e.k.denominator]
    m = 1
    for d in dens:
        m = m * d // gcd(m, d)
    e = e.scale(m)
    g = 0
    for v in e.c.values():
        g = gcd(g, abs(int(v)))
    if g > 1:
        import math
        e = Lin({s: v / g for s, v in e.c.items()}, Fraction(math.floor(e.k / g)))
    return e


def infeasible(constraints, max_size=4000):
    """Fourier-Motzkin: True if the conjunction (each e >= 0 over integers) has no
    rational solution after integer tightening.  False = could not refute."""
    cons = [_normalize(c) for c in constraints]
    syms = set()
    for c in cons:
        syms |= c.symbols()
    syms = sorted(syms)
    while True:
        for c in cons:
            if c.is_const() and c.k < 0:
                return True
        if not syms:
            return False
        # choose symbol with the fewest pos*neg products
        best, bestcost = None, None
        for s in syms:
            pos = sum(1 for c in cons if c.c.get(s, 0) > 0)
            neg = sum(1 for c in cons if c.c.get(s, 0) < 0)
            cost = pos * neg - pos - neg
            if bestcost is None or cost < bestcost:
                best, bestcost = s, cost
        s = best
        syms.remove(s)
        pos = [c for c in cons if c.c.get(s, 0) > 0]
        neg = [c for c in cons if c.c.get(s, 0) < 0]
        rest = [c for c in cons if c.c.get(s, 0) == 0]
        new = []
        for p in pos:
            for n in neg:
                a, b = p.c[s], -n.c[s]
                comb = p.scale(b) + n.scale(a)
                new.append(_normalize(comb))
        cons = list({c: None for c in rest + new}.keys())
        if len(cons) > max_size:
            return False


def prove(facts, goal):
    """facts: list of constraints (>=0); goal: constraint (>=0).  True if facts imply goal."""
    neg = (-goal) - 1          # goal < 0  <=>  -goal - 1 >= 0
    return infeasible(list(facts) + [neg])


def satisfiable_witness(facts, extra, syms_bounds=None, limit=6):
    """Tiny brute-force search for an integer assignment satisfying facts+extra
    (used to turn 'not proved' into a definite 'violated' witness)."""
    import itertools
    cons = list(facts) + list(extra)
    syms = set()
    for c in cons:
        syms |= c.symbols()
    syms = sorted(syms)
    if len(syms) > 5:
        return None
    rng = range(-2, limit + 1)
    for vals in itertools.product(rng, repeat=len(syms)):
        env = dict(zip(syms, vals))
        ok = True
        for c in cons:
            v = c.k + sum(co * env[s] for s, co in c.c.items())
            if v < 0:
                ok = False
                break
        if ok:
            return env
    return None

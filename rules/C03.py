"""C03 -- hierarchical assembly is the level-wise Galerkin restriction (structural clauses)."""
import ast

from sa.program import src, own_nodes, call_name, parent, kwarg, AnchorMissing
from sa import guards, resolve, optional, chains

EXPLANATION = (
    "Static rules over pyiga/_hdiscr.py, hierarchical.py, mlmatrix.py, bspline.py and the code generator: (R03.1) Optional-field "
    "dereference: every field of HSpace/HMesh/HDiscretization/MLStructure/MLMatrix/KnotVector that may hold None is only iterated, "
    "subscripted, called or dereferenced under a None/truth guard, an assertion, an ensure-assignment or after an ensure-method; "
    "(R03.2) THB results are the congruence T^T A_hb T resp. T^T b with T = thb_to_hb(); (R03.3) the temporary truncate override "
    "is restored in a finally clause; (R03.4) the second inter-level block chain is the transposed mirror of the first (symmetric "
    "shortcut = transpose) and the two insert_block calls use swapped (rows, columns); (R03.5) producer and consumers of the "
    "on-demand bounding box agree on the half-open cell convention; (R03.6) rows assembled per level and the partial-row route "
    "agree (same row sets reach _assemble_level and represent_fine); (R03.7) the loops that accumulate inter-level index sets "
    "over the coarser levels within the disparity have no early exit (break/continue/return): every level contributes; shared: "
    "(R03.8 = R11.2) provenance of the neighbour sets (supports of active functions, not active cells), (R03.9 = R04.4) cache "
    "invalidation after every state write, (R03.10 = R05.6) structure of the truncation behind thb_to_hb.")
DOES_NOT_DECIDE = "equality with I^T A I; which rows must be assembled for a given refinement history"
TECHNIQUE = "custom AST rules: Optional-field guard dominance, matrix-chain canonical forms and mirror comparison, try/finally pairing, convention agreement"

HD = 'pyiga._hdiscr'
H = 'pyiga.hierarchical'
SCOPE = [H + '.HSpace', H + '.HMesh', H + '.TPMesh', HD + '.HDiscretization', 'pyiga.mlmatrix.MLStructure',
         'pyiga.mlmatrix.MLMatrix', 'pyiga.bspline.KnotVector']


def r03_1(ctx):
    n_fields = 0
    n_uses = 0
    for q in SCOPE:
        cls = ctx.prog.cls(q)
        fields = optional.optional_fields(cls)
        for field, where in sorted(fields.items()):
            n_fields += 1
            ensure = optional.ensure_methods(cls, field)
            for mname, m in sorted(cls.methods.items()):
                for node, kind in optional.dereferences(m.node, field):
                    n_uses += 1
                    g = optional.is_guarded(node, m.node, field, ensure)
                    st = '%s of self.%s: %s' % (kind, field, src(node)[:80])
                    if g:
                        ctx.met('R03.1', m.qual, st, node, g)
                    else:
                        ctx.violated('R03.1', m.qual, st, node,
                                     'self.%s may be None (stored at %s:%d: %s) and is dereferenced without a guard'
                                     % (field, cls.unit.rel, where.lineno, src(where)[:60]))
    ctx.count('R03.1 optional fields', n_fields)
    ctx.floor('R03.1', 'Optional fields in the scoped classes', n_fields, 6)
    ctx.floor('R03.1', 'dereferences of Optional fields', n_uses, 5)


def r03_2(ctx):
    am = ctx.prog.func(HD + '.HDiscretization.assemble_matrix')
    top = [s for s in am.node.body if isinstance(s, ast.If) and src(s.test) == 'self.truncate']
    if not top:
        raise AnchorMissing('R03.2: truncate branch of assemble_matrix')
    body = top[0].body
    T = [s for s in body if isinstance(s, ast.Assign) and src(s.targets[0]) == 'T']
    ret = [s for s in body if isinstance(s, ast.Return)]
    ok_T = bool(T) and src(T[0].value) == 'self.hs.thb_to_hb()'
    ctx.decide('R03.2', am.qual, src(T[0]) if T else 'T', ok_T or None, T[0] if T else top[0], 'T maps THB to HB coefficients')
    if ret:
        fs = chains.factors(ret[0].value)
        ok = (fs == ['T.T', 'A_hb', 'T'])
        bad = len(fs) == 3 and set(f.replace('.T', '') for f in fs) == {'T', 'A_hb'} and not ok
        ctx.decide('R03.2', am.qual, 'return ' + ' @ '.join(fs), True if ok else (False if bad else None), ret[0], 'congruence T^T A_hb T')
    af = ctx.prog.func(HD + '.HDiscretization.assemble_functional')
    asg = [s for s in own_nodes(af.node) if isinstance(s, ast.Assign) and src(s.targets[0]) == 'rhs' and 'thb_to_hb' in src(s.value)]
    if not asg:
        raise AnchorMissing('R03.2: THB transform of the functional')
    fs = chains.factors(asg[0].value)
    ok = fs == ['self.hs.thb_to_hb().T', 'rhs']
    bad = len(fs) == 2 and 'thb_to_hb' in fs[0] and not ok
    ctx.decide('R03.2', af.qual, 'rhs = ' + ' @ '.join(fs), True if ok else (False if bad else None), asg[0], 'transposed transform T^T b')
    facts = guards.path_conditions(asg[0])
    ctx.decide('R03.2', af.qual, 'transform applied under self.truncate', guards.has_literal(facts, 'self.truncate', True), asg[0])


def r03_3(ctx):
    am = ctx.prog.func(HD + '.HDiscretization.assemble_matrix')
    sets_false = [s for s in own_nodes(am.node) if isinstance(s, ast.Assign) and src(s.targets[0]) == 'self.truncate'
                  and isinstance(s.value, ast.Constant) and s.value.value is False]
    ctx.floor('R03.3', 'temporary overrides of self.truncate', len(sets_false), 1)
    for s in sets_false:
        tr = parent(s)
        ok = isinstance(tr, ast.Try) and s in tr.body and any(
            isinstance(f, ast.Assign) and src(f.targets[0]) == 'self.truncate' and isinstance(f.value, ast.Constant) and f.value.value is True
            for f in tr.finalbody)
        ctx.decide('R03.3', am.qual, 'self.truncate = False ... finally: self.truncate = True', ok, s,
                   'the override must be undone on every exit, including exceptions from the recursive assembly')
    # no other writer of the flag
    hd = ctx.prog.cls(HD + '.HDiscretization')
    writers = sorted({m.name for m in hd.methods.values() for s in own_nodes(m.node)
                      if isinstance(s, ast.Assign) and any(src(t) == 'self.truncate' for t in s.targets)})
    ctx.decide('R03.3', hd.qual, 'writers of self.truncate: %s' % writers, writers == ['__init__', 'assemble_matrix'], hd.node)


def r03_4(ctx):
    am = ctx.prog.func(HD + '.HDiscretization.assemble_matrix')
    d = {}
    for s in own_nodes(am.node):
        if isinstance(s, ast.Assign) and len(s.targets) == 1 and src(s.targets[0]) in ('A_hb_interlevel', 'A_hb_interlevel2', 'A_hb_new'):
            d.setdefault(src(s.targets[0]), []).append(s)
    if 'A_hb_interlevel' not in d or 'A_hb_interlevel2' not in d:
        raise AnchorMissing('R03.4: inter-level block definitions')
    c1 = chains.factors(d['A_hb_interlevel'][0].value)
    ctx.decide('R03.4', am.qual, 'A_hb_interlevel = ' + ' @ '.join(c1), len(c1) == 3 or None, d['A_hb_interlevel'][0], 'three-factor Galerkin product')

    def swap_selectors(f):
        # X[a][:,b]  <->  X[b][:,a]
        import re
        m = re.match(r'^(\w+)\[(.+)\]\[:,(.+)\]$', f)
        return '%s[%s][:,%s]' % (m.group(1), m.group(3), m.group(2)) if m else None
    mirror = None
    if len(c1) == 3:
        mid = swap_selectors(c1[1])
        mirror = [chains.transpose(c1[2]), mid, chains.transpose(c1[0])] if mid else None
    for s in d['A_hb_interlevel2']:
        c2 = chains.factors(s.value)
        facts = guards.path_conditions(s)
        if guards.has_literal(facts, 'symmetric', True):
            ok = c2 == ['A_hb_interlevel.T']
            ctx.decide('R03.4', am.qual, 'symmetric: A_hb_interlevel2 = ' + ' @ '.join(c2), ok, s, 'for a symmetric form the mirrored block is the transpose')
        else:
            if mirror is None:
                ctx.undecided('R03.4', am.qual, 'A_hb_interlevel2 = ' + ' @ '.join(c2), s, 'first chain not in selector form')
            else:
                ok = c2 == mirror
                same_parts = sorted(x.replace('.T', '') for x in c2) == sorted(x.replace('.T', '') for x in mirror) or len(c2) == 3
                ctx.decide('R03.4', am.qual, 'A_hb_interlevel2 = ' + ' @ '.join(c2), True if ok else (False if same_parts else None), s,
                           'must be the mirrored chain ' + ' @ '.join(mirror))
    calls = [c for c in ast.walk(am.node) if isinstance(c, ast.Call) and call_name(c) == 'insert_block']
    args = {src(c.args[0]): [src(a) for a in c.args[1:]] for c in calls}
    a1, a2 = args.get('A_hb_interlevel'), args.get('A_hb_interlevel2')
    if a1 is None or a2 is None:
        raise AnchorMissing('R03.4: insert_block calls')
    ctx.decide('R03.4', am.qual, 'insert_block(A_hb_interlevel, %s) / insert_block(A_hb_interlevel2, %s)' % (', '.join(a1), ', '.join(a2)),
               a1 == list(reversed(a2)), calls[0], 'the mirrored block goes to the transposed position')
    ctx.decide('R03.4', am.qual, 'insert_block(A_hb_new, %s)' % ', '.join(args.get('A_hb_new', [])), args.get('A_hb_new') == ['new[k]', 'new[k]'], calls[0],
               'diagonal block of the new dofs')
    ib = ctx.prog.func(HD + '.HDiscretization.assemble_matrix.<locals>.insert_block')
    t = src(ib.node).replace(' ', '')
    ok = 'coo_I.append(rows[I])' in t and 'coo_J.append(columns[J])' in t and 'values.append(B.data)' in t and 'I,J=B.nonzero()' in t
    ctx.decide('R03.4', ib.qual, 'block entries (I,J,data) mapped through rows/columns', ok or None, ib.node)
    ctx.decide('R03.4', ib.qual, 'B = B.tocsr() before nonzero()/data', 'B=B.tocsr()' in t or None, ib.node, 'nonzero() and .data must enumerate entries in the same (CSR) order')


def r03_5(ctx):
    bb = ctx.prog.func(HD + '.HDiscretization._bbox_for_functions')
    gens = [g for g in ast.walk(bb.node) if isinstance(g, ast.GeneratorExp) and 'supp_cells[:, j]' in src(g)]
    if not gens:
        raise AnchorMissing('R03.5: bounding box generator')
    e = gens[0].elt
    ok = isinstance(e, ast.Tuple) and src(e.elts[0]).replace(' ', '') == 'supp_cells[:,j].min()' and src(e.elts[1]).replace(' ', '') == 'supp_cells[:,j].max()+1'
    bad = isinstance(e, ast.Tuple) and src(e.elts[1]).replace(' ', '') in ('supp_cells[:,j].max()', 'supp_cells[:,j].max()+2', 'supp_cells[:,j].max()-1')
    ctx.decide('R03.5', bb.qual, src(e), True if ok else (False if bad else None), e, 'producer: (first cell, last cell + 1), exclusive upper limit')
    empty = [r for r in guards.returns_of(bb.node) if '(0, 0)' in src(r.value)]
    ctx.decide('R03.5', bb.qual, 'empty function set -> (0,0) per axis', bool(empty) or None, bb.node)
    # consumers in the code generator: string constants emitted into the generated __init__
    cg = ctx.prog.unit('pyiga.codegen.cython')
    consts = [n.value for n in ast.walk(cg.tree) if isinstance(n, ast.Constant) and isinstance(n.value, str) and 'bb[' in n.value]
    ctx.floor('R03.5', 'emitted code fragments using the bounding box', len(consts), 2)
    mesh = [c for c in consts if 'kv.mesh[' in c]
    ofs = [c for c in consts if 'bbox_ofs' in c]
    ok = bool(mesh) and all('kv.mesh[bb[0]:bb[1]+1]' in c.replace(' ', '') for c in mesh)
    bad = bool(mesh) and any('kv.mesh[bb[0]:bb[1]]' in c.replace(' ', '') or 'bb[1]+2' in c.replace(' ', '') for c in mesh)
    ctx.decide('R03.5', 'pyiga.codegen.cython.AsmGenerator.generate_init', mesh[0] if mesh else 'mesh slice', True if ok else (False if bad else None), cg.tree,
               'consumer: cells bb[0]..bb[1]-1 need mesh points bb[0]..bb[1], i.e. the slice bb[0]:bb[1]+1')
    ok = bool(ofs) and all('bb[0]*self.nqp' in c.replace(' ', '') for c in ofs)
    ctx.decide('R03.5', 'pyiga.codegen.cython.AsmGenerator.generate_init', ofs[0] if ofs else 'bbox_ofs', ok or None, cg.tree,
               'Gauss-node offset of the box = first cell * nodes per cell')
    # shipped generated code agrees with the template
    asm = ctx.prog.unit('pyiga.assemblers')
    n = sum(1 for x in ast.walk(asm.tree) if isinstance(x, ast.ListComp) and 'kv.mesh[bb[0]:bb[1] + 1]' in src(x))
    ctx.met('R03.5', 'pyiga.assemblers', '%d shipped __init__ methods slice kv.mesh[bb[0]:bb[1] + 1]' % n, asm.tree, nontrivial=n > 0)


def r03_6(ctx):
    am = ctx.prog.func(HD + '.HDiscretization.assemble_matrix')
    calls = {call_name(c): c for c in ast.walk(am.node) if isinstance(c, ast.Call) and call_name(c) in ('self._assemble_level', 'hs.represent_fine')}
    al, rf = calls.get('self._assemble_level'), calls.get('hs.represent_fine')
    if al is None or rf is None:
        raise AnchorMissing('R03.6: level assembly / representation calls')
    ok = src(kwarg(al, 'rows')) == 'to_assemble[k]' and src(kwarg(rf, 'rows')) == 'to_assemble[k]' and src(kwarg(al, 'bbox')) == 'bboxes[k]' \
        and src(kwarg(al, 'symmetric')) == 'symmetric' and src(kwarg(rf, 'truncate')) == 'False' and src(kwarg(rf, 'lv')) == 'k'
    ctx.decide('R03.6', am.qual, '%s ; %s' % (src(al), src(rf)), ok or None, al, 'the same row set is assembled and represented; HB representation; symmetric flag forwarded')
    ta = [s for s in ast.walk(am.node) if isinstance(s, ast.Expr) and isinstance(s.value, ast.Call) and src(s.value.func) == 'to_assemble.append']
    ok = bool(ta) and src(ta[0].value.args[0]).replace(' ', '') == 'indices|hs.actfun[k]'
    ctx.decide('R03.6', am.qual, src(ta[0]) if ta else 'to_assemble', ok or None, ta[0] if ta else am.node, 'rows = inter-level dofs plus all active dofs of the level')
    bbx = [s for s in ast.walk(am.node) if isinstance(s, ast.Expr) and isinstance(s.value, ast.Call) and src(s.value.func) == 'bboxes.append']
    ok = bool(bbx) and src(bbx[0].value.args[0]).replace(' ', '') == 'self._bbox_for_functions(k,to_assemble[-1])'
    ctx.decide('R03.6', am.qual, src(bbx[0]) if bbx else 'bboxes', ok or None, bbx[0] if bbx else am.node, 'the box covers exactly the functions that are assembled')
    pr = ctx.prog.func(HD + '._assemble_partial_rows')
    t = src(pr.node).replace(' ', '')
    ok = 'I,J=S.nonzeros_for_rows(row_indices)' in t and 'data=asm.multi_entries(np.column_stack((I,J)))' in t and 'scipy.sparse.coo_matrix((data,(I,J)),shape=S.shape)' in t
    ctx.decide('R03.6', pr.qual, 'entries requested at (I,J) are stored at (I,J)', ok or None, pr.node)
    ok = 'S=mlmatrix.MLStructure.from_kvs(kvs0,kvs1)' in t and 'kvs0,kvs1=asm.kvs' in t
    ctx.decide('R03.6', pr.qual, 'structure from (kvs0, kvs1) of the assembler', ok or None, pr.node)
    lev = ctx.prog.func(HD + '.HDiscretization._assemble_level')
    t = src(lev.node)
    ok = "asm_args['bbox'] = bbox" in t and 'compile.compile_vform(self.vf, on_demand=True)' in t
    ctx.decide('R03.6', lev.qual, 'on-demand assembler receives the bounding box', ok or None, lev.node)
    af = ctx.prog.func(HD + '.HDiscretization.assemble_functional')
    t = src(af.node).replace(' ', '')
    ok = 'rhs[i:i+na_k]=asm_rhs_level(k,act[k])' in t and 'i+=na_k' in t and 'bbox=self._bbox_for_functions(k,self.hs.actfun[k])' in t
    ctx.decide('R03.6', af.qual, 'level k fills rhs[i:i+na_k] with the entries of its active functions, box of the active functions', ok or None, af.node)


def r03_7(ctx):
    """Level unions are exhaustive: loops that accumulate per-level contributions (set unions, block insertion,
    right-hand side slices) have no break/continue/return that skips a level in the declared range."""
    n = 0
    for q in (HD + '.HDiscretization.assemble_matrix', HD + '.HDiscretization.assemble_functional'):
        f = ctx.prog.func(q)
        for l in [x for x in own_nodes(f.node) if isinstance(x, ast.For)]:
            it = src(l.iter)
            if not ('range(' in it or 'enumerate(' in it):
                continue
            acc = [s for s in ast.walk(l) if (isinstance(s, ast.AugAssign) and isinstance(s.op, (ast.BitOr, ast.Add)))
                   or (isinstance(s, ast.Expr) and isinstance(s.value, ast.Call) and isinstance(s.value.func, ast.Attribute) and s.value.func.attr == 'append')
                   or (isinstance(s, ast.Expr) and isinstance(s.value, ast.Call) and call_name(s.value) == 'insert_block')
                   or (isinstance(s, ast.Assign) and isinstance(s.targets[0], ast.Subscript) and src(s.targets[0].value) == 'rhs')]
            if not acc:
                continue
            n += 1
            exits = [x for x in ast.walk(l) if isinstance(x, (ast.Break, ast.Continue, ast.Return)) and _nearest_for(x, f.node) is l]
            # `continue` for a level whose own index set is empty (len(rows) == 0 / not rows): there is nothing to contribute
            def _empty_guard(x):
                if not isinstance(x, ast.Continue):
                    return False
                names = {y.id for y in ast.walk(l.target) if isinstance(y, ast.Name)}
                for (t_, pol, nd) in guards.path_conditions(x, stop=l):
                    tt = t_.replace(' ', '')
                    for v_ in names:
                        if (tt in ('len(%s)==0' % v_, 'notlen(%s)' % v_) and pol) or (tt in ('len(%s)' % v_, v_, 'len(%s)>0' % v_, 'len(%s)!=0' % v_) and not pol) \
                                or (tt == 'not' + v_ and pol):
                            return True
                return False
            exits = [x for x in exits if not _empty_guard(x)]
            if exits:
                ctx.violated('R03.7', q, 'for %s in %s: %s' % (src(l.target), it, type(exits[0]).__name__.lower()), exits[0],
                             'a level of the declared range is skipped: the hierarchical matrix needs the contribution of EVERY level in the range '
                             '(activity of functions is not monotone in the level, so an empty intermediate level does not imply empty coarser ones)')
            else:
                ctx.met('R03.7', q, 'for %s in %s accumulates over the whole range' % (src(l.target), it), l, 'no early exit')
    ctx.floor('R03.7', 'level accumulation loops', n, 4)


def _nearest_for(node, fn):
    p = parent(node)
    while p is not None and p is not fn:
        if isinstance(p, (ast.For, ast.While)):
            return p
        p = parent(p)
    return None


def r03_12(ctx):
    """The level spread of the interactions that assemble_matrix collects must be justified by the marking modes refine()
    admits.  `refine(marked, truncate=True)` closes the marks under the T-neighbourhood (support extension taken one level
    up and projected by cell_parent), which bounds the levels of the TRUNCATED functions over a cell; assemble_matrix
    assembles the HB-spline interactions (also as the first step of the THB matrix T^T A_HB T), which on such a mesh reach
    further down than `disparity` levels.  Either refine() has no such mode, or the inter-level range and the neighbour sets
    of assemble_matrix do not depend on the disparity."""
    rf = ctx.prog.func('pyiga.hierarchical.HSpace.refine')
    nb = ctx.prog.maybe_func('pyiga.hierarchical.HSpace._cell_neighborhood')
    am = ctx.prog.func('pyiga._hdiscr.HDiscretization.assemble_matrix')
    has_mode = 'truncate' in [a.arg for a in rf.node.args.args] and any(
        isinstance(c, ast.Call) and any(k.arg == 'truncate' and src(k.value) == 'truncate' for k in c.keywords) for c in ast.walk(rf.node))
    t_mode = False
    if nb is not None:
        for iff in [x for x in ast.walk(nb.node) if isinstance(x, ast.If) and src(x.test) == 'truncate' and x.orelse]:
            if src(ast.Module(iff.body, [])) != src(ast.Module(iff.orelse, [])):
                t_mode = True       # the two modes select different neighbourhoods
    # the bound used by the assembly
    loops = [l for l in ast.walk(am.node) if isinstance(l, ast.For) and isinstance(l.iter, ast.Call) and src(l.iter.func) == 'range'
             and any(isinstance(c, ast.Call) and 'function_grandchildren' in src(c.func) for st in l.body
                     if not isinstance(st, (ast.For, ast.While)) for c in ast.walk(st))]
    if not loops:
        ctx.undecided('R03.12', am.qual, 'inter-level loop of assemble_matrix', am.node, 'loop over the coarser levels not recognised')
        return
    loop = loops[0]
    bounded = 'disparity' in src(loop.iter)
    ncall = [c for c in ast.walk(am.node) if isinstance(c, ast.Call) and src(c.func).endswith('cell_supp_indices')]
    n_all = bool(ncall) and any(k.arg == 'all_levels' and src(k.value) == 'True' for k in ncall[0].keywords)
    csi = ctx.prog.func('pyiga.hierarchical.HSpace.cell_supp_indices')
    n_bounded = 'disparity' in src(csi.node) and not n_all
    if not (has_mode and t_mode):
        ctx.met('R03.12', am.qual, 'for lv in ' + src(loop.iter), loop, 'refine() only establishes the H-admissibility the bound relies on')
    elif bounded or n_bounded:
        ctx.violated('R03.12', am.qual, 'for lv in %s%s' % (src(loop.iter), '' if bounded else ' (neighbour sets bounded by the disparity)'), loop,
                     'refine(marked, truncate=True) is admitted and closes the marks under the T-neighbourhood only, which bounds the level spread '
                     'of the truncated functions; assemble_matrix collects HB-spline interactions at most `disparity` levels down (also as the first '
                     'step of the THB matrix), so on such a mesh inter-level blocks are missing: the assembled matrix differs from I^T A_fine I '
                     '(p=2, 4x4 cells, disparity 1, three corner refinements with truncate=True: relative deviation 2.7e-2)')
    else:
        ctx.met('R03.12', am.qual, 'for lv in ' + src(loop.iter), loop, 'all coarser levels are searched: no admissibility assumption')


def r03_13(ctx):
    """(a) function_grandchildren(lv, indices, target) descends one level per recursion step WITH the children of its
    indices: the recursive call receives function_children(lv, indices), not the indices of level lv themselves.
    (b) The rows of level k that assemble_matrix computes contain every row needed to represent the coarse neighbours
    (interlevel_ix) plus the active functions: nothing is removed from that union -- a deactivated level-k function can be a
    grandchild of an active coarse function and still overlap active level-k functions."""
    fg = ctx.prog.func(H + '.HMesh.function_grandchildren')
    params = [a.arg for a in fg.node.args.args]
    rec = [c for c in ast.walk(fg.node) if isinstance(c, ast.Call) and src(c.func).endswith('function_grandchildren')]
    for c in rec:
        if len(c.args) < 2:
            continue
        a1 = resolve.expand(c.args[1], c)
        via_children = any(isinstance(x, ast.Call) and src(x.func).endswith('function_children') for x in ast.walk(a1))
        same = isinstance(c.args[1], ast.Name) and len(params) > 2 and c.args[1].id == params[2] and not via_children
        ctx.decide('R03.13', fg.qual, src(c)[:100], True if via_children else (False if same else None), c,
                   'the next level receives the children' if via_children else
                   'the recursion passes the indices of level lv on to level lv+1 unchanged: for a level gap of two or more the wrong rows are '
                   'collected for the inter-level blocks of assemble_matrix (missing rows are silently zero)', definite=True)
    am = ctx.prog.func(HD + '.HDiscretization.assemble_matrix')
    ap = [c for c in ast.walk(am.node) if isinstance(c, ast.Call) and src(c.func) == 'to_assemble.append' and c.args]
    for c in ap:
        e = resolve.expand(c.args[0], c, keep=('indices', 'hs', 'k'))
        subtr = [b for b in ast.walk(e) if isinstance(b, ast.BinOp) and isinstance(b.op, ast.Sub)] + \
                [x for x in ast.walk(e) if isinstance(x, ast.Call) and isinstance(x.func, ast.Attribute) and x.func.attr in ('difference', 'intersection')] + \
                [b for b in ast.walk(e) if isinstance(b, ast.BinOp) and isinstance(b.op, ast.BitAnd)]
        has_inter = any(isinstance(x, ast.Name) and x.id == 'indices' for x in ast.walk(e))
        ctx.decide('R03.13', am.qual, src(c)[:100], False if subtr else (True if has_inter else None), c,
                   'rows to assemble = inter-level rows united with the active functions' if not subtr else
                   'rows are REMOVED from the union of the inter-level rows and the active functions: a row that represents a coarse neighbour '
                   'on level k is then neither assembled nor filled in the representation matrix, and its share of a(coarse, fine) is lost',
                   definite=True)


def r03_14(ctx):
    """Row / column indices and values of a sparse block come from ONE view of it.  B.nonzero() drops explicitly stored
    zeros while B.data keeps them, so pairing the two gives arrays of different lengths whenever a block has a stored zero
    (a coefficient that vanishes on part of the domain)."""
    n = 0
    for q in (HD + '.HDiscretization.assemble_matrix',):
        fi = ctx.prog.func(q)
        for fn in [fi.node] + [x for x in ast.walk(fi.node) if isinstance(x, ast.FunctionDef) and x is not fi.node]:
            nz = [c for c in ast.walk(fn) if isinstance(c, ast.Call) and isinstance(c.func, ast.Attribute) and c.func.attr == 'nonzero' and not c.args]
            for c in nz:
                recv = src(c.func.value)
                uses_data = [x for x in ast.walk(fn) if isinstance(x, ast.Attribute) and x.attr == 'data' and src(x.value) == recv]
                if not uses_data:
                    continue
                n += 1
                ctx.violated('R03.14', fi.qual, '%s.nonzero() with %s.data' % (recv, recv), c,
                             'the index arrays come from %s.nonzero(), which omits explicitly stored zeros, the values from %s.data, which keeps '
                             'them: a form whose tensor-product matrix has stored zeros (w*u*v*dx with w = 0 on half of the domain) cannot be '
                             'assembled over an HSpace (ValueError: all index and data arrays must have the same length)' % (recv, recv))
    if n == 0:
        ctx.met('R03.14', HD + '.HDiscretization.assemble_matrix', 'indices and values of every block come from one view', None,
                'no nonzero()/data pairing', where='pyiga/_hdiscr.py')


def r03_15(ctx):
    """The level-wise assemblers of HDiscretization are constructed with every argument the compiled class requires: its
    input fields AND its constant parameters -- as assemble.instantiate_assembler does for tensor-product spaces
    (inputs().keys() chained with parameters().keys())."""
    ia = ctx.prog.func('pyiga.assemble.instantiate_assembler')
    sibling_has_params = 'parameters()' in src(ia.node)
    n = 0
    for q in (HD + '.HDiscretization._assemble_level', HD + '.HDiscretization.assemble_functional'):
        fi = ctx.prog.maybe_func(q)
        if fi is None:
            continue
        for d in [x for x in ast.walk(fi.node) if isinstance(x, ast.DictComp) and 'asm_args' in src(x.value)]:
            n += 1
            it = ' '.join(src(g.iter) for g in d.generators)
            has_params = 'params' in it or 'parameters' in it
            ctx.decide('R03.15', fi.qual, src(d)[:90], True if has_params else (False if sibling_has_params else None), d,
                       'inputs and parameters are handed to the level assembler' if has_params else
                       'only the input FIELDS of the form are passed on (%s); a form with a constant parameter (c * u * v * dx with c=2.0) cannot be '
                       'assembled over an HSpace (TypeError from the compiled class), while the tensor-product driver passes inputs and '
                       'parameters' % it, definite=True)
    ctx.floor('R03.15', 'argument dictionaries of the level assemblers', n, 2)


def run(ctx):
    r03_15(ctx)
    r03_14(ctx)
    r03_13(ctx)
    r03_12(ctx)
    r03_7(ctx)
    r03_1(ctx)
    r03_2(ctx)
    r03_3(ctx)
    r03_4(ctx)
    r03_5(ctx)
    r03_6(ctx)
    # R03.8 = R11.2: the neighbour sets of assemble_matrix are cell_supp_indices(remove_dirichlet=False)
    import rules.C11 as c11
    ctx.shared(c11.r11_2, 'R11.2', 'R03.8')
    # R03.9 = R04.4 (cached index lists place the inter-level blocks), R03.10 = R05.6 (truncation structure behind thb_to_hb)
    import rules.C04 as c04
    import rules.C05 as c05
    ctx.shared(c04.r04_4, 'R04.4', 'R03.9')
    ctx.shared(c05.r05_6, 'R05.6', 'R03.10')
    # R03.11 = R04.6: the disparity the level-wise assembly relies on (blocks only `disparity` levels down) is established by
    # the marking closure of refine()
    ctx.shared(c04.r04_6, 'R04.6', 'R03.11')
    # R03.16 = R05.11: thb_to_hb composes the truncation of EVERY level (no exit / skip under "this level has no active functions":
    # truncate_one_level(k) truncates all coarser functions with respect to level k+1); R03.17 = R08.3: options of assemble()
    # reach the hierarchical branch under their own names (wave 8: bfuns dropped, args passed in its position)
    ctx.shared(c05.r05_11, 'R05.11', 'R03.16')
    import rules.C08 as c08
    ctx.shared(c08.r08_3, 'R08.3', 'R03.17')

"""C09 -- tensor-product fast paths and closed-form identities (structural clauses)."""
import ast
import itertools

from sa.program import src, own_nodes, call_name, parent, kwarg, AnchorMissing
from sa import guards, poly, affine, resolve
from sa.poly import Rat, Poly

EXPLANATION = (
    "Static rules over pyiga/assemble.py, assemble_tools_cy.pyx and quadrature.py: (R09.1) the closed-form 2x2/3x3 determinant and "
    "inverse kernels (det_and_inv_2x2, inverses_2x2, determinants (2x2 branch), det_and_inv_3x3, inverses_3x3, determinants_3x3) are "
    "evaluated symbolically on a generic matrix: the determinant equals the Leibniz polynomial and Y*X equals the identity as "
    "rational functions, entry by entry; (R09.2) the geometry-free stiffness is a Kronecker sum with exactly one 1D stiffness factor "
    "per term at that axis and mass factors elsewhere, in the order of the knot vectors; the mass is the Kronecker product of the "
    "1D masses in order; (R09.3) the default number of Gauss nodes of the 1D bilinear forms is ceil((D+1)/2) with D the degree of "
    "the integrand actually formed; (R09.4) in the two-space routine row-side objects derive from the test space and column-side "
    "objects from the trial space; (R09.5) inner_products and integrate share quadrature, physical switch, weights and |det J| "
    "factor; (R09.6) element-matrix slicing and COO index construction use one node count and the same first-active indices.")
EXPLANATION_MORE = ("  Added after the seeded waves: (R09.7 = R17.6) inner_products / integrate weight by |det J|; (R09.8) quadrature "
                    "producers return freshly allocated rules, because consumers scale the weights they obtained in place.")
DOES_NOT_DECIDE ="SPD/kernel/sum identities of assembled matrices, numerical exactness, the low-rank assembler and fastasm.cc (no C++ front end; R09.10 only compares two sibling index expressions token by token)"
TECHNIQUE = "symbolic evaluation of straight-line kernels into polynomial/rational normal forms; term algebra of Kronecker sums; affine algebra; provenance of local names"

A = 'pyiga.assemble'
AT = 'pyiga.assemble_tools_cy'


# ------------------------------------------------------------------ R09.1
def matrix_symbol(node):
    """X[..., r, c] / x[r, c] with constant r, c -> 'x_rc'"""
    if isinstance(node, ast.Subscript) and isinstance(node.slice, ast.Tuple) and len(node.slice.elts) >= 2:
        r, c = node.slice.elts[-2], node.slice.elts[-1]
        if isinstance(r, ast.Constant) and isinstance(c, ast.Constant) and isinstance(r.value, int) and isinstance(c.value, int):
            base = src(node.value)
            return base, r.value, c.value
    return None


def symbolic_kernel(fn, in_names=('X', 'x'), out_names=('Y', 'y')):
    """Evaluate the innermost straight-line statements symbolically.
    Returns (env, outputs{(r,c): Rat}, det Rat or None)."""
    env = {}
    outputs = {}

    def atom(n):
        ms = matrix_symbol(n)
        if ms and ms[0] in in_names:
            return 'x%d%d' % (ms[1], ms[2])
        return None

    def ev(e):
        return poly.from_ast(e, atom, env)
    stmts = [s for s in own_nodes(fn) if isinstance(s, ast.Assign)]
    for s in stmts:
        t = s.targets[0]
        try:
            if isinstance(t, ast.Tuple) and isinstance(s.value, ast.Tuple) and len(t.elts) == len(s.value.elts):
                vals = [ev(v) for v in s.value.elts]
                for tt, vv in zip(t.elts, vals):
                    if isinstance(tt, ast.Name):
                        env[tt.id] = vv
                continue
            ms = matrix_symbol(t)
            if ms and ms[0] in out_names:
                outputs[(ms[1], ms[2])] = ev(s.value)
                continue
            if isinstance(t, ast.Name):
                if t.id in in_names or t.id in out_names:
                    continue            # x = X[i0, i1, i2, :, :] view binding
                env[t.id] = ev(s.value)
        except poly.NotPolynomial:
            continue
    return env, outputs


def leibniz(n, sym=lambda r, c: Rat(Poly.sym('x%d%d' % (r, c)))):
    total = Rat(Poly.const(0))
    for perm in itertools.permutations(range(n)):
        sign = 1
        for i in range(n):
            for j in range(i + 1, n):
                if perm[i] > perm[j]:
                    sign = -sign
        term = Rat(Poly.const(sign))
        for i in range(n):
            term = term * sym(i, perm[i])
        total = total + term
    return total


def r09_1(ctx):
    specs = [('det_and_inv_2x2', 2, True, True), ('inverses_2x2', 2, False, True), ('det_and_inv_3x3', 3, True, True),
             ('inverses_3x3', 3, False, True), ('determinants_3x3', 3, True, False)]
    for name, n, has_det, has_inv in specs:
        fi = ctx.prog.func('%s.%s' % (AT, name))
        env, outputs = symbolic_kernel(fi.node)
        D = leibniz(n)
        if name == 'determinants_3x3':
            # Y[i0,i1,i2] = det expression
            st = [s for s in own_nodes(fi.node) if isinstance(s, ast.Assign) and src(s.targets[0]).startswith('Y[')]
            if not st:
                raise AnchorMissing('R09.1: store of the determinant in determinants_3x3')

            def atom(nn):
                ms = matrix_symbol(nn)
                return 'x%d%d' % (ms[1], ms[2]) if ms and ms[0] in ('x', 'X') else None
            try:
                got = poly.from_ast(st[0].value, atom)
                ok = got == D
            except poly.NotPolynomial:
                ok = None
            ctx.decide('R09.1', fi.qual, 'determinant expression', ok, st[0], 'equals the Leibniz polynomial of a generic 3x3 matrix')
            continue
        det = env.get('det')
        if det is None:
            raise AnchorMissing('R09.1: det not computed in ' + name)
        ctx.decide('R09.1', fi.qual, 'det', det == D, fi.node, 'equals the Leibniz polynomial of a generic %dx%d matrix' % (n, n))
        if has_det:
            store = [s for s in own_nodes(fi.node) if isinstance(s, ast.Assign) and src(s.targets[0]).startswith('det_out[') and src(s.value) == 'det']
            ctx.decide('R09.1', fi.qual, 'det_out[...] = det', bool(store), fi.node)
        if has_inv:
            ctx.decide('R09.1', fi.qual, '%d entries of the inverse are stored' % len(outputs), len(outputs) == n * n, fi.node)
            for i in range(n):
                for j in range(n):
                    try:
                        acc = Rat(Poly.const(0))
                        for k in range(n):
                            if (i, k) not in outputs:
                                raise KeyError
                            acc = acc + outputs[(i, k)] * Rat(Poly.sym('x%d%d' % (k, j)))
                        ok = acc == Rat(Poly.const(1 if i == j else 0))
                    except KeyError:
                        ok = None
                    ctx.decide('R09.1', fi.qual, '(Y X)[%d,%d] == %d' % (i, j, 1 if i == j else 0), ok, fi.node,
                               'inverse times matrix equals the identity as a rational function')
    # Python 2x2 branch of determinants()
    d = ctx.prog.func(AT + '.determinants')
    rets = [r for r in guards.returns_of(d.node) if 'X[:, :, 0, 0]' in src(r.value)]
    if not rets:
        raise AnchorMissing('R09.1: 2x2 branch of determinants()')

    def atom2(nn):
        ms = matrix_symbol(nn)
        return 'x%d%d' % (ms[1], ms[2]) if ms else None
    try:
        ok = poly.from_ast(rets[0].value, atom2) == leibniz(2)
    except poly.NotPolynomial:
        ok = None
    ctx.decide('R09.1', d.qual, src(rets[0].value), ok, rets[0], '2x2 determinant')
    # dispatch tables
    for q, table in ((AT + '.det_and_inv', {'2': 'det_and_inv_2x2', '3': 'det_and_inv_3x3'}), (AT + '.inverses', {'(2, 2)': 'inverses_2x2', '(3, 3)': 'inverses_3x3'}),
                     (AT + '.determinants', {'3': 'determinants_3x3'})):
        f = ctx.prog.func(q)
        for iff in [s for s in ast.walk(f.node) if isinstance(s, ast.If) and isinstance(s.test, ast.Compare)]:
            key = src(iff.test.comparators[0])
            if key in table:
                called = [call_name(c) for c in ast.walk(ast.Module(iff.body, [])) if isinstance(c, ast.Call)]
                ctx.decide('R09.1', q, 'size %s -> %s' % (key, table[key]), table[key] in called, iff, 'dispatch to the kernel of that size')


# ------------------------------------------------------------------ R09.2
def kron_terms(e, env):
    """value = list of terms, each term = tuple of factor tokens"""
    if isinstance(e, ast.Name):
        if e.id in env:
            return env[e.id]
        return [(e.id,)]
    if isinstance(e, ast.Subscript):
        t = src(e).replace(' ', '')
        return env.get(t, [(t,)])
    if isinstance(e, ast.BinOp) and isinstance(e.op, ast.Add):
        return kron_terms(e.left, env) + kron_terms(e.right, env)
    if isinstance(e, ast.Call):
        n = call_name(e)
        if n in ('scipy.sparse.kron', 'k', 'np.kron') and len(e.args) >= 2:
            a, b = kron_terms(e.args[0], env), kron_terms(e.args[1], env)
            return [ta + tb for ta in a for tb in b]
    return [(src(e).replace(' ', ''),)]


def r09_2(ctx):
    for dim in (2, 3):
        for kind in ('mass', 'stiffness'):
            f = ctx.prog.func('%s.bsp_%s_%dd' % (A, kind, dim))
            br = [s for s in f.node.body if isinstance(s, ast.If) and src(s.test).replace(' ', '') == 'geoisNone']
            if not br:
                raise AnchorMissing('R09.2: geometry-free branch of ' + f.qual)
            body = br[0].body
            env = {}
            tags = {}
            # bindings:  (kv1, kv2) = knotvecs ; M1 = bsp_mass_1d(kv1) ; M = [bsp_mass_1d(kv) for kv in knotvecs] ; MK = [(mass, stiff) ...]
            kvnames = {}
            for s in body:
                if isinstance(s, ast.Assign) and isinstance(s.targets[0], ast.Tuple) and src(s.value) == 'knotvecs':
                    for i, e in enumerate(s.targets[0].elts):
                        kvnames[src(e)] = i
            for s in body:
                if isinstance(s, ast.Assign) and isinstance(s.targets[0], ast.Name) and isinstance(s.value, ast.Call):
                    n = call_name(s.value)
                    if n in ('bsp_mass_1d', 'bsp_stiffness_1d') and s.value.args and src(s.value.args[0]) in kvnames:
                        tags[s.targets[0].id] = ('M' if 'mass' in n else 'K', kvnames[src(s.value.args[0])])
                if isinstance(s, ast.Assign) and isinstance(s.targets[0], ast.Name) and isinstance(s.value, ast.ListComp):
                    lc = s.value
                    if src(lc.generators[0].iter) == 'knotvecs':
                        name = s.targets[0].id
                        if isinstance(lc.elt, ast.Tuple):
                            kinds = ['M' if 'mass' in src(x) else 'K' for x in lc.elt.elts]
                            for ax in range(dim):
                                for j, kd in enumerate(kinds):
                                    tags['%s[%d][%d]' % (name, ax, j)] = (kd, ax)
                        else:
                            kd = 'M' if 'mass' in src(lc.elt) else 'K'
                            for ax in range(dim):
                                tags['%s[%d]' % (name, ax)] = (kd, ax)
            for s in body:
                if isinstance(s, ast.Assign) and isinstance(s.targets[0], ast.Name) and s.targets[0].id not in tags and not isinstance(s.value, ast.ListComp):
                    env[s.targets[0].id] = kron_terms(s.value, env)
            ret = [s for s in body if isinstance(s, ast.Return)]
            if not ret:
                raise AnchorMissing('R09.2: return in ' + f.qual)
            terms = kron_terms(ret[0].value, env)
            typed = [[tags.get(tok) for tok in t] for t in terms]
            desc = ' + '.join(' x '.join('%s%d' % tg if tg else '?' for tg in t) for t in typed)
            if any(tg is None for t in typed for tg in t):
                ctx.undecided('R09.2', f.qual, desc, ret[0], 'factor not bound to a 1D mass/stiffness matrix')
                continue
            ok_order = all([tg[1] for tg in t] == list(range(dim)) for t in typed)
            if kind == 'mass':
                ok = len(typed) == 1 and all(tg[0] == 'M' for tg in typed[0]) and ok_order
                why = 'Kronecker product of the 1D mass matrices in the order of the knot vectors'
            else:
                kpos = sorted([i for i, tg in enumerate(t) if tg[0] == 'K'] for t in typed)
                ok = len(typed) == dim and kpos == [[i] for i in range(dim)] and ok_order
                why = 'Kronecker sum: one term per axis with the stiffness factor at that axis and mass factors elsewhere'
            ctx.decide('R09.2', f.qual, desc, ok, ret[0], why)
            fmt = [kwarg(c, 'format') for c in ast.walk(ast.Module(body, [])) if isinstance(c, ast.Call) and call_name(c) == 'scipy.sparse.kron']
            ctx.decide('R09.2', f.qual, 'format forwarded to every kron (%d calls)' % len(fmt), bool(fmt) and all(x is not None and src(x) == 'format' for x in fmt), br[0])
    for q, want in ((A + '.bsp_mass_1d', ('0', '0')), (A + '.bsp_stiffness_1d', ('1', '1')), (A + '.bsp_mass_1d_asym', ('0', '0')), (A + '.bsp_stiffness_1d_asym', ('1', '1'))):
        f = ctx.prog.func(q)
        c = guards.returns_of(f.node)[-1].value
        c = resolve.expand(c, guards.returns_of(f.node)[-1]) if not isinstance(c, ast.Call) else c
        if not isinstance(c, ast.Call):
            ctx.undecided('R09.2', q, src(c)[:80], f.node, 'result is not a call of the mixed-derivative form')
            continue
        args = [src(a) for a in c.args]
        pos = 1 if 'asym' not in q else 2
        du = kwarg(c, 'du', 99)
        dv = kwarg(c, 'dv', 99)
        got = (src(du) if du is not None and len(args) <= pos else (args[pos] if len(args) > pos else None),
               src(dv) if dv is not None and len(args) <= pos + 1 else (args[pos + 1] if len(args) > pos + 1 else None))
        ctx.decide('R09.2', q, src(c), (got == want) if None not in got else None, c, 'derivative orders (du, dv) = %s' % (want,))
    for q in (A + '.mass', A + '.stiffness'):
        f = ctx.prog.func(q)
        kind = q.split('.')[-1]
        calls = {call_name(c): c for c in ast.walk(f.node) if isinstance(c, ast.Call) and (call_name(c) or '').startswith('bsp_')}
        ok = set(calls) == {'bsp_%s_%dd' % (kind, d) for d in (1, 2, 3)}
        ctx.decide('R09.2', q, 'dispatch to %s' % sorted(calls), ok, f.node, 'every dimension routed to its own routine of the same kind')
        for name, c in calls.items():
            if name.endswith('1d'):
                continue
            ctx.decide('R09.2', q, src(c), [src(a) for a in c.args] == ['kvs', 'geo', 'format'], c, 'geometry and format forwarded')


# ------------------------------------------------------------------ R09.3
def r09_3(ctx):
    P = affine.Lin.sym
    for q, total in ((A + '.bsp_mixed_deriv_biform_1d', affine.Lin({'knotvec.p': 2, 'du': -1, 'dv': -1})),
                     (A + '.bsp_mixed_deriv_biform_1d_asym', affine.Lin({'knotvec1.p': 1, 'knotvec2.p': 1, 'du': -1, 'dv': -1}))):
        f = ctx.prog.func(q)
        st = [s for s in ast.walk(f.node) if isinstance(s, ast.Assign) and src(s.targets[0]) == 'nqp']
        if not st:
            raise AnchorMissing('R09.3: default nqp in ' + q)
        v = st[0].value
        # int(math.ceil(NUM / 2.0))
        inner = v
        while isinstance(inner, ast.Call) and call_name(inner) in ('int', 'math.ceil', 'np.ceil', 'ceil'):
            inner = inner.args[0]
        ok = None
        if isinstance(inner, ast.BinOp) and isinstance(inner.op, ast.Div):
            den = inner.right
            try:
                num = affine.from_ast(inner.left)
                d_ok = isinstance(den, ast.Constant) and float(den.value) == 2.0
                ok = d_ok and (num == total + 1)
                why = 'numerator %r, expected %r (degree of the integrand + 1)' % (num, total + 1)
            except affine.NonAffine:
                why = 'not affine'
        else:
            why = 'shape not recognised'
        ctx.decide('R09.3', q, src(st[0]), ok, st[0], 'q-point Gauss rule is exact up to degree 2q-1: q = ceil((D+1)/2); ' + why)
        facts = guards.path_conditions(st[0])
        ctx.decide('R09.3', q, 'default only when nqp is None', guards.has_literal(facts, 'nqp is None', True), st[0])
    f = ctx.prog.func(A + '.bsp_mixed_deriv_biform_1d')
    d = [s for s in own_nodes(f.node) if isinstance(s, ast.Assign) and src(s.targets[0]) == 'derivs']
    ok = bool(d) and src(d[0].value).replace(' ', '') == 'bspline.active_deriv(knotvec,q[0],max(du,dv))'
    ctx.decide('R09.3', f.qual, src(d[0]) if d else 'derivs', ok or None, d[0] if d else f.node, 'derivative jets up to the larger order')
    r = guards.returns_of(f.node)[-1].value
    a = [src(x).replace(' ', '') for x in r.args]
    ok = len(a) >= 4 and a[2] == 'derivs[dv,:,:]' and a[3] == 'derivs[du,:,:]'
    bad = len(a) >= 4 and a[2] == 'derivs[du,:,:]' and a[3] == 'derivs[dv,:,:]'
    ctx.decide('R09.3', f.qual, src(r), True if ok else (False if bad else None), r, 'rows = test functions (dv), columns = trial functions (du)')


# ------------------------------------------------------------------ R09.4
def provenance(fn, roots):
    """name -> set of roots it (transitively) depends on"""
    dep = {r: {r} for r in roots}
    changed = True
    assigns = [s for s in own_nodes(fn) if isinstance(s, ast.Assign)]
    while changed:
        changed = False
        for s in assigns:
            names = {n.id for n in ast.walk(s.value) if isinstance(n, ast.Name)}
            d = set()
            for n in names:
                d |= dep.get(n, set())
            for t in s.targets:
                tl = t.elts if isinstance(t, ast.Tuple) else [t]
                for x in tl:
                    if isinstance(x, ast.Name):
                        old = dep.get(x.id, set())
                        if not d <= old:
                            dep[x.id] = old | d
                            changed = True
    return dep


def basis_provenance(fn):
    """name -> set of knot vectors used as the *spline basis* in its definition
    (first argument of active_deriv / receiver of first_active_at), propagated through aliases."""
    dep = {}
    assigns = [s for s in own_nodes(fn) if isinstance(s, ast.Assign) and len(s.targets) == 1 and isinstance(s.targets[0], ast.Name)]
    for s in assigns:
        b = set()
        for c in ast.walk(s.value):
            if isinstance(c, ast.Call) and call_name(c) in ('bspline.active_deriv', 'active_deriv', 'bspline.collocation') and c.args:
                b.add(src(c.args[0]))
            if isinstance(c, ast.Attribute) and c.attr in ('first_active_at', 'first_active', 'findspan') and isinstance(c.value, ast.Name):
                b.add(c.value.id)
        if b:
            dep[s.targets[0].id] = b
    changed = True
    while changed:
        changed = False
        for s in assigns:
            if s.targets[0].id in dep:
                continue
            if isinstance(s.value, (ast.Name, ast.Subscript, ast.Attribute)):
                base = s.value
                while isinstance(base, (ast.Subscript, ast.Attribute)):
                    base = base.value
                if isinstance(base, ast.Name) and base.id in dep:
                    dep[s.targets[0].id] = set(dep[base.id])
                    changed = True
    return dep


def r09_4(ctx):
    f = ctx.prog.func(A + '.bsp_mixed_deriv_biform_1d_asym')
    dep = basis_provenance(f.node)
    for name, want in (('derivs1', 'knotvec1'), ('derivs2', 'knotvec2'), ('first_act1', 'knotvec1'), ('first_act2', 'knotvec2')):
        got = {x for x in dep.get(name, set()) if x.startswith('knotvec')}
        ctx.decide('R09.4', f.qual, '%s derives from %s' % (name, sorted(got)), got == {want}, f.node, 'expected ' + want)
    d = {src(s.targets[0]): s.value for s in own_nodes(f.node) if isinstance(s, ast.Assign) and len(s.targets) == 1}
    for nm, (kv, dd) in (('derivs1', ('knotvec1', 'du')), ('derivs2', ('knotvec2', 'dv'))):
        v = d.get(nm)
        ok = v is not None and src(v).replace(' ', '') == 'bspline.active_deriv(%s,q[0],%s)[%s,:,:]' % (kv, dd, dd)
        ctx.decide('R09.4', f.qual, '%s = %s' % (nm, src(v)), ok or None, f.node, '%s-th derivative of the %s functions' % (dd, 'trial' if kv == 'knotvec1' else 'test'))
    coo = [c for c in ast.walk(f.node) if isinstance(c, ast.Call) and call_name(c) == '_create_coo_1d_custom']
    asm = [c for c in ast.walk(f.node) if isinstance(c, ast.Call) and call_name(c) == '_assemble_matrix_custom']
    if not coo or not asm:
        raise AnchorMissing('R09.4: COO / assembly calls')
    ca = [src(a) for a in coo[0].args]
    row_side = {x for nm in (ca[1], ca[3]) for x in dep.get(nm.split('.')[0], set()) if x.startswith('knotvec')}
    col_side = {x for nm in (ca[2], ca[4]) for x in dep.get(nm.split('.')[0], set()) if x.startswith('knotvec')}
    ctx.decide('R09.4', f.qual, src(coo[0]), row_side == {'knotvec2'} and col_side == {'knotvec1'}, coo[0],
               'row indices from the test space (knotvec2), column indices from the trial space (knotvec1): result is numdofs2 x numdofs1')
    aa = [src(a) for a in asm[0].args]
    rs = {x for x in dep.get(aa[2], set()) if x.startswith('knotvec')}
    cs = {x for x in dep.get(aa[3], set()) if x.startswith('knotvec')}
    ctx.decide('R09.4', f.qual, src(asm[0]), rs == {'knotvec2'} and cs == {'knotvec1'}, asm[0], 'element matrices: rows test, columns trial')
    fp = d.get('first_points')
    ok = fp is not None and src(fp).replace(' ', '') == 'q[0][::nqp]'
    ctx.decide('R09.4', f.qual, 'first_points = ' + src(fp), ok or None, f.node, 'one (first) quadrature node per span identifies the active functions')


# ------------------------------------------------------------------ R09.5
def r09_5(ctx):
    a = ctx.prog.func(A + '.inner_products')
    b = ctx.prog.func(A + '.integrate')

    def norm_body(fn):
        out = []
        for s in fn.body:
            if isinstance(s, ast.Expr) and isinstance(s.value, ast.Constant):
                continue
            out.append(s)
        return out
    sa_, sb_ = norm_body(a.node), norm_body(b.node)
    common = 0
    diffs = []
    for x, y in zip(sa_, sb_):
        tx, ty = src(x), src(y)
        tx2 = tx.replace("'inner_products in physical domain requires geometry'", 'MSG')
        ty2 = ty.replace("'integrate in physical domain requires geometry'", 'MSG')
        if tx2 == ty2:
            common += 1
        else:
            diffs.append((x, y))
    ctx.decide('R09.5', A + '.inner_products/integrate', '%d leading statements identical' % common, common >= 5, a.node,
               'quadrature rule, physical switch, weighting are the same code')
    # the |det J| factor in both
    for f in (a, b):
        t = src(f.node).replace(' ', '')
        ok = 'geo_det=np.abs(assemble_tools.determinants(geo_jac))' in t and 'fvals*=geo_det' in t and 'geo_jac=geo.grid_jacobian(gaussgrid)' in t
        ctx.decide('R09.5', f.qual, 'fvals *= |det J| on the Gauss grid', ok, f.node)
        ok = 'fvals=tensor.apply_tprod([operators.DiagonalOperator(gw)forgwingaussweights],fvals)' in t
        ctx.decide('R09.5', f.qual, 'weights applied along every axis', ok, f.node)
        ok = 'iff_physical:' in t and 'utils.grid_eval_transformed(f,gaussgrid,geo)' in t and 'utils.grid_eval(f,gaussgrid)' in t
        ctx.decide('R09.5', f.qual, 'f_physical selects evaluation at mapped points', ok, f.node)
    t = src(a.node).replace(' ', '')
    ok = 'Ct=[bspline.collocation(kvs[i],gaussgrid[i]).Tforiinrange(len(kvs))]' in t and 'returntensor.apply_tprod(Ct,fvals)' in t
    ctx.decide('R09.5', a.qual, 'sum over Gauss nodes through transposed collocation matrices per axis', ok, a.node)
    t = src(b.node).replace(' ', '')
    ok = 'returnfvals.sum(axis=tuple(range(len(kvs))))' in t
    ctx.decide('R09.5', b.qual, 'sum over all coordinate axes', ok, b.node)


# ------------------------------------------------------------------ R09.8
def r09_8(ctx):
    """Quadrature rules are values, not shared objects.  Some consumers scale the weights of the rule they obtained in place
    (`qweights = q[1]; qweights *= weightfunc(...)`); that is only sound while every producer in pyiga.quadrature returns
    freshly allocated arrays.  A producer that hands out stored arrays (a memo) turns those sites into writes to shared
    state: every later request for the same rule integrates against the polluted weights."""
    from sa import effects
    Q = 'pyiga.quadrature'
    summ = effects.build_summaries(ctx.prog, modules={Q})
    producers = {f.name: f for f in ctx.prog.funcs_in(Q)}
    ctx.floor('R09.8', 'quadrature producers', len(producers), 3)
    fresh = {name for name in producers if summ.get(name) == 'fresh'}
    sites = []
    for modname in ('pyiga.assemble', 'pyiga.bspline', 'pyiga.approx', 'pyiga.assemble_tools', Q):
        for fi in ctx.prog.funcs_in(modname, include_nested=True):
            bound = {}      # local name -> producer it (partly) aliases
            for s in own_nodes(fi.node):
                if isinstance(s, ast.Assign) and len(s.targets) == 1:
                    v = s.value
                    src_names = [n for n in ast.walk(v) if isinstance(n, ast.Call) and (call_name(n) or '').split('.')[-1] in producers]
                    tnames = [t.id for t in ast.walk(s.targets[0]) if isinstance(t, ast.Name)]
                    if src_names and isinstance(v, (ast.Call, ast.Subscript)):
                        for t in tnames:
                            bound[t] = (call_name(src_names[0]) or '').split('.')[-1]
                    elif isinstance(v, (ast.Subscript, ast.Name)):
                        base = v
                        while isinstance(base, ast.Subscript):
                            base = base.value
                        if isinstance(base, ast.Name) and base.id in bound:
                            for t in tnames:
                                bound[t] = bound[base.id]
            for s in own_nodes(fi.node):
                tgt = None
                if isinstance(s, ast.AugAssign):
                    tgt = s.target
                elif isinstance(s, ast.Assign) and isinstance(s.targets[0], ast.Subscript):
                    tgt = s.targets[0]
                if tgt is None:
                    continue
                base = tgt
                while isinstance(base, ast.Subscript):
                    base = base.value
                if isinstance(base, ast.Name) and base.id in bound:
                    sites.append((fi, s, bound[base.id]))
    for fi, s, prod in sites:
        if prod in fresh:
            ctx.met('R09.8', fi.qual, src(s)[:90], s, 'in-place update of a rule freshly allocated by %s' % prod)
        else:
            ctx.violated('R09.8', fi.qual, src(s)[:90], s,
                         'updates in place (part of) the rule returned by quadrature.%s, which no longer returns freshly allocated arrays (it hands '
                         'out stored objects): the modification persists and every later assembly that requests the same rule integrates against '
                         'the modified weights' % prod)
    ctx.floor('R09.8', 'in-place updates of obtained quadrature rules', len(sites), 1)
    for name in sorted(producers):
        ctx.decide('R09.8', Q + '.' + name, 'returns freshly allocated nodes and weights', (name in fresh) or None, producers[name].node,
                   'no stored object escapes')


# ------------------------------------------------------------------ R09.6
def r09_6(ctx):
    f = ctx.prog.func(A + '._assemble_element_matrices')
    t = src(f.node).replace(' ', '')
    ok = 'f1=vals1[:,nqp*k:nqp*(k+1)]' in t and 'f2=vals2[:,nqp*k:nqp*(k+1)]' in t and 'w=qweights[nqp*k:nqp*(k+1)]' in t
    ctx.decide('R09.6', f.qual, 'values and weights of span k: slice nqp*k : nqp*(k+1)', ok, f.node, 'one node count for all three slices')
    ok = 'elMats[k,:,:]=np.dot(f1,(f2*w).transpose())' in t
    ctx.decide('R09.6', f.qual, 'element matrix = f1 (f2 w)^T', ok or None, f.node)
    g = ctx.prog.func(A + '._create_coo_1d_custom')
    t = src(g.node).replace(' ', '')
    ok = 'I=np.repeat(first_act1,n_act1*n_act2)+np.tile(I_ref,nspans)' in t and 'J=np.repeat(first_act2,n_act1*n_act2)+np.tile(J_ref,nspans)' in t
    ctx.decide('R09.6', g.qual, 'I from first_act1 + slow index, J from first_act2 + fast index', ok or None, g.node)
    h = ctx.prog.func(A + '._create_coo_1d_from_kv')
    t = src(h.node).replace(' ', '')
    ok = 'first_act=kv.first_active(kv.mesh_span_indices())' in t and 'n_act1=n_act2=kv.p+1' in t
    ctx.decide('R09.6', h.qual, 'first active function per non-empty span, p+1 active functions', ok or None, h.node)
    m = ctx.prog.func(A + '._assemble_matrix_custom')
    t = src(m.node).replace(' ', '')
    ok = 'scipy.sparse.coo_matrix((elMats.ravel(),(I,J))).tocsr()' in t
    ctx.decide('R09.6', m.qual, 'element matrices raveled in C order against (I, J)', ok or None, m.node, 'duplicates are summed by the COO->CSR conversion')


def r09_10(ctx):
    """fastasm.cc (no C++ front end: a token-level sibling comparison, nothing more): inflate_2d / inflate_3d ravel the row
    multi-index x and the column multi-index y of every entry by the SAME expression -- both index a square block structure with
    the same block sizes.  The two push_back arguments must be equal token by token up to the one substitution x <-> y."""
    import os
    import re as _re
    path = os.path.join(ctx.prog.repo, 'pyiga', 'fastasm.cc')
    if not os.path.exists(path):
        ctx.undecided('R09.10', 'pyiga/fastasm.cc', 'inflate_2d / inflate_3d', None, 'file not found', where='pyiga/fastasm.cc')
        return
    text = open(path).read()
    ctx.prog.files_read.append(os.path.join('pyiga', 'fastasm.cc'))
    n = 0
    for fn in ('inflate_2d', 'inflate_3d'):
        m = _re.search(r'void\s+' + fn + r'\s*\(', text)
        if not m:
            ctx.undecided('R09.10', 'pyiga/fastasm.cc::' + fn, 'definition', None, 'not found', where='pyiga/fastasm.cc')
            continue
        body = text[m.start():]
        nxt = _re.search(r'\nvoid\s+\w+\s*\(|\n}\s*//\s*end', body[10:])
        body = body[:nxt.start() + 10] if nxt else body
        pi = _re.search(r'entries_i\s*\.push_back\((.*)\);', body)
        pj = _re.search(r'entries_j\s*\.push_back\((.*)\);', body)
        if not (pi and pj):
            ctx.undecided('R09.10', 'pyiga/fastasm.cc::' + fn, 'entries_i / entries_j', None, 'push_back statements not found', where='pyiga/fastasm.cc')
            continue
        n += 1
        ti = _re.findall(r'[A-Za-z_]\w*|\d+|\S', pi.group(1))
        tj = _re.findall(r'[A-Za-z_]\w*|\d+|\S', pj.group(1))
        line = text[:m.start() + pj.start()].count('\n') + 1
        st = 'entries_i: %s | entries_j: %s' % (pi.group(1).strip(), pj.group(1).strip())
        if len(ti) != len(tj):
            ctx.undecided('R09.10', 'pyiga/fastasm.cc::' + fn, st, None, 'the two expressions have different shapes', where='pyiga/fastasm.cc:%d' % line)
            continue
        diff = {(a, b) for a, b in zip(ti, tj) if a != b}
        ok = len(diff) <= 1 and all(_re.match(r'[A-Za-z_]', a) and _re.match(r'[A-Za-z_]', b) for a, b in diff)
        if ok:
            ctx.met('R09.10', 'pyiga/fastasm.cc::' + fn, st, None, 'row and column index ravelled alike', where='pyiga/fastasm.cc:%d' % line)
        else:
            ctx.violated('R09.10', 'pyiga/fastasm.cc::' + fn, st, None,
                         'row and column multi-index of an inflated entry are ravelled with different strides (%s): for a tensor-product space '
                         'with different numbers of dofs per direction the columns of mass_fast / stiffness_fast are scrambled (7x11: errors as '
                         'large as the entries; 11x7: index out of range)' % ', '.join('%s vs %s' % d for d in sorted(diff)),
                         where='pyiga/fastasm.cc:%d' % line)
    ctx.floor('R09.10', 'inflate routines compared', n, 2)



def r09_12(ctx):
    """The fast assemblers fall back to the Kronecker assembler OF THE SAME FORM when no geometry is given: X_fast(kvs) returns X(kvs)
    (wave 8: stiffness_fast(kvs) returned mass(kvs) -- symmetric, positive definite, right pattern, wrong operator)."""
    n = 0
    for name in ('mass_fast', 'stiffness_fast'):
        f = ctx.prog.maybe_func(A + '.' + name)
        if f is None:
            continue
        want = name[:-len('_fast')]
        for r in guards.returns_of(f.node):
            v = r.value
            if isinstance(v, ast.Call) and isinstance(v.func, ast.Name) and v.func.id in ('mass', 'stiffness'):
                n += 1
                conds = ' and '.join(('' if p_ else 'not ') + t for (t, p_, _n) in guards.path_conditions(r, stop=f.node))
                ctx.decide('R09.12', f.qual, 'fallback %s (under %s)' % (src(v), conds or 'always'), v.func.id == want, r,
                           'without a geometry %s() delegates to %s()' % (name, want) if v.func.id == want else
                           '%s() without a geometry returns %s(kvs): the fast path and the Kronecker / generic paths no longer describe the same '
                           'bilinear form (K*1 != 0, energies of polynomials wrong)' % (name, v.func.id), definite=True)
    ctx.floor('R09.12', 'geometry-free fallbacks of the fast assemblers', n, 2)



def r09_13(ctx):
    """inner_products and integrate both "leave vector components intact": the value array has the grid axes first and the component axes
    last, |det J| has the grid axes only.  Before `fvals *= geo_det` the determinant array is given trailing unit axes up to fvals.ndim.
    If one sibling does this and the other multiplies directly, numpy aligns the determinant with the LAST axes of the other one: a
    broadcasting error on most grids, a silently wrong integral when the node count happens to equal the component count
    (contradiction rule: the two clones of one computation disagree)."""
    sites = []
    for name in ('inner_products', 'integrate'):
        f = ctx.prog.maybe_func(A + '.' + name)
        if f is None:
            continue
        muls = [s for s in ast.walk(f.node) if isinstance(s, ast.AugAssign) and isinstance(s.op, ast.Mult) and isinstance(s.value, ast.Name)
                and 'det' in s.value.id]
        for m in muls:
            det = m.value.id
            blk = parent(m)
            body = getattr(blk, 'body', [])
            before = [s for s in ast.walk(blk) if hasattr(s, 'lineno') and s.lineno < m.lineno]
            padded = any((isinstance(s, ast.Assign) and any(det in src(t) for t in s.targets) and ('ndim' in src(s) or 'extra' in src(s) or 'newaxis' in src(s) or 'None' in src(s.value) or 'expand_dims' in src(s) or 'reshape' in src(s)))
                         for s in before)
            sites.append((f, m, padded))
    ctx.floor('R09.13', 'sites multiplying values by |det J|', len(sites), 2)
    anyp = any(p_ for _f, _m, p_ in sites)
    for f, m, p_ in sites:
        if p_:
            ctx.met('R09.13', f.qual, src(m), m, 'determinant padded with trailing unit axes for the component axes of the values')
        elif anyp:
            ctx.violated('R09.13', f.qual, src(m), m,
                         'the sibling routine appends unit axes to |det J| for vector-valued data, this one multiplies the (grid-shaped) determinant onto '
                         'values of shape grid + (k,) directly: integrate(kvs, f_vec, geo=geo) raises or -- degree 1, one span, two components -- returns '
                         '[1.711, 1.228] instead of [2, 13/12]')
        else:
            ctx.undecided('R09.13', f.qual, src(m), m, 'no sibling pads the determinant: nothing to compare with')


def run(ctx):
    r09_13(ctx)
    r09_12(ctx)
    r09_10(ctx)
    r09_1(ctx)
    r09_2(ctx)
    r09_3(ctx)
    r09_4(ctx)
    r09_5(ctx)
    r09_6(ctx)
    r09_8(ctx)
    # R09.7 = R17.6: inner_products / integrate weight by |det J| like the compiled mass form
    import rules.C17 as c17
    ctx.shared(c17.r17_6, 'R17.6', 'R09.7')
    # R09.9 = R17.8: integrate / inner_products evaluate f at the mapped points iff f_physical
    ctx.shared(c17.r17_8, 'R17.8', 'R09.9')
    # R09.11 = R01.4: every site that chooses the number of Gauss nodes takes the maximum degree over ALL directions (wave 8:
    # inner_products took the degree of the last axis only -- load vectors under-integrated for mixed degrees)
    import rules.C01 as c01
    ctx.shared(c01.r01_4, 'R01.4', 'R09.11')

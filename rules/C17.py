"""C17 -- interpolation and L2 projection (structural clauses)."""
import ast

from sa.program import src, own_nodes, call_name, parent, kwarg, AnchorMissing
from sa import guards, resolve

EXPLANATION = (
    "Static rules over pyiga/approx.py, bspline.py and assemble.py: (R17.1) error discipline: the convergence status returned by "
    "scipy.sparse.linalg.cg is not dropped -- a non-zero status leads to raise, is returned, or triggers a corrective recomputation "
    "of the result (print-only is a dropped error); (R17.2) axis coupling: the i-th collocation solver is built from (kvs[i], "
    "nodes[i]) and the solvers are applied in axis order to data sampled on the same node grid; the 1D routines build the "
    "collocation matrix at the nodes at which the function is sampled; (R17.3) option forwarding: f_physical and geo reach "
    "inner_products / the L2 functional unchanged, physical data without a geometry is refused, the hierarchical route uses the "
    "same mass form and functional; (R17.4) Greville points are clamped into the domain (shared with C19); (R17.5) default nodes "
    "are the Greville points of each axis; (R17.6) one volume measure: every site that turns Jacobians into quadrature weights "
    "(inner_products, integrate, the compiled forms' volume weight) takes the absolute value of the determinant.")
DOES_NOT_DECIDE = "that either map is a projection; conditioning of collocation matrices; CG convergence"
TECHNIQUE = "custom AST rules: error-status def-use (dropped-error rule), index coupling in comprehensions, option forwarding"

AP = 'pyiga.approx'
B = 'pyiga.bspline'


def r17_1(ctx):
    n = 0
    ctrl = ast.parse("def f():\n    x, info = scipy.sparse.linalg.cg(M, b)\n    if info:\n        print('no')\n    return x").body[0]
    if status_verdict(ctrl)[0] is not False:
        raise AnchorMissing('R17.1: positive control (print-only status) did not match')
    for unit in ctx.prog.units.values():
        if not unit.modname.startswith('pyiga') or unit.lang != 'py':
            continue
        for fi in ctx.prog.funcs_in(unit.modname, include_nested=True):
            has = any(isinstance(c, ast.Call) and (call_name(c) or '').split('.')[-1] in ('cg', 'gmres', 'bicgstab', 'minres') and 'linalg' in (call_name(c) or '')
                      for c in ast.walk(fi.node))
            if not has:
                continue
            n += 1
            ok, st, node, why = status_verdict(fi.node)
            ctx.decide('R17.1', fi.qual, st, ok, node or fi.node, why)
    ctx.floor('R17.1', 'functions calling a Krylov solver', n, 1)


def _covers_positive(test, name):
    """True / False / None: is `test` true when the integer status `name` is positive?  Decided for tests built from the
    status, integer literals, comparisons, not/and/or by evaluating the expression for name = 1 and name = 3."""
    allowed = (ast.Name, ast.Constant, ast.Compare, ast.BoolOp, ast.UnaryOp, ast.And, ast.Or, ast.Not, ast.USub, ast.Load,
               ast.Lt, ast.LtE, ast.Gt, ast.GtE, ast.Eq, ast.NotEq, ast.Is, ast.IsNot)
    for n in ast.walk(test):
        if not isinstance(n, allowed):
            return None
        if isinstance(n, ast.Name) and n.id != name:
            return None
        if isinstance(n, ast.Constant) and not isinstance(n.value, (int, type(None))):
            return None
    try:
        code = compile(ast.fix_missing_locations(ast.Expression(ast.parse(src(test), mode='eval').body)), '<status-test>', 'eval')
        vals = [bool(eval(code, {'__builtins__': {}}, {name: v})) for v in (1, 3)]
    except Exception:
        return None
    return all(vals)


def status_verdict(fn):
    """(True/False/None, statement, node, why) for the first Krylov call in fn."""
    for s in own_nodes(fn):
        if isinstance(s, ast.Assign) and isinstance(s.value, ast.Call) and (call_name(s.value) or '').split('.')[-1] in ('cg', 'gmres', 'bicgstab', 'minres'):
            t = s.targets[0]
            if not (isinstance(t, ast.Tuple) and len(t.elts) == 2 and isinstance(t.elts[1], ast.Name)):
                return False, src(s)[:100], s, 'the status returned by the solver is not even bound to a name'
            xname = src(t.elts[0])
            info = t.elts[1].id
            uses = [n for n in own_nodes(fn) if isinstance(n, ast.Name) and n.id == info and isinstance(n.ctx, ast.Load)]
            if not uses:
                return False, src(s)[:100], s, 'status %r is never read' % info
            # an if on the status whose body raises / returns status / recomputes the solution
            for iff in [n for n in own_nodes(fn) if isinstance(n, ast.If) and info in {x.id for x in ast.walk(n.test) if isinstance(x, ast.Name)}]:
                body = iff.body
                # scipy: info > 0 = iteration limit reached without convergence, info < 0 = illegal input / breakdown.
                # The test must be true for info > 0 (decided by evaluating it on the sample statuses 3 and 1).
                cov = _covers_positive(iff.test, info)
                if cov is False and _covers_positive(ast.UnaryOp(op=ast.Not(), operand=iff.test), info):
                    # the test selects the CONVERGED case: the corrective code is the else branch, or what follows an
                    # early exit of the converged case
                    blk = None
                    par = parent(iff)
                    if iff.orelse:
                        blk = iff.orelse
                    elif guards.always_exits(iff.body):
                        for fld in ('body', 'orelse', 'finalbody'):
                            b_ = getattr(par, fld, None)
                            if isinstance(b_, list) and iff in b_:
                                blk = b_[b_.index(iff) + 1:]
                    if blk:
                        body = blk
                        cov = True
                if cov is False:
                    return False, 'if %s: ...' % src(iff.test), iff, \
                        'the corrective branch is not taken for %s > 0, the status scipy returns when the iteration limit is reached ' \
                        'without meeting the tolerance: the unconverged iterate is returned silently' % info
                if any(isinstance(b, ast.Raise) for b in ast.walk(ast.Module(body, []))):
                    return True, 'if %s: raise' % src(iff.test), iff, 'non-convergence raises'
                if any(isinstance(b, ast.Assign) and src(b.targets[0]) == xname for b in body):
                    return True, 'if %s: %s = <recomputed>' % (src(iff.test), xname), iff, 'non-convergence triggers a corrective recomputation of the result'
                if any(isinstance(b, ast.Expr) and isinstance(b.value, ast.Call) and call_name(b.value) in ('warnings.warn',) for b in body):
                    return None, 'if %s: warnings.warn' % src(iff.test), iff, 'status converted to a warning (policy decision)'
                return False, 'if %s: %s' % (src(iff.test), '; '.join(src(b)[:60] for b in body)), iff, \
                    'the solver status is only reported on the console: the unconverged iterate is returned as if it were the projection'
            rets = [r for r in guards.returns_of(fn) if info in {x.id for x in ast.walk(r) if isinstance(x, ast.Name)}]
            if rets:
                return True, src(rets[0]), rets[0], 'status is returned to the caller'
            return False, src(s)[:100], s, 'status %r is read but never acted upon' % info
    return None, 'no Krylov call with bound status', None, ''


def r17_2(ctx):
    f = ctx.prog.func(AP + '.interpolate')
    ci = [s for s in own_nodes(f.node) if isinstance(s, ast.Assign) and src(s.targets[0]) == 'Cinvs']
    if not ci:
        raise AnchorMissing('R17.2: Cinvs')
    lc = ci[0].value
    ok = None
    if isinstance(lc, ast.ListComp):
        it = src(lc.generators[0].iter).replace(' ', '')
        var = src(lc.generators[0].target)
        coll = [c for c in ast.walk(lc.elt) if isinstance(c, ast.Call) and call_name(c) == 'bspline.collocation']
        if coll and len(coll[0].args) == 2:
            a0, a1 = src(coll[0].args[0]).replace(' ', ''), src(coll[0].args[1]).replace(' ', '')
            same = a0 == 'kvs[%s]' % var and a1 == 'nodes[%s]' % var
            mismatch = a0.startswith('kvs[') and a1.startswith('nodes[') and not same
            ok = True if (same and it == 'range(len(kvs))') else (False if mismatch else None)
    ctx.decide('R17.2', f.qual, src(ci[0])[:120], ok, ci[0], 'the i-th solver inverts the collocation matrix of (kvs[i], nodes[i])')
    r = guards.returns_of(f.node)[-1].value
    ok = src(r).replace(' ', '') == 'tensor.apply_tprod(Cinvs,rhs)'
    ctx.decide('R17.2', f.qual, src(r), ok or None, r, 'solvers applied axis by axis in order')
    d = {}
    for s in own_nodes(f.node):
        if isinstance(s, ast.Assign) and src(s.targets[0]) == 'rhs':
            d.setdefault('rhs', []).append(src(s.value).replace(' ', ''))
    ok = set(d.get('rhs', [])) == {'f', 'utils.grid_eval_transformed(f,nodes,geo)', 'utils.grid_eval(f,nodes)'}
    ctx.decide('R17.2', f.qual, 'rhs sampled on `nodes`: %s' % d.get('rhs'), ok or None, f.node, 'data and collocation matrices use the same node grid')
    g = [s for s in own_nodes(f.node) if isinstance(s, ast.If) and 'np.shape(f)[:len(kvs)]' in src(s.test)]
    ctx.decide('R17.2', f.qual, 'array data: leading shape must equal the dofs per axis', bool(g) and isinstance(g[0].body[0], ast.Raise), g[0] if g else f.node)
    # 1D
    bi = ctx.prog.func(B + '.interpolate')
    t = src(bi.node).replace(' ', '')
    ok = 'C=collocation(kv,nodes)' in t and 'vals=func(nodes)' in t and 'returnscipy.sparse.linalg.spsolve(C,vals)' in t
    ctx.decide('R17.2', bi.qual, 'C = collocation(kv, nodes); vals = func(nodes); solve', ok or None, bi.node, 'same nodes on both sides')
    lv = ctx.prog.func(B + '.load_vector')
    t = src(lv.node).replace(' ', '')
    ok = 'C=collocation(kv,q[0])' in t and 'fvals=q[1]*f(q[0])' in t and 'returnC.T.dot(fvals)' in t
    ctx.decide('R17.2', lv.qual, 'load vector: C(q)^T (w * f(q))', ok or None, lv.node)
    pl = ctx.prog.func(B + '.project_L2')
    t = src(pl.node).replace(' ', '')
    ok = 'lv=load_vector(kv,f)' in t and 'M=bsp_mass_1d(kv)' in t and 'returnscipy.sparse.linalg.spsolve(M,lv)' in t
    ctx.decide('R17.2', pl.qual, 'M^-1 load_vector with mass and load of the same knot vector', ok or None, pl.node)


def r17_3(ctx):
    f = ctx.prog.func(AP + '.project_L2')
    ip = [c for c in ast.walk(f.node) if isinstance(c, ast.Call) and call_name(c) == 'assemble.inner_products']
    if not ip:
        raise AnchorMissing('R17.3: inner_products call')
    ok = src(kwarg(ip[0], 'f_physical')) == 'f_physical' and src(kwarg(ip[0], 'geo')) == 'geo' and [src(a) for a in ip[0].args[:2]] == ['kvs', 'f']
    ctx.decide('R17.3', f.qual, src(ip[0]), ok, ip[0], 'f_physical and geo forwarded unchanged')
    a = [s for s in ast.walk(f.node) if isinstance(s, ast.Assert) and 'f_physical' in src(s.test)]
    ok = bool(a) and src(a[0].test).replace(' ', '') == 'notf_physical' and guards.has_literal(guards.path_conditions(a[0]), 'geo is None', True)
    ctx.decide('R17.3', f.qual, 'geo is None: assert not f_physical', ok, a[0] if a else f.node, 'physical data without geometry is refused')
    m = [c for c in ast.walk(f.node) if isinstance(c, ast.Call) and call_name(c) == 'assemble.mass' and kwarg(c, 'geo') is not None]
    ok = bool(m) and src(kwarg(m[0], 'geo')) == 'geo' and src(m[0].args[0]) == 'kvs'
    ctx.decide('R17.3', f.qual, src(m[0]) if m else 'mass(kvs, geo=geo)', ok, m[0] if m else f.node, 'system matrix with the same geometry as the right-hand side')
    mi = [s for s in own_nodes(f.node) if isinstance(s, ast.Assign) and src(s.targets[0]) == 'Minvs']
    ok = bool(mi) and src(mi[0].value).replace(' ', '') == '[operators.make_solver(assemble.mass(kv),spd=True)forkvinkvs]'
    ctx.decide('R17.3', f.qual, src(mi[0])[:110] if mi else 'Minvs', ok or None, mi[0] if mi else f.node, 'per-axis parameter-domain mass inverses (exact without geometry, preconditioner with geometry)')
    h = [c for c in ast.walk(f.node) if isinstance(c, ast.Call) and call_name(c) == '_project_L2_hspace']
    ok = bool(h) and [src(a) for a in h[0].args] == ['kvs', 'f', 'f_physical', 'geo']
    ctx.decide('R17.3', f.qual, src(h[0]) if h else 'hierarchical route', ok, h[0] if h else f.node)
    hp = ctx.prog.func(AP + '._project_L2_hspace')
    t = src(hp.node).replace(' ', '')
    ok = 'M=assemble.assemble(vform.mass_vf(hs.dim),hs,geo=geo)' in t and \
        'rhs=assemble.assemble(vform.L2functional_vf(hs.dim,physical=f_physical),hs,geo=geo,f=f)' in t and 'operators.make_solver(M,spd=True).dot(rhs)' in t
    ctx.decide('R17.3', hp.qual, 'mass form and L2 functional over the same space and geometry; physical flag forwarded', ok or None, hp.node)
    ok = 'ifgeoisNone:' in t and 'geo=geometry.identity(hs.knotvectors(0))' in t
    ctx.decide('R17.3', hp.qual, 'missing geometry replaced by the identity on the coarsest knot vectors', ok or None, hp.node)
    it = ctx.prog.func(AP + '.interpolate')
    t = src(it.node).replace(' ', '')
    ok = 'ifgeoisnotNone:' in t and 'rhs=utils.grid_eval_transformed(f,nodes,geo)' in t
    ctx.decide('R17.3', it.qual, 'geo given: f evaluated at the mapped nodes', ok or None, it.node)


ABS_FUNCS = ('np.abs', 'abs', 'np.fabs', 'np.absolute', 'numpy.abs', 'fabs')


def r17_6(ctx):
    """One volume measure: the load vector (inner_products), integrate() and the compiled mass/L2 forms all weight by
    |det J|.  A signed determinant at one site makes right-hand side and system matrix disagree for orientation-
    reversing geometries."""
    n = 0
    for modname in ('pyiga.assemble', 'pyiga.approx', 'pyiga.utils', 'pyiga.geometry', 'pyiga.hierarchical', 'pyiga._hdiscr'):
        try:
            unit = ctx.prog.unit(modname)
        except AnchorMissing:
            continue
        for fi in ctx.prog.funcs_in(modname, include_nested=True):
            for c in own_nodes(fi.node):
                if not (isinstance(c, ast.Call) and (call_name(c) or '').split('.')[-1] == 'determinants'):
                    continue
                n += 1
                p = parent(c)
                if isinstance(p, ast.Call) and call_name(p) in ABS_FUNCS:
                    ctx.met('R17.6', fi.qual, src(p), p, 'integration weight |det J|')
                    continue
                # bound to a name: every later use must go through an absolute value before it is multiplied in
                if isinstance(p, ast.Assign) and len(p.targets) == 1 and isinstance(p.targets[0], ast.Name):
                    name = p.targets[0].id
                    uses = [u for u in own_nodes(fi.node) if isinstance(u, ast.Name) and u.id == name and isinstance(u.ctx, ast.Load)
                            and getattr(u, 'lineno', 0) > p.lineno]
                    absd = [u for u in uses if isinstance(parent(u), ast.Call) and call_name(parent(u)) in ABS_FUNCS]
                    mult = [u for u in uses if (isinstance(parent(u), ast.BinOp) and isinstance(parent(u).op, ast.Mult))
                            or (isinstance(parent(u), ast.AugAssign) and isinstance(parent(u).op, ast.Mult))]
                    if mult and not absd:
                        ctx.violated('R17.6', fi.qual, src(p), mult[0],
                                     'the signed Jacobian determinant is multiplied into the quadrature values (`%s`), while the compiled forms '
                                     '(mass matrix) and the sibling sites weight by |det J|: for an orientation-reversing geometry the right-hand '
                                     'side changes sign against the matrix' % src(parent(mult[0]))[:80])
                    elif absd and (not mult or all(u.lineno >= min(a.lineno for a in absd) for u in mult)):
                        ctx.undecided('R17.6', fi.qual, src(p), p, 'absolute value taken later; flow not followed')
                    else:
                        ctx.undecided('R17.6', fi.qual, src(p), p, 'use of the determinant not recognised')
                else:
                    ctx.undecided('R17.6', fi.qual, src(c), c, 'use of the determinant not recognised')
    ctx.floor('R17.6', 'sites turning Jacobians into quadrature weights', n, 2)
    vw = ctx.prog.func('pyiga.vform.VForm.__init__.<locals>._volume_weight') if ctx.prog.maybe_func('pyiga.vform.VForm.__init__.<locals>._volume_weight') else None
    if vw is None:
        cands = [f for q, f in ctx.prog.functions.items() if q.endswith('_volume_weight') and q.startswith('pyiga.vform.')]
        vw = cands[0] if cands else None
    if vw is None:
        raise AnchorMissing('R17.6: vform volume weight')
    r = guards.returns_of(vw.node)
    dets = [c for c in ast.walk(vw.node) if isinstance(c, ast.Call) and call_name(c) == 'det']
    ok = bool(dets) and all(isinstance(parent(c), ast.Call) and call_name(parent(c)) in ABS_FUNCS for c in dets)
    ctx.decide('R17.6', vw.qual, src(r[-1]) if r else 'volume weight', ok if dets else None, r[-1] if r else vw.node,
               'compiled forms weight by GaussWeight * |det J|', definite=True)


def r17_7(ctx):
    """The load vector and the system matrix must be computed with the SAME tensor Gauss rule: the compiled mass assembler uses
    nqp = max degree + 1 nodes per span in every direction (R01.4), and with a geometry neither rule is exact, so reproduction
    of functions of the space holds only because both sides make the same quadrature error.  inner_products / integrate
    therefore build their grid by make_tensor_quadrature(meshes, nqp) with that single nqp."""
    n = 0
    for q in ('pyiga.assemble.inner_products', 'pyiga.assemble.integrate'):
        fi = ctx.prog.func(q)
        tq = [c for c in own_nodes(fi.node) if isinstance(c, ast.Call) and (call_name(c) or '').split('.')[-1] == 'make_tensor_quadrature']
        per_axis = [c for c in own_nodes(fi.node) if isinstance(c, ast.Call) and (call_name(c) or '').split('.')[-1] in ('make_iterated_quadrature', 'gauss_rule')
                    and len(c.args) >= 2 and any(isinstance(x, ast.Attribute) and x.attr == 'p' for x in ast.walk(c.args[1] if (call_name(c) or '').endswith('make_iterated_quadrature') else c.args[0]))
                    and guards_in_comprehension(c)]
        if per_axis:
            n += 1
            ctx.violated('R17.7', q, 'one tensor Gauss rule with the common node count', per_axis[0],
                         '`%s` chooses the number of nodes per direction from that direction\'s own degree; the compiled mass matrix uses max degree + 1 in '
                         'every direction, so with a geometry and unequal degrees the load vector is no longer the mass matrix applied to the '
                         'coefficients and project_L2 does not reproduce the space' % src(per_axis[0])[:80])
            continue
        if not tq:
            ctx.undecided('R17.7', q, 'one tensor Gauss rule with the common node count', fi.node, 'quadrature construction not recognised')
            continue
        n += 1
        ctx.expect('R17.7', q, tq[0], 'make_tensor_quadrature([kv.mesh for kv in kvs], nqp)', tq[0], 'same rule as the assemblers', label=src(tq[0]))
        ctx.expect_assign('R17.7', fi, 'nqp', 'max(kv.p for kv in kvs) + 1', 'common node count = max degree + 1')
    ctx.floor('R17.7', 'load-vector / integral routines', n, 2)


def guards_in_comprehension(node):
    p = parent(node)
    while p is not None and not isinstance(p, (ast.FunctionDef, ast.AsyncFunctionDef)):
        if isinstance(p, (ast.ListComp, ast.GeneratorExp, ast.For)):
            return True
        p = parent(p)
    return False


def r17_5(ctx):
    it = ctx.prog.func(AP + '.interpolate')
    d = [s for s in own_nodes(it.node) if isinstance(s, ast.Assign) and src(s.targets[0]) == 'nodes']
    ok = bool(d) and src(d[0].value).replace(' ', '') == '[kv.greville()forkvinkvs]' and guards.has_literal(guards.path_conditions(d[0]), 'nodes is None', True)
    ctx.decide('R17.5', it.qual, src(d[0]) if d else 'default nodes', ok, d[0] if d else it.node, 'Greville points of each axis, in axis order')
    bi = ctx.prog.func(B + '.interpolate')
    d = [s for s in own_nodes(bi.node) if isinstance(s, ast.Assign) and src(s.value) == 'kv.greville()']
    ctx.decide('R17.5', bi.qual, 'default nodes = kv.greville()', bool(d), bi.node)


def _polarity(facts, names):
    """+1 / -1 if the path conditions contain the literal `name` (or `name is True/== True`) positively / negatively, for one
    of the names; 0 if they say nothing about it"""
    for (t, pol, _n) in facts:
        tt = t.replace(' ', '')
        for nm in names:
            if tt in (nm, nm + '==True', nm + 'isTrue'):
                return 1 if pol else -1
            if tt in ('not' + nm, nm + '==False', nm + 'isFalse'):
                return -1 if pol else 1
    return 0


def r17_8(ctx):
    """The flag f_physical -- not the presence of a geometry -- decides whether the data function is evaluated at the mapped
    points: every function with an `f_physical` parameter calls grid_eval_transformed(f, ..) only where f_physical holds and
    grid_eval(f, ..) only where it does not; and project_L2 takes the exact Kronecker shortcut only without geometry."""
    n = 0
    for unit in ctx.prog.units.values():
        if not unit.modname.startswith('pyiga') or unit.lang != 'py':
            continue
        for fi in ctx.prog.funcs_in(unit.modname, include_nested=False):
            params = [a.arg for a in fi.node.args.args]
            if 'f_physical' not in params or 'f' not in params:
                continue
            for c in ast.walk(fi.node):
                if not (isinstance(c, ast.Call) and (call_name(c) or '').split('.')[-1] in ('grid_eval_transformed', 'grid_eval')
                        and (call_name(c) or '').split('.')[0] in ('utils', 'grid_eval', 'grid_eval_transformed')
                        and c.args and isinstance(c.args[0], ast.Name) and c.args[0].id == 'f'):
                    continue
                n += 1
                transformed = (call_name(c) or '').endswith('grid_eval_transformed')
                pol = _polarity(guards.dominating_facts(c), ('f_physical',))
                want = 1 if transformed else -1
                if pol == want:
                    ctx.met('R17.8', fi.qual, src(c), c, 'selected by f_physical' if transformed else 'selected by not f_physical')
                elif pol == -want:
                    ctx.violated('R17.8', fi.qual, src(c), c, 'evaluation mode contradicts the f_physical flag on this path')
                else:
                    facts = [('' if p else 'not ') + t for (t, p, _n) in guards.dominating_facts(c)]
                    ctx.violated('R17.8', fi.qual, src(c) + ' under ' + (' and '.join(facts)[:80] or 'no condition'), c,
                                 'whether f is evaluated at the mapped points G(xi) or at the parameter points xi is not decided by f_physical here: '
                                 'a function given in parameter coordinates together with a geometry (f_physical=False, geo given) is evaluated '
                                 'at the wrong points' if transformed else
                                 'the untransformed evaluation is not restricted to f_physical=False')
    ctx.floor('R17.8', 'evaluations of the data function in functions with an f_physical flag', n, 4)
    # project_L2: M^{-1} = kron of the 1D inverses only without geometry
    pl = ctx.prog.func(AP + '.project_L2')
    rets = [r for r in guards.returns_of(pl.node) if any(isinstance(c, ast.Call) and (call_name(c) or '').endswith('apply_tprod')
                                                         for c in ast.walk(resolve.expand(r.value, r)))]
    for r in rets:
        facts = guards.dominating_facts(r)
        none_pos = any((t.replace(' ', '') == 'geoisNone' and p) or (t.replace(' ', '') in ('geoisnotNone', 'geo') and not p) for (t, p, _n) in facts)
        ctx.decide('R17.8', pl.qual, src(r)[:80] + ' under ' + ' and '.join(('' if p else 'not ') + t for (t, p, _n) in facts)[:70], none_pos, r,
                   'the Kronecker product of the 1D mass inverses is the inverse of the mass matrix only without a geometry' if none_pos else
                   'the Kronecker shortcut is taken on a path where a geometry may be present: the right-hand side is weighted with |det J| '
                   'but solved with the unweighted mass inverse, which is not a projection', definite=True)


def r17_10(ctx):
    """bspline.interpolate: the coefficients are the solution of the collocation system for the nodes in use on EVERY path;
    returning the sampled values themselves is right only for the Greville nodes of degree <= 1."""
    f = ctx.prog.func(B + '.interpolate')
    rets = guards.returns_of(f.node)
    n = 0
    for r in rets:
        if r.value is None:
            continue
        n += 1
        e = resolve.expand(r.value, r)
        solves = any(isinstance(c, ast.Call) and (call_name(c) or '').split('.')[-1] in ('spsolve', 'solve', 'lstsq', 'dot', 'make_solver') for c in ast.walk(e))
        ctx.decide('R17.10', f.qual, src(r)[:90], solves, r, 'coefficients from the collocation system' if solves else
                   'this exit returns the sampled values without solving the collocation system: for user-supplied nodes (p = 1, non-Greville '
                   'nodes) the result neither reproduces splines nor matches the data at the nodes', definite=True)
    ctx.floor('R17.10', 'returns of bspline.interpolate', n, 1)


def r17_11(ctx):
    """Interpolation nodes supplied by the caller are used in the caller's ORDER: a value array f is given in that order, so
    sorting (or de-duplicating) the nodes pairs collocation rows with the wrong data."""
    n = 0
    for q in (AP + '.interpolate', B + '.interpolate'):
        f = ctx.prog.maybe_func(q)
        if f is None:
            continue
        n += 1
        bad = [c for c in ast.walk(f.node) if isinstance(c, ast.Call) and (call_name(c) or '') in ('np.sort', 'sorted', 'np.unique', 'np.argsort', 'np.flip')
               and any(isinstance(x, ast.Name) and x.id in ('nodes', 'nd') for a_ in c.args for x in ast.walk(a_))
               and any(isinstance(x, ast.Name) and x.id == 'nodes' for x in ast.walk(resolve.stmt_of(c)))]
        srt = [c for c in ast.walk(f.node) if isinstance(c, ast.Call) and isinstance(c.func, ast.Attribute) and c.func.attr == 'sort' and 'nodes' in src(c.func.value)]
        if bad or srt:
            c = (bad or srt)[0]
            ctx.violated('R17.11', f.qual, src(resolve.stmt_of(c))[:90], c,
                         'the node grid passed by the caller is reordered: a value array given for a non-ascending grid (Chebyshev points from '
                         'cos(linspace(0, pi, n))) is matched with collocation rows of OTHER points -- the interpolant neither matches the data nor '
                         'reproduces splines (errors ~ 0.8)')
        else:
            ctx.met('R17.11', f.qual, 'nodes used as passed', f.node)
    ctx.floor('R17.11', 'interpolation routines', n, 2)


def r17_12(ctx):
    """inner_products / integrate evaluate f at the tensor GAUSS GRID itself -- the grid the quadrature weights and the collocation
    matrices belong to -- not at a modified copy (clipped, shifted, reordered axes)."""
    n = 0
    for q in ('pyiga.assemble.inner_products', 'pyiga.assemble.integrate'):
        f = ctx.prog.func(q)
        nodes = [f.node] + [m.node for m in ctx.prog.funcs_in('pyiga.assemble') if m.name.startswith('_') and any(
            isinstance(c, ast.Call) and (call_name(c) or '').split('.')[-1] == m.name for c in ast.walk(f.node))]
        for nd in nodes:
            for c in ast.walk(nd):
                if isinstance(c, ast.Call) and (call_name(c) or '').split('.')[-1] in ('grid_eval', 'grid_eval_transformed') and len(c.args) >= 2:
                    n += 1
                    g = resolve.expand(c.args[1], c, keep=('gaussgrid',))
                    t = src(g).replace(' ', '')
                    ok = t == 'gaussgrid' or t.startswith('make_tensor_quadrature(')
                    changed = any(isinstance(x, ast.Call) and (call_name(x) or '') in ('np.clip', 'np.minimum', 'np.maximum', 'np.sort', 'reversed', 'np.flip')
                                  for x in ast.walk(g))
                    ctx.decide('R17.12', q, src(c)[:90], True if ok else (False if changed else None), c,
                               'f sampled at the quadrature nodes' if ok else
                               'f is sampled at `%s`, not at the Gauss nodes the weights belong to: the load vector is the quadrature of a different '
                               'function (on a non-cubical parameter domain with f_physical=True the projection differs from that of the pull-back '
                               'by O(1))' % t[:100], definite=True)
    ctx.floor('R17.12', 'evaluations of f on the Gauss grid', n, 4)


def run(ctx):
    r17_11(ctx)
    r17_12(ctx)
    r17_10(ctx)
    # R17.9 = R09.8: quadrature rules are fresh arrays (consumers scale the weights in place); a memo that hands out stored
    # rules pollutes every later mass matrix / load vector with the same mesh and node count
    import rules.C09 as c09
    ctx.shared(c09.r09_8, 'R09.8', 'R17.9')
    r17_8(ctx)
    r17_1(ctx)
    r17_2(ctx)
    r17_3(ctx)
    import rules.C19 as c19
    before = len(ctx.obligations)
    c19.r19_4(ctx)
    for o in ctx.obligations[before:]:
        o.rule = 'R17.4'
    r17_5(ctx)
    r17_6(ctx)
    r17_7(ctx)
    # R17.13 = R04.4: the index caches of an HSpace that project_L2 assembles on are cleared by every refinement (wave 8: the clear moved
    # into _add_level, so a refinement that adds no level kept stale lists); R17.14 = R09.1: the determinant kernels that weight
    # the load vector agree with the cofactor expansion (wave 8: index typo in determinants_3x3)
    import rules.C04 as c04
    import rules.C09 as c09
    ctx.shared(c04.r04_4, 'R04.4', 'R17.13')
    ctx.shared(c09.r09_1, 'R09.1', 'R17.14')

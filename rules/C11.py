"""C11 -- relaxation and multigrid (structural clauses)."""
import ast
import copy

from sa.program import src, own_nodes, call_name, parent, kwarg, AnchorMissing
from sa import guards

EXPLANATION = (
    "Static rules over pyiga/solvers.py, relaxation_cy.pyx and hierarchical.py: (R11.1) the two Cython Gauss-Seidel kernels have the "
    "same row body (off-diagonal sum, diagonal pick, guarded update), backward traversal bounds are the exact reversal of the "
    "forward ones in both drivers, 'symmetric' is forward-then-backward once per iteration and the dense loop computes the same "
    "update; (R11.2) every smoothing-set strategy starts from the new dofs, only fills coarser positions i < lv and removes the "
    "Dirichlet indices of that (lv, i); (R11.3) admitted strategy/smoother/sweep names equal the implemented branches/methods; "
    "(R11.4) iterative_solve tests the residual of the iterate it returns, returns only under res/res0 < tol or at maxiter (then "
    "reporting inf), and solve_hmultigrid forwards every documented option; (R11.5) array-valued optional arguments are tested "
    "with 'is None', never by truth value; (R11.6) every update of the iterate in the V-cycle is a smoother call on that level or "
    "an explicit residual correction, coarse operators are P^T A P; (R11.7) no documented parameter of a public solver is ignored.  "
    "R11.4 also requires the reference residual res0 to be computed after the starting vector x0 has been incorporated.")
DOES_NOT_DECIDE = "contraction, monotonicity of the energy norm, convergence rates"
TECHNIQUE = "custom AST rules on Python + lowered Cython: sibling kernel comparison, guard dominance, name-table agreement, parameter def-use"

S = 'pyiga.solvers'
R = 'pyiga.relaxation_cy'
H = 'pyiga.hierarchical'


class _Rename(ast.NodeTransformer):
    def __init__(self, m):
        self.m = m

    def visit_Name(self, n):
        if n.id in self.m:
            return ast.copy_location(ast.Name(self.m[n.id], n.ctx), n)
        return n


def reversal_ok(rev, fwd):
    """rev = (hi-1, lo-1, -s), fwd = (lo, hi, s) as tuple expressions -> True/False, None if not affine."""
    from sa import affine
    if not (isinstance(rev, ast.Tuple) and isinstance(fwd, ast.Tuple) and len(rev.elts) == 3 and len(fwd.elts) == 3):
        return None
    try:
        r = [affine.from_ast(e) for e in rev.elts]
        f = [affine.from_ast(e) for e in fwd.elts]
    except affine.NonAffine:
        return None
    return (r[0] == f[1] - 1) and (r[1] == f[0] - 1) and (r[2] == -f[2]) and f[2] == affine.Lin.const(1)


def r11_1(ctx):
    k1 = ctx.prog.func(R + '.gauss_seidel')
    k2 = ctx.prog.func(R + '.gauss_seidel_indexed')

    def row_body(fn):
        w = [n for n in own_nodes(fn) if isinstance(n, ast.While)]
        if not w:
            raise AnchorMissing('R11.1: row loop not found in ' + fn.name)
        body = list(w[0].body)
        # drop the index fetch and the loop increment
        stmts = [s for s in body if not (isinstance(s, ast.Assign) and src(s.targets[0]) == 'i')
                 and not (isinstance(s, ast.AugAssign) and src(s.target) in ('i', 'idx'))]
        return w[0], stmts
    w1, b1 = row_body(k1.node)
    w2, b2 = row_body(k2.node)
    t1, t2 = [src(s) for s in b1], [src(s) for s in b2]
    ctx.decide('R11.1', R + '.gauss_seidel*', 'row bodies of the two kernels are identical (%d statements)' % len(t1), t1 == t2, w2,
               'plain and indexed kernel must perform the same relaxation of row i')
    # the row body itself
    want = ['start = row_ptr[i]', 'end = row_ptr[i + 1]', 'rsum = 0.0', 'diag = 0.0']
    ctx.decide('R11.1', k1.qual, ' ; '.join(t1[:4]), t1[:4] == want, b1[0] if b1 else w1, 'row extent from the CSR pointer, accumulators reset per row')
    inner = [s for s in b1 if isinstance(s, ast.For)]
    if inner:
        f = inner[0]
        ok = src(f.iter) == 'range(start, end)' and src(f.body[0]) == 'j = col_indices[jj]'
        iff = [s for s in f.body if isinstance(s, ast.If)]
        ok2 = bool(iff) and src(iff[0].test).replace(' ', '') in ('i==j', 'j==i') and src(iff[0].body[0]) == 'diag = data[jj]' \
            and len(iff[0].orelse) == 1 and src(iff[0].orelse[0]) == 'rsum += data[jj] * x[j]'
        ctx.decide('R11.1', k1.qual, src(f).replace('\n', ' ; ')[:160], ok and ok2, f, 'diagonal entry picked, all other entries of the row summed with current x')
    upd = [s for s in b1 if isinstance(s, ast.If) and 'diag' in src(s.test)]
    ok = bool(upd) and src(upd[0].test).replace(' ', '') == 'diag!=0.0' and src(upd[0].body[0]).replace(' ', '') == 'x[i]=(b[i]-rsum)/diag'
    ctx.decide('R11.1', k1.qual, src(upd[0]).replace('\n', ' ; ') if upd else 'update', ok, upd[0] if upd else w1, 'textbook update x_i = (b_i - sum_{j!=i} a_ij x_j)/a_ii')
    # traversal: while i != row_stop ; i += row_step
    ctx.decide('R11.1', k1.qual, 'while ' + src(w1.test), src(w1.test).replace(' ', '') == 'i!=row_stop', w1)
    inc = [s for s in w1.body if isinstance(s, ast.AugAssign) and src(s.target) == 'i']
    ctx.decide('R11.1', k1.qual, src(inc[0]) if inc else 'i +=', bool(inc) and src(inc[0].value) == 'row_step' and inc[0] is w1.body[-1], inc[0] if inc else w1,
               'index advances by the signed step after the row update')
    # indexed kernel: bounds reversal
    iff = [s for s in own_nodes(k2.node) if isinstance(s, ast.If) and src(s.test) == 'reverse']
    if not iff:
        raise AnchorMissing('R11.1: reverse branch missing in gauss_seidel_indexed')
    rev = src(iff[0].body[0].value).replace(' ', '')
    fwd = src(iff[0].orelse[0].value).replace(' ', '')
    ctx.decide('R11.1', k2.qual, 'reverse: %s ; forward: %s' % (rev, fwd), reversal_ok(iff[0].body[0].value, iff[0].orelse[0].value), iff[0],
               'backward traversal (n-1,-1,-1) is the exact reversal of forward (0,n,1)', definite=True)
    ctx.decide('R11.1', k2.qual, 'row index i = indices[idx]', any(src(s) == 'i = indices[idx]' for s in w2.body), w2)
    # driver
    g = ctx.prog.func(S + '.gauss_seidel')
    # the matrix handed to the CSR kernels is the caller's matrix in another STORAGE FORMAT: every rebinding of A is a
    # format conversion (csr_matrix(A), A.tocsr(), asformat); a transpose or any arithmetic changes the operator that is relaxed
    for s in own_nodes(g.node):
        if isinstance(s, ast.Assign) and any(isinstance(x, ast.Name) and x.id == 'A' for x in s.targets):
            v = s.value
            conv = (isinstance(v, ast.Call) and ((call_name(v) or '').split('.')[-1] in ('csr_matrix', 'csr_array', 'tocsr', 'asformat', 'asarray', 'ascontiguousarray')
                                                 or (isinstance(v.func, ast.Attribute) and v.func.attr in ('tocsr', 'asformat', 'toarray', 'todense'))))
            transposed = any(isinstance(x, ast.Attribute) and x.attr in ('T', 'H') for x in ast.walk(v)) or \
                any(isinstance(x, ast.Call) and isinstance(x.func, ast.Attribute) and x.func.attr in ('transpose', 'conj', 'conjugate', 'getH') for x in ast.walk(v))
            conds = ' and '.join(t_ for (t_, _p, _n) in guards.path_conditions(s)) or 'always'
            if transposed:
                ctx.violated('R11.1', g.qual, 'A is only converted between storage formats (%s)' % conds, s,
                             '`%s` replaces the matrix by its transpose: the CSR arrays of A.T are the CSC arrays of A, so the kernels relax A^T x = b; '
                             'identical for symmetric matrices, wrong for every nonsymmetric one' % src(s))
            else:
                ctx.decide('R11.1', g.qual, 'A is only converted between storage formats (%s): %s' % (conds, src(s)[:60]), conv or None, s,
                           'same operator, CSR storage')
    t = None
    for s in own_nodes(g.node):
        if isinstance(s, ast.Assign) and src(s.targets[0]).replace(' ', '') == '(start,end,step)':
            t = s
    if t is None:
        raise AnchorMissing('R11.1: traversal bounds in solvers.gauss_seidel')
    v = t.value
    ok = None
    if isinstance(v, ast.IfExp):
        fwd_first = "'forward'" in src(v.test) and isinstance(v.test, ast.Compare) and isinstance(v.test.ops[0], ast.Eq)
        bwd_first = "'backward'" in src(v.test) and isinstance(v.test, ast.Compare) and isinstance(v.test.ops[0], ast.Eq)
        if fwd_first:
            ok = reversal_ok(v.orelse, v.body)
        elif bwd_first:
            ok = reversal_ok(v.body, v.orelse)
    ctx.decide('R11.1', g.qual, src(t), ok, t, 'forward (0,N,1); backward (N-1,-1,-1)', definite=True)
    rv = [s for s in own_nodes(g.node) if isinstance(s, ast.Assign) and src(s.targets[0]) == 'reverse']
    ok = bool(rv) and src(rv[0].value).replace(' ', '') == "sweep=='backward'"
    ctx.decide('R11.1', g.qual, src(rv[0]) if rv else 'reverse', ok, rv[0] if rv else g.node)
    # symmetric
    sym = [s for s in g.node.body if isinstance(s, ast.If) and "'symmetric'" in src(s.test)]
    if not sym:
        raise AnchorMissing('R11.1: symmetric branch')
    loop = [s for s in sym[0].body if isinstance(s, ast.For)]
    calls = [c for c in ast.walk(loop[0]) if isinstance(c, ast.Call) and call_name(c) == 'gauss_seidel'] if loop else []
    sw = [src(kwarg(c, 'sweep')) for c in calls]
    it = [src(kwarg(c, 'iterations')) for c in calls]
    ind = [src(kwarg(c, 'indices')) for c in calls]
    ok = sw == ["'forward'", "'backward'"] and it == ['1', '1'] and ind == ['indices', 'indices'] and bool(loop) and src(loop[0].iter) == 'range(iterations)'
    ctx.decide('R11.1', g.qual, 'symmetric: sweeps %s per iteration' % sw, ok, sym[0], 'forward then backward, once per iteration, same index set')
    ctx.decide('R11.1', g.qual, 'symmetric branch returns', isinstance(sym[0].body[-1], ast.Return), sym[0], 'no fall-through into a third sweep')
    # dense loop
    dl = [l for l in own_nodes(g.node) if isinstance(l, ast.For) and src(l.iter) == 'indices']
    if dl:
        body = [src(s) for s in dl[0].body]
        ok = body == ['z = A[i].dot(x)', 'a = A[i, i]', 'z -= a * x[i]', 'x[i] = (b[i] - z) / a']
        ctx.decide('R11.1', g.qual, ' ; '.join(body), ok or None, dl[0], 'dense update equals (b_i - sum_{j!=i} a_ij x_j)/a_ii')
        rv = [s for s in own_nodes(g.node) if isinstance(s, ast.Assign) and src(s.value) == 'list(reversed(indices))']
        ok = bool(rv) and guards.has_literal(guards.path_conditions(rv[0]), "sweep == 'backward'", True)
        ctx.decide('R11.1', g.qual, 'dense backward: indices = list(reversed(indices))', ok, rv[0] if rv else g.node)
    # iterations forwarded as loop counts
    n_loops = [l for l in own_nodes(g.node) if isinstance(l, ast.For) and src(l.iter) == 'range(iterations)']
    ctx.decide('R11.1', g.qual, '%d loops over range(iterations)' % len(n_loops), len(n_loops) >= 4, g.node, 'every path performs the requested number of sweeps')


# ------------------------------------------------------------------ R11.2
STRATEGIES = ('new', 'trunc', 'func_supp', 'cell_supp')


def r11_2(ctx):
    cls = ctx.prog.cls(H + '.HSpace')
    for st in STRATEGIES[1:]:
        m = cls.methods.get(st + '_indices')
        if m is None:
            raise AnchorMissing('R11.2: HSpace.%s_indices' % st)
        first = [s for s in m.node.body if isinstance(s, ast.Assign)]
        ok = bool(first) and src(first[0]) == 'indices = self.new_indices()'
        ctx.decide('R11.2', m.qual, src(first[0]) if first else 'init', ok, first[0] if first else m.node, 'every smoothing set contains the new dofs of its level')
        stores = [s for s in own_nodes(m.node) if isinstance(s, ast.Assign) and src(s.targets[0]) == 'indices[lv][i]']
        if not stores:
            raise AnchorMissing('R11.2: no store to indices[lv][i] in %s_indices' % st)
        for s in stores:
            facts = guards.path_conditions(s)
            lt = any(('i < lv' in t.replace('(', '').replace(')', '')) and pol for (t, pol, _n) in facts) or guards.holds_order(facts, 'i', '<', 'lv')
            ctx.decide('R11.2', m.qual, src(s)[:110] + ' under i < lv', lt, s, 'only coarser positions are extended; position lv keeps the new dofs')
            no_dir = any('remove_dirichlet' in t and not pol for (t, pol, _n) in facts)
            v = src(s.value).replace(' ', '')
            rem = v.startswith('sorted(') and v.endswith('-self.index_dirichlet[lv][i])')
            if no_dir:
                ctx.met('R11.2', m.qual, src(s)[:110], s, 'remove_dirichlet=False variant (used by assembly only)', nontrivial=False)
            else:
                # semantic: the stored value subtracts (or .difference()s) the Dirichlet set of exactly this (lv, i)
                # the stored value and the definitions of the locals it is built from (funcs = funcs - self.index_dirichlet[..])
                used = {x.id for x in ast.walk(s.value) if isinstance(x, ast.Name)}
                exprs = [s.value] + [d.value for d in own_nodes(m.node) if isinstance(d, ast.Assign) and d is not s
                                     and any(isinstance(t, ast.Name) and t.id in used for t in d.targets)]
                mentions = [x for e_ in exprs for x in ast.walk(e_) if isinstance(x, ast.Subscript) and src(x).replace(' ', '') == 'self.index_dirichlet[lv][i]']
                other = [x for e_ in exprs for x in ast.walk(e_) if isinstance(x, ast.Attribute) and x.attr == 'index_dirichlet']
                if rem:
                    ctx.met('R11.2', m.qual, src(s)[:110] + ' removes Dirichlet', s, 'no Dirichlet dof of (lv, i) enters a smoothing set')
                elif not other:
                    ctx.violated('R11.2', m.qual, src(s)[:110] + ' removes Dirichlet', s,
                                 'the stored set does not involve index_dirichlet at all: Dirichlet dofs of (lv, i) enter the smoothing set')
                elif not mentions:
                    ctx.violated('R11.2', m.qual, src(s)[:110] + ' removes Dirichlet', s,
                                 'the Dirichlet set removed is not the one of this (lv, i): %s' % sorted({src(parent(parent(x))) for x in other})[:2])
                else:
                    ctx.undecided('R11.2', m.qual, src(s)[:110] + ' removes Dirichlet', s, 'Dirichlet set of (lv, i) is used, form not recognised')
        r = guards.returns_of(m.node)
        ctx.decide('R11.2', m.qual, 'returns indices', bool(r) and src(r[-1].value) == 'indices', m.node)
    # what each strategy extends the new dofs by, as provenance of the sets involved:
    #   func_supp: active functions of level i that are grandparents of the ACTIVE FUNCTIONS of level lv
    #   cell_supp: active functions of level i supported in the ancestors of the SUPPORT of the active functions of level lv
    #              (supports reach into deactivated, i.e. further refined, cells -- the active cells alone are a subset)
    fs = cls.methods.get('func_supp_indices')
    gp = [c for c in ast.walk(fs.node) if isinstance(c, ast.Call) and src(c.func).endswith('function_grandparents')]
    if gp:
        ctx.expect('R11.2', fs.qual, gp[0], 'self.hmesh.function_grandparents(lv, self.actfun[lv], i)', gp[0],
                   'grandparents of the active functions of level lv on level i', label='func_supp: ' + src(gp[0]))
    cs = cls.methods.get('cell_supp_indices')
    cg = [c for c in ast.walk(cs.node) if isinstance(c, ast.Call) and src(c.func).endswith('cell_grandparent')]
    if not cg or len(cg[0].args) < 3:
        ctx.undecided('R11.2', cs.qual, 'cell_supp: cells whose ancestors are taken', cs.node, 'cell_grandparent call not recognised')
    else:
        cells = cg[0].args[1]
        is_support = isinstance(cells, ast.Call) and isinstance(cells.func, ast.Attribute) and cells.func.attr == 'support'
        plain_cells = {x.attr for x in ast.walk(cells) if isinstance(x, ast.Attribute)} & {'active', 'deactivated'} \
            or any(isinstance(x, ast.Call) and src(x.func).endswith('active_cells') for x in ast.walk(cells))
        if is_support:
            ctx.expect('R11.2', cs.qual, cells, 'self.hmesh.meshes[lv].support(self.actfun[lv])', cg[0],
                       'cells in the support of the active functions of level lv', label='cell_supp: cells = ' + src(cells))
        elif plain_cells:
            ctx.violated('R11.2', cs.qual, 'cell_supp: cells = support of the active functions of level lv', cg[0],
                         '`%s` takes the active CELLS of level lv; the supports of its active functions also cover deactivated (further refined) cells, '
                         'so coarse functions that meet level lv only there drop out of the neighbour set and their inter-level blocks are never '
                         'assembled / smoothed' % src(cells))
        else:
            ctx.undecided('R11.2', cs.qual, 'cell_supp: cells = support of the active functions of level lv', cg[0], src(cells)[:80])
        ctx.expect('R11.2', cs.qual, cg[0].args[0], 'lv', cg[0], 'ancestors are taken from level lv ...', label='cell_supp: from level ' + src(cg[0].args[0]))
        ctx.expect('R11.2', cs.qual, cg[0].args[2], 'i', cg[0], '... on level i', label='cell_supp: to level ' + src(cg[0].args[2]))
    # new_indices
    m = cls.methods.get('new_indices')
    t = src(guards.returns_of(m.node)[-1].value).replace(' ', '')
    ok = ('sorted(self.actfun[i]-self.index_dirichlet[lv][i])+sorted(self.deactfun[i]-self.index_dirichlet[lv][i])ifi==lvelse[]' in t)
    ctx.decide('R11.2', m.qual, 'new dofs of level lv = active + deactivated functions of level lv minus Dirichlet, [] elsewhere', ok or None, m.node)
    # the remove_dirichlet=False variant is only called from assembly
    callers = []
    for fi in ctx.prog.functions.values():
        for c in ast.walk(fi.node):
            if isinstance(c, ast.Call) and isinstance(c.func, ast.Attribute) and c.func.attr == 'cell_supp_indices':
                rd = kwarg(c, 'remove_dirichlet')
                if rd is not None and isinstance(rd, ast.Constant) and rd.value is False:
                    callers.append(fi.unit.modname)
    ok = all(m_ == 'pyiga._hdiscr' for m_ in callers)
    ctx.decide('R11.2', H + '.HSpace.cell_supp_indices', 'remove_dirichlet=False callers: %s' % sorted(set(callers)), ok, m.node,
               'the unfiltered variant must not reach the multigrid smoother')
    # non_dirichlet_dofs is the complement of dirichlet_dofs
    nd = cls.methods['non_dirichlet_dofs']
    ok = src(guards.returns_of(nd.node)[-1].value).replace(' ', '') == 'sorted(set(range(self.numdofs))-set(self.dirichlet_dofs()))'
    ctx.decide('R11.2', nd.qual, src(guards.returns_of(nd.node)[-1]), ok or None, nd.node)


# ------------------------------------------------------------------ R11.3
def names_in_assert(fn, var):
    for s in own_nodes(fn):
        if isinstance(s, ast.Assert) and isinstance(s.test, ast.Compare) and src(s.test.left) == var and isinstance(s.test.ops[0], ast.In):
            c = s.test.comparators[0]
            if isinstance(c, (ast.Tuple, ast.List, ast.Set)):
                return [e.value for e in c.elts if isinstance(e, ast.Constant)], s
    return None, None


def r11_3(ctx):
    cls = ctx.prog.cls(H + '.HSpace')
    its = cls.methods['indices_to_smooth']
    names, node = names_in_assert(its.node, 'strategy')
    if names is None:
        raise AnchorMissing('R11.3: strategy name list in indices_to_smooth')
    for n in names:
        ctx.decide('R11.3', its.qual, 'strategy %r -> %s_indices()' % (n, n), (n + '_indices') in cls.methods, node, 'admitted name must have a method')
    t = src(its.node)
    ctx.decide('R11.3', its.qual, "dispatch getattr(self, strategy + '_indices')()", "getattr(self, strategy + '_indices')()" in t, its.node)
    impl = sorted(k[:-8] for k in cls.methods if k.endswith('_indices') and k[:-8] in STRATEGIES)
    ctx.decide('R11.3', its.qual, 'implemented strategies %s all admitted' % impl, set(impl) <= set(names), node)
    # smoothers
    lm = ctx.prog.func(S + '.local_mg_step')
    names, node = names_in_assert(lm.node, 'smoother')
    if names is None:
        raise AnchorMissing('R11.3: smoother name list in local_mg_step')
    step = ctx.prog.func(S + '.local_mg_step.<locals>.step')
    chains = []
    for s in own_nodes(step.node):
        if isinstance(s, ast.If) and 'smoother ==' in src(s.test) and not (
                isinstance(parent(s), ast.If) and parent(s).orelse == [s] and 'smoother ==' in src(parent(s).test)):
            chain = []
            cur = s
            while isinstance(cur, ast.If):
                c = cur.test
                if isinstance(c, ast.Compare) and isinstance(c.comparators[0], ast.Constant):
                    chain.append(c.comparators[0].value)
                cur = cur.orelse[0] if len(cur.orelse) == 1 and isinstance(cur.orelse[0], ast.If) else None
            chains.append((chain, s))
    ctx.floor('R11.3', 'smoother dispatch chains (pre and post)', len(chains), 2)
    for k, (chain, s) in enumerate(chains):
        ctx.decide('R11.3', step.qual, '%s-smoothing branches %s' % ('pre' if k == 0 else 'post', chain), sorted(chain) == sorted(names), s,
                   'admitted smoothers %s' % sorted(names))
    # sweep names in gauss_seidel
    g = ctx.prog.func(S + '.gauss_seidel')
    t = src(g.node)
    ok = "sweep not in ('forward', 'backward')" in t and "sweep == 'symmetric'" in t
    ctx.decide('R11.3', g.qual, "sweeps: 'symmetric' handled first, then only forward/backward admitted (else ValueError)", ok or None, g.node)
    # sweep constants used by local_mg_step exist
    used = set()
    for c in ast.walk(step.node):
        if isinstance(c, ast.Call) and call_name(c) == 'gauss_seidel':
            sw = kwarg(c, 'sweep')
            if isinstance(sw, ast.Constant):
                used.add(sw.value)
    ctx.decide('R11.3', step.qual, 'sweeps requested: %s' % sorted(used), used <= {'forward', 'backward', 'symmetric'}, step.node)
    # documented pre/post table of the smoothers
    table = {'gs': ('forward', 'backward'), 'forward_gs': ('forward', 'forward'), 'backward_gs': ('backward', 'backward'),
             'symmetric_gs': ('symmetric', 'symmetric')}
    if len(chains) >= 2:
        for k, (chain, s) in enumerate(chains[:2]):
            cur = s
            while isinstance(cur, ast.If):
                nm = cur.test.comparators[0].value if isinstance(cur.test, ast.Compare) else None
                calls = [c for c in ast.walk(ast.Module(cur.body, [])) if isinstance(c, ast.Call) and call_name(c) == 'gauss_seidel']
                if nm in table and calls:
                    sw = kwarg(calls[0], 'sweep')
                    ok = isinstance(sw, ast.Constant) and sw.value == table[nm][k]
                    ctx.decide('R11.3', step.qual, '%s %s-smoothing uses sweep %s' % (nm, 'pre' if k == 0 else 'post', src(sw)), ok, calls[0],
                               'documented: ' + str(table[nm]))
                    ok2 = src(kwarg(calls[0], 'indices')) == 'lv_ind' and src(kwarg(calls[0], 'iterations')) == 'smooth_steps' and \
                        [src(a) for a in calls[0].args[:3]] == ['A', 'x1', 'f']
                    ctx.decide('R11.3', step.qual, src(calls[0]), ok2, calls[0], 'smoother acts on (A_lv, x1, f) restricted to the smoothing set, smooth_steps sweeps')
                cur = cur.orelse[0] if len(cur.orelse) == 1 and isinstance(cur.orelse[0], ast.If) else None


# ------------------------------------------------------------------ R11.4
def r11_4(ctx):
    fi = ctx.prog.func(S + '.iterative_solve')
    fn = fi.node
    w = [n for n in own_nodes(fn) if isinstance(n, ast.While)]
    if not w:
        raise AnchorMissing('R11.4: iteration loop')
    body = w[0].body
    texts = [src(s).split('\n')[0] for s in body]
    ix = {k: i for i, k in enumerate(texts)}
    order = ['x = step(x)', 'r = f - A @ x', 'res = scipy.linalg.norm(r[active_dofs])', 'iterations += 1']
    pos = [ix.get(k) for k in order]
    ok = None not in pos and pos == sorted(pos)
    # semantic order: position of the update x = <call>(x), of the residual (contains A @ x / A.dot(x)), of its norm
    def first_index(pred):
        for i, s in enumerate(body):
            if pred(s):
                return i
        return None
    i_upd = first_index(lambda s: isinstance(s, ast.Assign) and src(s.targets[0]) == 'x' and isinstance(s.value, ast.Call))
    i_res = first_index(lambda s: isinstance(s, ast.Assign) and ('A @ x' in src(s.value) or 'A.dot(x)' in src(s.value)))
    i_tst = first_index(lambda s: isinstance(s, ast.If) and any(isinstance(b, ast.Return) for b in ast.walk(s)))
    if ok:
        ctx.met('R11.4', fi.qual, ' ; '.join(texts[:4]), w[0], 'the residual tested is computed from the iterate that is returned, with no update in between')
    elif None not in (i_upd, i_res, i_tst):
        ctx.decide('R11.4', fi.qual, 'order in the loop: update@%d, residual@%d, test@%d' % (i_upd, i_res, i_tst), i_upd < i_res < i_tst, w[0],
                   'the residual must be computed after the update and before the test, otherwise the test judges the previous iterate', definite=True)
    else:
        ctx.undecided('R11.4', fi.qual, ' ; '.join(texts[:4]), w[0], 'loop structure not recognised')
    rets = [r for r in guards.returns_of(fn)]
    ctx.floor('R11.4', 'returns of iterative_solve', len(rets), 2)
    for r in rets:
        facts = guards.path_conditions(r, stop=w[0])
        pos_t = [t.replace(' ', '') for (t, pol, _n) in facts if pol]
        neg_t = [t.replace(' ', '') for (t, pol, _n) in facts if not pol]
        v = src(r.value).replace(' ', '')
        if 'res/res0<tol' in pos_t:
            ctx.decide('R11.4', fi.qual, src(r) + ' under res / res0 < tol', v == '(x,iterations)', r, 'converged exit reports the iteration count')
        elif 'iterations>=maxiter' in pos_t or 'iterations>maxiter' in pos_t:
            second = r.value.elts[1] if isinstance(r.value, ast.Tuple) and len(r.value.elts) == 2 else None
            is_inf = second is not None and src(second).replace(' ', '') in ('np.inf', 'numpy.inf', 'math.inf', "float('inf')", 'inf')
            is_count = second is not None and isinstance(second, ast.Name)
            ctx.decide('R11.4', fi.qual, src(r) + ' under iterations >= maxiter', True if is_inf else (False if is_count else None), r,
                       'the iteration limit is reported as inf (documented), not as a finite count', definite=True)
        else:
            ctx.violated('R11.4', fi.qual, src(r), r, 'return not guarded by the residual test or the iteration limit (guards: %s)' % pos_t)
    brk = [n for n in ast.walk(w[0]) if isinstance(n, ast.Break)]
    ctx.decide('R11.4', fi.qual, 'no break in the iteration loop', not brk, w[0])
    # the reference residual belongs to the starting vector that is actually used
    pre = [s for s in own_nodes(fn) if isinstance(s, (ast.Assign, ast.AugAssign)) and s.lineno < w[0].lineno]
    take_x0 = [s for s in pre if 'x0' in {n.id for n in ast.walk(s.value) if isinstance(n, ast.Name)}
               and src(s.targets[0] if isinstance(s, ast.Assign) else s.target).split('[')[0] == 'x']
    res_x = [s for s in pre if isinstance(s, ast.Assign) and src(s.targets[0]) == 'res0'
             and any(isinstance(b, ast.BinOp) and isinstance(b.op, ast.MatMult) and src(b.right) in ('x', 'x0') or
                     (isinstance(b, ast.Call) and src(b.func) in ('A.dot',) and b.args and src(b.args[0]) in ('x', 'x0')) for b in ast.walk(s.value))]
    if take_x0 and res_x:
        ok = all(r.lineno > min(t.lineno for t in take_x0) for r in res_x)
        ctx.decide('R11.4', fi.qual, 'res0 from f - A x with x = x0 (x0 read at line %d, residual at line %s)' % (
            min(t.lineno for t in take_x0) - fn.lineno, [r.lineno - fn.lineno for r in res_x]), ok, res_x[0],
            'the requested reduction is relative to the residual of the given starting vector; computing res0 before x0 is copied in '
            'measures against ||f|| instead', definite=True)
    elif take_x0:
        # no res0 of the form f - A x: does any res0 assigned on the x0 path (or after it) depend on the iterate at all?
        cond_x0 = set((t, p) for (t, p, _n) in guards.path_conditions(take_x0[0]))
        cands = [s for s in pre if isinstance(s, ast.Assign) and src(s.targets[0]) == 'res0'
                 and 'res0' not in {n.id for n in ast.walk(s.value) if isinstance(n, ast.Name)}
                 and (set((t, p) for (t, p, _n) in guards.path_conditions(s)) == cond_x0 or
                      (not guards.path_conditions(s) and s.lineno > take_x0[0].lineno))]
        raw = [s for s in cands if not ({n.id for n in ast.walk(s.value) if isinstance(n, ast.Name)} & {'x', 'x0', 'res0', 'r', 'r0'})]
        if cands and len(raw) == len(cands):
            ctx.violated('R11.4', fi.qual, 'reference residual of a given starting vector: ' + src(raw[0]), raw[0],
                         'with a starting vector x0 the reference residual is f - A x0; this assignment does not depend on the iterate, so the '
                         'requested reduction is measured against ||f||')
        else:
            ctx.undecided('R11.4', fi.qual, 'reference residual of a given starting vector', fn, 'statements not recognised')
    else:
        ctx.undecided('R11.4', fi.qual, 'reference residual of a given starting vector', fn, 'statements not recognised')
    r0 = [s for s in own_nodes(fn) if isinstance(s, ast.Assign) and src(s.targets[0]) == 'res0']
    ok = any(src(s.value).replace(' ', '') == 'scipy.linalg.norm(res0[active_dofs])' for s in r0)
    ctx.decide('R11.4', fi.qual, 'res0 = norm(res0[active_dofs])', ok or None, fn, 'reference residual uses the same dof set as the test')
    # solve_hmultigrid
    hm = ctx.prog.func(S + '.solve_hmultigrid')
    calls = {call_name(c): c for c in ast.walk(hm.node) if isinstance(c, ast.Call) and call_name(c) in ('iterative_solve', 'local_mg_step')}
    its = calls.get('iterative_solve')
    if its is None:
        raise AnchorMissing('R11.4: solve_hmultigrid does not call iterative_solve')
    ok = src(kwarg(its, 'tol')) == 'tol' and src(kwarg(its, 'maxiter')) == 'maxiter' and src(kwarg(its, 'active_dofs')) == 'non_dir_dofs'
    ctx.decide('R11.4', hm.qual, src(its), ok, its, 'tol, maxiter forwarded; residual restricted to the non-Dirichlet dofs')
    nd = [s for s in own_nodes(hm.node) if isinstance(s, ast.Assign) and src(s.targets[0]) == 'non_dir_dofs']
    ctx.decide('R11.4', hm.qual, src(nd[0]) if nd else 'non_dir_dofs', bool(nd) and src(nd[0].value) == 'hs.non_dirichlet_dofs()', nd[0] if nd else hm.node)


# ------------------------------------------------------------------ R11.5
ARRAY_PARAM_HINTS = ('u0', 'x0', 'x', 'u', 'f', 'b', 'rhs', 'coeffs', 'values', 'indices', 'weights')


def r11_5(ctx):
    """A None-defaulted parameter that is used as an array must be tested with 'is None'."""
    n = 0
    if not _truth_tests(ast.parse('def f(u0=None):\n    u = np.array(u0) if u0 else 0').body[0], {'u0'}):
        raise AnchorMissing('R11.5: positive control did not match')
    for fi in ctx.prog.funcs_in(S, include_nested=True):
        fn = fi.node
        a = fn.args
        defaults = dict(zip([x.arg for x in a.args][len(a.args) - len(a.defaults):], a.defaults))
        defaults.update({k.arg: d for k, d in zip(a.kwonlyargs, a.kw_defaults) if d is not None})
        none_params = {k for k, d in defaults.items() if isinstance(d, ast.Constant) and d.value is None}
        arrayish = set()
        for p in none_params:
            for c in ast.walk(fn):
                if isinstance(c, ast.Call) and call_name(c) in ('np.array', 'np.asarray', 'np.asanyarray', 'np.zeros_like') and c.args \
                        and isinstance(c.args[0], ast.Name) and c.args[0].id == p:
                    arrayish.add(p)
                if isinstance(c, ast.Subscript) and isinstance(c.value, ast.Name) and c.value.id == p:
                    arrayish.add(p)
                if isinstance(c, ast.BinOp) and isinstance(c.op, ast.MatMult) and isinstance(c.right, ast.Name) and c.right.id == p:
                    arrayish.add(p)
                if isinstance(c, ast.Assign) and isinstance(c.value, ast.Name) and c.value.id == p and src(c.targets[0]) in ('x', 'u'):
                    arrayish.add(p)
        for p in sorted(arrayish):
            n += 1
            bad = _truth_tests(fn, {p})
            isnone = [c for c in ast.walk(fn) if isinstance(c, ast.Compare) and isinstance(c.left, ast.Name) and c.left.id == p
                      and isinstance(c.ops[0], (ast.Is, ast.IsNot))]
            if bad:
                ctx.violated('R11.5', fi.qual, src(bad[0]), bad[0],
                             'optional array argument %r is tested by truth value: raises ValueError for arrays with more than one element '
                             '(and treats a zero scalar as missing)' % p)
            else:
                ctx.met('R11.5', fi.qual, 'optional array %r tested with "is None" (%d tests)' % (p, len(isnone)), fn)
    ctx.floor('R11.5', 'optional array parameters in solvers.py', n, 2)


def _truth_tests(fn, names):
    out = []
    for n in ast.walk(fn):
        tests = []
        if isinstance(n, (ast.If, ast.While, ast.IfExp)):
            tests.append(n.test)
        elif isinstance(n, ast.BoolOp):
            tests.extend(n.values)
        elif isinstance(n, ast.UnaryOp) and isinstance(n.op, ast.Not):
            tests.append(n.operand)
        for t in tests:
            if isinstance(t, ast.Name) and t.id in names:
                out.append(n)
    return out


# ------------------------------------------------------------------ R11.6
def r11_6(ctx):
    lm = ctx.prog.func(S + '.local_mg_step')
    step = ctx.prog.func(S + '.local_mg_step.<locals>.step')
    # coarse operators
    loop = [l for l in own_nodes(lm.node) if isinstance(l, ast.For) and src(l.iter) == 'reversed(Ps)']
    ok = bool(loop) and src(loop[0].body[0]).replace(' ', '') == 'As.append(P.T.dot(As[-1]).dot(P).tocsr())'
    ctx.decide('R11.6', lm.qual, src(loop[0].body[0]) if loop else 'Galerkin products', ok, loop[0] if loop else lm.node, 'coarse operators are the Galerkin products P^T A P, built from the finest level down')
    ctx.decide('R11.6', lm.qual, 'As.reverse() after construction', any(src(s) == 'As.reverse()' for s in lm.node.body), lm.node, 'As[lv] is the operator of level lv')
    tg = ctx.prog.func(S + '.twogrid')
    ac = [s for s in own_nodes(tg.node) if isinstance(s, ast.Assign) and src(s.targets[0]) == 'A_c']
    ctx.decide('R11.6', tg.qual, src(ac[0]) if ac else 'A_c', bool(ac) and src(ac[0].value).replace(' ', '') == 'P.T.dot(A).dot(P)', ac[0] if ac else tg.node, 'two-grid coarse operator P^T A P')
    cg = [s for s in own_nodes(tg.node) if isinstance(s, ast.AugAssign) and src(s.target) == 'u']
    ok = bool(cg) and src(cg[0].value).replace(' ', '') == 'P.dot(A_c_inv*P.T.dot(r))'
    ctx.decide('R11.6', tg.qual, src(cg[0]) if cg else 'coarse correction', ok or None, cg[0] if cg else tg.node, 'u += P A_c^{-1} P^T (f - A u)')
    # every write to x1 in step
    n = 0
    for s in own_nodes(step.node):
        tgt = None
        if isinstance(s, ast.Assign) and src(s.targets[0]).startswith('x1'):
            tgt = s
        elif isinstance(s, ast.AugAssign) and src(s.target).startswith('x1'):
            tgt = s
        if tgt is None:
            continue
        n += 1
        t = src(s).replace(' ', '')
        if t == 'x1=x.copy()':
            ctx.met('R11.6', step.qual, src(s), s, 'the cycle works on a copy of the iterate')
        elif t == 'x1[lv_ind]=Bs[0].dot(f[lv_ind])':
            ctx.met('R11.6', step.qual, src(s), s, 'coarsest level: exact solve on the level-0 dofs')
        elif t == 'x1[lv_ind]+=Bs[lv].dot(r_fine)':
            pre = guards.preceding_statements(s)
            ok = bool(pre) and src(pre[0]).replace(' ', '') == 'r_fine=(f-A.dot(x1))[lv_ind]'
            ctx.decide('R11.6', step.qual, src(s), ok, s, 'exact subspace solve applied to a fresh residual of the current x1')
        elif t == 'x1+=P.dot(step(lv-1,np.zeros_like(r_c),r_c))':
            pre = [src(p).replace(' ', '') for p in guards.preceding_statements(s)[:2]]
            ok = pre == ['r_c=P.T.dot(r)', 'r=f-A.dot(x1)']
            ctx.decide('R11.6', step.qual, src(s), ok, s, 'coarse-grid correction: restricted fresh residual, zero start, prolongated correction')
        else:
            ctx.undecided('R11.6', step.qual, src(s), s, 'unrecognised update of the iterate')
    ctx.floor('R11.6', 'updates of the iterate in the V-cycle', n, 4)
    # freshness of the restricted residual: between the (unconditional) computation r = f - A x1 and its restriction there is
    # no write to x1 -- on every path, whichever smoother ran
    rc = [s for s in own_nodes(step.node) if isinstance(s, ast.Assign) and isinstance(s.value, ast.Call) and '.T.dot(' in src(s.value)]
    if not rc:
        ctx.undecided('R11.6', step.qual, 'restricted residual is fresh', step.node, 'restriction statement not recognised')
    else:
        use = rc[0]
        rname = [a for a in use.value.args if isinstance(a, ast.Name)]
        blk = None
        p = parent(use)
        for field in ('body', 'orelse'):
            if isinstance(getattr(p, field, None), list) and use in getattr(p, field):
                blk = getattr(p, field)
        if not rname or blk is None:
            ctx.undecided('R11.6', step.qual, 'restricted residual is fresh', use, 'structure not recognised')
        else:
            rn = rname[0].id
            before = blk[:blk.index(use)]

            def writes_x(st):
                for x in ast.walk(st):
                    if isinstance(x, ast.AugAssign) and src(x.target).startswith('x1'):
                        return True
                    if isinstance(x, ast.Assign) and any(src(t).startswith('x1') for t in x.targets):
                        return True
                    if isinstance(x, ast.Call) and call_name(x) in ('gauss_seidel',) and len(x.args) >= 2 and src(x.args[1]) == 'x1':
                        return True
                return False
            last_write = max([i for i, st in enumerate(before) if writes_x(st)] or [-1])
            defs = [i for i, st in enumerate(before) if isinstance(st, ast.Assign) and any(isinstance(t, ast.Name) and t.id == rn for t in st.targets)]
            fresh = [i for i in defs if i > last_write and 'x1' in {x.id for x in ast.walk(before[i].value) if isinstance(x, ast.Name)}]
            if fresh:
                ctx.met('R11.6', step.qual, 'restricted residual is fresh', before[fresh[-1]],
                        '`%s` is computed unconditionally after the last update of x1 and before `%s`' % (src(before[fresh[-1]]), src(use)))
            else:
                cond_defs = [s for s in own_nodes(step.node) if isinstance(s, ast.Assign) and any(isinstance(t, ast.Name) and t.id == rn for t in s.targets)
                             and s.lineno < use.lineno]
                ctx.violated('R11.6', step.qual, 'restricted residual is fresh', use,
                             'no unconditional `%s = f - A x1` between the last update of x1 (pre-smoothing) and `%s`: on some path the residual that is '
                             'restricted predates an update of x1 (definitions of %s before the use: %s), so the coarse-grid correction works from a '
                             'stale residual and the cycle is no longer the multiplicative two-level scheme'
                             % (rn, src(use), rn, '; '.join('line %d under %s' % (s.lineno, ' and '.join(t for (t, _p, _n) in guards.path_conditions(s)) or 'no condition') for s in cond_defs) or 'none'))
    ret = src(guards.returns_of(lm.node)[-1].value).replace(' ', '')
    ctx.decide('R11.6', lm.qual, 'returns ' + ret, ret == 'lambdax:step(hs.numlevels-1,x,f)', lm.node, 'one V-cycle from the finest level with the original right-hand side')
    # OperatorSmoother: u += S (f - A u)
    osm = ctx.prog.func(S + '.OperatorSmoother.<locals>.apply')
    ok = src(osm.node.body[0]).replace(' ', '') == 'u+=S.dot(f-A.dot(u))'
    ctx.decide('R11.6', osm.qual, src(osm.node.body[0]), ok or None, osm.node, 'residual-correction form')


# ------------------------------------------------------------------ R11.7
def r11_7(ctx):
    """Documented parameters of public solver drivers are used."""
    n = 0
    for name in ('solve_hmultigrid', 'iterative_solve', 'twogrid', 'local_mg_step', 'gauss_seidel', 'newton', 'fastdiag_solver'):
        fi = ctx.prog.func('%s.%s' % (S, name))
        fn = fi.node
        params = [a.arg for a in fn.args.args + fn.args.kwonlyargs]
        used = {x.id for x in ast.walk(ast.Module(fn.body, [])) if isinstance(x, ast.Name)}
        for p in params:
            n += 1
            if p in used:
                ctx.met('R11.7', fi.qual, 'parameter %r is used' % p, fn, nontrivial=False)
            else:
                ctx.violated('R11.7', fi.qual, 'parameter %r is never read' % p, fn,
                             'a documented option is silently ignored (the default of the callee is used instead)')
    ctx.floor('R11.7', 'parameters of public solver drivers', n, 30)
    # forwarding by name: a callee parameter named like a caller parameter receives it
    hm = ctx.prog.func(S + '.solve_hmultigrid')
    lm = ctx.prog.func(S + '.local_mg_step')
    call = [c for c in ast.walk(hm.node) if isinstance(c, ast.Call) and call_name(c) == 'local_mg_step']
    if call:
        c = call[0]
        lparams = [a.arg for a in lm.node.args.args]
        passed = {}
        for i, a in enumerate(c.args):
            if i < len(lparams):
                passed[lparams[i]] = src(a)
        for k in c.keywords:
            passed[k.arg] = src(k.value)
        for p in ('smoother', 'smooth_steps'):
            ctx.decide('R11.7', hm.qual, 'local_mg_step(... %s=%s)' % (p, passed.get(p, '<default>')), passed.get(p) == p, c,
                       'same-named option of the caller must be forwarded')


def r11_9(ctx):
    """(a) Dense Gauss-Seidel over an index list: the backward sweep visits the listed rows in the REVERSE ORDER OF THE LIST
    (reversed / [::-1]); sorting the list (ascending or descending) relaxes the rows in another order for unsorted lists.
    (b) The drivers do not write into their arguments: the right-hand side f is shared with the step closure
    (local_mg_step(hs, A, f, ..)), so an in-place starting residual changes the problem that is being solved."""
    from sa import effects
    gs = ctx.prog.func(S + '.gauss_seidel')
    bw = [s_ for s_ in own_nodes(gs.node) if isinstance(s_, ast.Assign) and src(s_.targets[0]) == 'indices'
          and any((t_.replace(' ', '') in ("sweep=='backward'", "'backward'==sweep")) and p_ for (t_, p_, _n) in guards.path_conditions(s_))]
    for s_ in bw:
        v = s_.value
        srt = [c for c in ast.walk(v) if isinstance(c, ast.Call) and call_name(c) in ('sorted', 'np.sort', 'np.argsort', 'np.unique')]
        rev = any(isinstance(c, ast.Call) and call_name(c) == 'reversed' for c in ast.walk(v)) or '[::-1]' in src(v).replace(' ', '')
        if srt:
            ctx.violated('R11.9', gs.qual, src(s_), s_,
                         'the backward sweep SORTS the index list: for an unsorted list (e.g. [6, 1, 8, 4]) the rows are relaxed in descending index '
                         'order, not in the reverse of the stated order; the sparse kernels reverse the list, so dense and sparse disagree')
        else:
            ctx.decide('R11.9', gs.qual, src(s_), True if rev else None, s_, 'backward = the list reversed')
    for q in (S + '.iterative_solve', S + '.twogrid', S + '.solve_hmultigrid'):
        fi = ctx.prog.func(q)
        ws = effects.external_writes(fi.node)
        bad = [w for w in ws if w['definite'] and any(r.startswith('param:') for r in w['external'])
               and not all(r in ('param:x', 'param:x0', 'param:u0') for r in w['external'])]
        if bad:
            w = bad[0]
            ctx.violated('R11.9', fi.qual, src(w['node'])[:80], w['node'],
                         'in-place %s on storage of the argument %s: the caller\'s right-hand side (which the step closure shares) is overwritten, so '
                         'the iteration solves another system and reports convergence for it' % (w['kind'], ', '.join(sorted(x[6:] for x in w['external']))))
        else:
            ctx.met('R11.9', fi.qual, 'no in-place write to the matrix / right-hand side arguments', fi.node)


def r11_10(ctx):
    """The coarsest-level step of the local multigrid cycle is a CORRECTION of its iterate: x[ind] += B (f - A x)[ind].
    Overwriting x[ind] = B f[ind] ignores the coupling of the free dofs to the other entries of x (prescribed Dirichlet
    values); inside a cycle level 0 is only called with x = 0, but for a one-level space it receives the real iterate, and the
    exact discrete solution with inhomogeneous Dirichlet values is then not a fixed point."""
    st = ctx.prog.func(S + '.local_mg_step.<locals>.step')
    lv0 = [s_ for s_ in own_nodes(st.node) if isinstance(s_, ast.If) and src(s_.test).replace(' ', '') in ('lv==0', '0==lv')]
    if not lv0:
        ctx.undecided('R11.10', st.qual, 'coarsest-level branch', st.node, 'not recognised')
        return
    body = lv0[0].body
    stores = [s_ for s_ in body if isinstance(s_, (ast.Assign, ast.AugAssign)) and isinstance((s_.targets[0] if isinstance(s_, ast.Assign) else s_.target), ast.Subscript)]
    if not stores:
        ctx.undecided('R11.10', st.qual, 'update of the level-0 iterate', lv0[0], 'not recognised')
        return
    s0 = stores[0]
    text = src(ast.Module(body, []))
    residual = ('.dot(x' in text.replace(' ', '') or '@x' in text.replace(' ', '')) and isinstance(s0, ast.AugAssign)
    overwrite = isinstance(s0, ast.Assign) and not any(isinstance(x, ast.Name) and x.id in ('x', 'x1') for x in ast.walk(s0.value))
    ctx.decide('R11.10', st.qual, src(s0), True if residual else (False if overwrite else None), s0,
               'residual correction on the coarsest level' if residual else
               'the coarsest-level step overwrites the free dofs with B f[ind] and never reads the iterate: for a hierarchical space with a single '
               'level the cycle ignores the prescribed (nonzero) Dirichlet values kept in x, so the exact discrete solution is not a fixed point '
               '(deviation ~1; two and more levels are exact because level 0 is then only called with x = 0)', definite=True)


def run(ctx):
    r11_10(ctx)
    r11_9(ctx)
    r11_1(ctx)
    r11_2(ctx)
    r11_3(ctx)
    r11_4(ctx)
    r11_5(ctx)
    r11_6(ctx)
    r11_7(ctx)
    # R11.8 = R04.4: the Dirichlet index sets that every smoothing-set strategy subtracts are reset by each refinement
    import rules.C04 as c04
    ctx.shared(c04.r04_4, 'R04.4', 'R11.8')

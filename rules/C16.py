"""C16 -- linear-operator building blocks (structural clauses)."""
import ast

from sa.program import src, own_nodes, call_name, dotted, parent, kwarg
from sa import guards, resolve

EXPLANATION = (
    "Static rules over pyiga/operators.py, kronecker.py and tensor.py: (R16.1) every LinearOperator subclass that "
    "customises _transpose also provides _adjoint (otherwise .H raises for every operand) and the two bodies agree modulo "
    ".T<->adjoint; (R16.2) attributes read from operands of unknown kind (dense | sparse | LinearOperator) are available on "
    "all three kinds; (R16.3) the square-only Kronecker routine is selected only under the all-square condition; (R16.4) "
    "_matvec/_matmat of one class perform the same accumulation; (R16.5) the mode-product routines move the axis that the "
    "producer created, and all branches of the apply_tprod sweep (dense, sparse/operator, identity placeholder) address the same "
    "axis (axis expressions compared as affine forms; a negative index is not len(ops)-1 because trailing axes are allowed). "
    "Decides these structural necessary conditions, not equality with dense matrices.")
DOES_NOT_DECIDE = "equality of any operator with its dense definition; solver accuracy"

MOD = 'pyiga.operators'

# attributes available on numpy.ndarray, scipy.sparse matrices/arrays AND scipy LinearOperator
COMMON_OPERAND_ATTRS = {'shape', 'dtype', 'dot', 'T', 'ndim', 'transpose'}
# attribute names whose presence on an operand is kind-specific (witnesses for a definite violation)
KIND_SPECIFIC = {
    'H': 'numpy.ndarray and scipy.sparse matrices have no attribute H',
    'getH': 'only old scipy.sparse matrices have getH',
    'A': 'only numpy.matrix / old scipy.sparse have A',
    'toarray': 'ndarray and LinearOperator have no toarray',
    'todense': 'ndarray and LinearOperator have no todense',
    'matvec': 'ndarray and sparse matrices have no matvec',
    'rmatvec': 'ndarray and sparse matrices have no rmatvec',
    'matmat': 'ndarray and sparse matrices have no matmat',
    'adjoint': 'ndarray and sparse matrices have no adjoint()',
    'conj': 'LinearOperator has no conj()',
    'conjugate': 'LinearOperator has no conjugate()',
}

# fields that hold caller-supplied operands of unknown kind, per class (confirmed by reading the docstrings)
OPERAND_FIELDS = {
    'KroneckerOperator': {'ops'},
    'BaseBlockOperator': {'ops'},
    'SubspaceOperator': {'Bs', 'subspaces'},
}


def linop_classes(prog):
    out = []
    for c in prog.classes_in(MOD):
        if any(b.endswith('LinearOperator') for b in c.base_names):
            out.append(c)
    return out


def _elements_of_operand_fields(fn, fields):
    """Names in ``fn`` bound to an element of self.<field>, and direct element expressions."""
    elem_names = set()
    elem_exprs = []

    def is_field(e):
        return (isinstance(e, ast.Attribute) and isinstance(e.value, ast.Name) and e.value.id == 'self'
                and e.attr in fields)
    for n in ast.walk(fn):
        if isinstance(n, ast.comprehension) and is_field(n.iter) and isinstance(n.target, ast.Name):
            elem_names.add(n.target.id)
        elif isinstance(n, ast.For) and is_field(n.iter) and isinstance(n.target, ast.Name):
            elem_names.add(n.target.id)
        elif isinstance(n, ast.Subscript) and is_field(n.value) and not isinstance(n.slice, ast.Slice):
            elem_exprs.append(n)
        elif isinstance(n, ast.Assign) and len(n.targets) == 1 and isinstance(n.targets[0], ast.Name):
            v = n.value
            if isinstance(v, ast.Subscript) and is_field(v.value) and not isinstance(v.slice, ast.Slice):
                elem_names.add(n.targets[0].id)
    return elem_names, elem_exprs


def _guarded_by_kind_test(node):
    for (t, pol, n) in guards.dominating_facts(node):
        if 'isinstance(' in t or 'hasattr(' in t or 'issparse(' in t:
            return True
    return False


def r16_1(ctx):
    classes = linop_classes(ctx.prog)
    ctx.floor('R16.1', 'LinearOperator subclasses in operators.py', len(classes), 4)
    for c in classes:
        tr = c.methods.get('_transpose')
        ad = c.methods.get('_adjoint')
        rm = c.methods.get('_rmatvec')
        # class-level alias  _adjoint = _transpose
        alias = None
        for s in c.node.body:
            if isinstance(s, ast.Assign) and any(isinstance(t, ast.Name) and t.id == '_adjoint' for t in s.targets):
                alias = s
        if tr is None:
            continue
        construct = '%s.%s' % (MOD, c.name)
        if ad is None and alias is None and rm is None:
            ctx.violated('R16.1', construct, 'defines _transpose without _adjoint/_rmatvec', tr.node,
                         'LinearOperator.H falls back to _rmatvec which raises NotImplementedError; '
                         'the adjoint of this operator cannot be applied')
            continue
        ctx.met('R16.1', construct, 'defines _transpose and an adjoint route', tr.node)
        if ad is not None:
            # agreement modulo  .T <-> adjoint spelling
            a = _canon_adjoint(ad.node)
            t = _canon_adjoint(tr.node)
            rebuilt = 'return %s(' % c.name
            if a == t or a == 'SAME-AS-TRANSPOSE':
                ctx.met('R16.1', construct, '_adjoint == _transpose modulo .T<->.H', ad.node)
            elif t == 'return self' and a.startswith(rebuilt) and all(
                    x.strip().startswith('self.') for x in a[len(rebuilt):-1].split(',')):
                ctx.met('R16.1', construct, '_adjoint rebuilds the self-transpose operator from its own (conjugated) fields', ad.node)
            else:
                # same construction over the operand sequence, but traversed in a different order?
                def iter_sources(fn):
                    return [src(g.iter).replace(' ', '') for g in ast.walk(fn) if isinstance(g, ast.comprehension)]
                ia, it_ = iter_sources(ad.node), iter_sources(tr.node)

                def unrev(s):
                    if s.startswith('reversed(') and s.endswith(')'):
                        return s[len('reversed('):-1], True
                    if s.endswith('[::-1]'):
                        return s[:-len('[::-1]')], True
                    return s, False
                if len(ia) == len(it_) == 1 and unrev(ia[0])[0] == unrev(it_[0])[0] and unrev(ia[0])[1] != unrev(it_[0])[1]:
                    ctx.violated('R16.1', construct, '_adjoint and _transpose traverse the operands in the same order', ad.node,
                                 '_adjoint iterates `%s` but _transpose iterates `%s`: for Kronecker and block structures the adjoint is taken factor '
                                 'by factor IN PLACE ((A x B)^H = A^H x B^H); reversing the order is the rule for matrix products' % (ia[0], it_[0]))
                else:
                    ctx.undecided('R16.1', construct, '_adjoint vs _transpose differ in shape', ad.node,
                                  'bodies are not equal after replacing adjoint spellings by .T')


class _AdjCanon(ast.NodeTransformer):
    def visit_Attribute(self, n):
        self.generic_visit(n)
        if n.attr == 'H':
            return ast.Attribute(n.value, 'T', n.ctx)
        return n

    def visit_Call(self, n):
        self.generic_visit(n)
        name = call_name(n)
        # helper spelled _adjoint_of(x) / _adj(x) / x.conj().T / x.T.conj()  ->  x.T
        if isinstance(n.func, ast.Name) and 'adj' in n.func.id.lower() and len(n.args) == 1 and not n.keywords:
            return ast.Attribute(n.args[0], 'T', ast.Load())
        if isinstance(n.func, ast.Attribute) and n.func.attr in ('conj', 'conjugate') and not n.args:
            return n.func.value
        if isinstance(n.func, ast.Attribute) and n.func.attr == '_transpose' and not n.args:
            return n
        if isinstance(n.func, ast.Attribute) and n.func.attr in ('adjoint',) and not n.args:
            return ast.Attribute(n.func.value, 'T', ast.Load())
        if name in ('np.conj', 'np.conjugate', 'numpy.conj') and len(n.args) == 1:
            return n.args[0]
        return n


def _canon_adjoint(fn):
    import copy
    body = [copy.deepcopy(s) for s in fn.body
            if not (isinstance(s, ast.Expr) and isinstance(s.value, ast.Constant))]
    # "return self._transpose()" counts as equal to the transpose itself
    if len(body) == 1 and isinstance(body[0], ast.Return) and isinstance(body[0].value, ast.Call) \
            and src(body[0].value) in ('self._transpose()', 'self.transpose()', 'self.T'):
        return 'SAME-AS-TRANSPOSE'
    out = []
    for s in body:
        s = _AdjCanon().visit(s)
        out.append(src(s))
    return '\n'.join(out)


def r16_2(ctx):
    n_sites = 0
    for c in linop_classes(ctx.prog):
        fields = OPERAND_FIELDS.get(c.name)
        if not fields:
            continue
        for mname, fi in sorted(c.methods.items()):
            elem_names, elem_exprs = _elements_of_operand_fields(fi.node, fields)
            for n in ast.walk(fi.node):
                if not isinstance(n, ast.Attribute):
                    continue
                v = n.value
                is_elem = (isinstance(v, ast.Name) and v.id in elem_names) or any(v is e for e in elem_exprs)
                if not is_elem:
                    continue
                n_sites += 1
                construct = '%s.%s.%s' % (MOD, c.name, mname)
                st = src(n)
                if n.attr in COMMON_OPERAND_ATTRS:
                    ctx.met('R16.2', construct, st, n, 'attribute exists on ndarray, sparse and LinearOperator')
                elif _guarded_by_kind_test(n):
                    ctx.met('R16.2', construct, st, n, 'kind-specific attribute under an explicit kind test')
                elif n.attr in KIND_SPECIFIC:
                    ctx.violated('R16.2', construct, st, n,
                                 'operand kind is dense | sparse | LinearOperator; ' + KIND_SPECIFIC[n.attr])
                else:
                    ctx.undecided('R16.2', construct, st, n, 'attribute not in the kind table')
    ctx.floor('R16.2', 'attribute reads on operands', n_sites, 8)


def r16_3(ctx):
    init = ctx.prog.func(MOD + '.KroneckerOperator.__init__')
    sites = []
    for n in own_nodes(init.node):
        if isinstance(n, ast.Assign) and isinstance(n.value, ast.Attribute) and n.value.attr == '_apply_kronecker_linops':
            sites.append(n)
    # also anywhere else in the package that selects the square-only routine
    ctx.floor('R16.3', 'selections of _apply_kronecker_linops in KroneckerOperator', len(sites), 1)
    # definition of allsquare must compare shape[0] with shape[1] for all ops
    defs = [n for n in own_nodes(init.node) if isinstance(n, ast.Assign)
            and any(isinstance(t, ast.Name) and t.id == 'allsquare' for t in n.targets)]
    ok_def = False
    per_factor = False          # some comparison X.shape[0] ==/!= X.shape[1] of ONE factor X feeds the definition
    for d in defs:
        s = src(d.value).replace(' ', '')
        if s.startswith('all(') and ('.shape[0]==' in s and '.shape[1]' in s):
            ok_def = True
        full = resolve.expand(d.value, d)
        for c in list(ast.walk(full)) + [x for st in own_nodes(init.node) for x in ast.walk(st) if isinstance(x, ast.Compare)]:
            if isinstance(c, ast.Compare) and len(c.ops) == 1 and isinstance(c.ops[0], (ast.Eq, ast.NotEq)):
                a, b = src(c.left).replace(' ', ''), src(c.comparators[0]).replace(' ', '')
                for x, y in ((a, b), (b, a)):
                    if x.endswith('.shape[0]') and y.endswith('.shape[1]') and x[:-len('.shape[0]')] == y[:-len('.shape[1]')]:
                        per_factor = True
    for site in sites:
        facts = guards.dominating_facts(site)
        sel = guards.has_literal(facts, 'allsquare', True)
        construct = MOD + '.KroneckerOperator.__init__'
        if sel and ok_def:
            ctx.met('R16.3', construct, src(site), site, 'selected under allsquare')
        elif not sel:
            ctx.violated('R16.3', construct, src(site), site,
                         'square-only routine selected on a path where allsquare is not known to hold')
        elif defs and not per_factor:
            ctx.violated('R16.3', construct, 'allsquare = ' + src(defs[0].value)[:90], defs[0],
                         'the flag that admits the square-only routine is not computed factor by factor (no comparison of shape[0] with '
                         'shape[1] of one operand): a product of rectangular factors can have a square total shape')
        else:
            ctx.undecided('R16.3', construct, src(site), site, 'definition of allsquare not recognised')
    # apply_kronecker: the linops route there is documented for square operators; precondition is the docstring


def _loops(fn):
    return [n for n in own_nodes(fn) if isinstance(n, (ast.For, ast.While))]


def _accumulator_dtype(ctx, c):
    """Operators built from several operands declare the dtype of their FIRST operand (ops[0].dtype).  That is harmless as
    long as results are accumulated in default float64 buffers; an accumulator allocated with dtype=self.dtype narrows
    every contribution to the first operand's type (float32, or an integer selection matrix: casting error)."""
    init = c.methods.get('__init__')
    if init is None:
        return
    first_only = None
    for call in ast.walk(init.node):
        if isinstance(call, ast.Call) and (src(call.func).endswith('LinearOperator.__init__') or src(call.func) in ('super().__init__',)):
            cands = [kw.value for kw in call.keywords if kw.arg == 'dtype'] + [a for a in call.args]
            for d in cands:
                t = src(d).replace(' ', '')
                if t.endswith('[0].dtype'):
                    first_only = d
    if first_only is None:
        return
    for mname in ('_matvec', '_matmat', '_rmatvec', '_rmatmat'):
        m = c.methods.get(mname)
        if m is None:
            continue
        for call in ast.walk(m.node):
            if isinstance(call, ast.Call) and (call_name(call) or '') in ('np.zeros', 'np.empty', 'np.zeros_like', 'np.empty_like', 'np.full'):
                dt = kwarg(call, 'dtype', 99)
                accumulates = any(isinstance(s, ast.AugAssign) for s in ast.walk(m.node))
                if dt is None:
                    ctx.met('R16.4', '%s.%s.%s' % (MOD, c.name, mname), 'accumulator ' + src(call), call, 'default float64 buffer')
                elif src(dt).replace(' ', '') == 'self.dtype' and accumulates:
                    ctx.violated('R16.4', '%s.%s.%s' % (MOD, c.name, mname), 'accumulator ' + src(call), call,
                                 'the buffer takes self.dtype, which __init__ sets from the first operand only (`%s`): contributions of the other '
                                 'operands are cast down to it (float32 first: single-precision result; integer first: casting error)' % src(first_only))
                else:
                    ctx.undecided('R16.4', '%s.%s.%s' % (MOD, c.name, mname), 'accumulator ' + src(call), call, 'dtype %s' % src(dt))


def r16_4(ctx):
    n = 0
    for c in linop_classes(ctx.prog):
        _accumulator_dtype(ctx, c)
        mv, mm = c.methods.get('_matvec'), c.methods.get('_matmat')
        if mv is None or mm is None:
            continue
        n += 1
        construct = '%s.%s' % (MOD, c.name)
        # delegation
        def delegates(a, b):
            return any(isinstance(x, ast.Call) and src(x.func) == 'self.' + b for x in ast.walk(a.node))
        if delegates(mm, '_matvec') or delegates(mv, '_matmat'):
            ctx.met('R16.4', construct, '_matmat delegates to _matvec', mm.node)
            continue
        lv = sorted(src(l) for l in _loops(mv.node))
        lm = sorted(src(l) for l in _loops(mm.node))
        if lv or lm:
            if lv == lm:
                ctx.met('R16.4', construct, 'accumulation loops identical', mm.node)
            else:
                # if-branches containing the loops (SubspaceOperator style) -- compare bodies loosely
                ctx.violated('R16.4', construct, 'accumulation loops differ between _matvec and _matmat', mm.node,
                             '_matvec: %s | _matmat: %s' % (' ;; '.join(lv), ' ;; '.join(lm)))
            continue
        rv = [src(r.value) for r in guards.returns_of(mv.node)]
        rm = [src(r.value) for r in guards.returns_of(mm.node)]
        if rv == rm:
            ctx.met('R16.4', construct, 'identical return expressions', mm.node)
        else:
            # same callee, shape argument differs (zeros((m,)) vs zeros((m,k)))
            cv = [call_name(r.value) for r in guards.returns_of(mv.node) if isinstance(r.value, ast.Call)]
            cm = [call_name(r.value) for r in guards.returns_of(mm.node) if isinstance(r.value, ast.Call)]
            if cv and cv == cm:
                ctx.met('R16.4', construct, 'same producer call, shape argument differs', mm.node,
                        nontrivial=False)
            else:
                ctx.undecided('R16.4', construct, 'return expressions differ', mm.node, '%s vs %s' % (rv, rm))
    ctx.floor('R16.4', 'classes with _matvec and _matmat', n, 4)


def r16_5(ctx):
    """Mode products: the consumer moves the axis the producer created."""
    prog = ctx.prog
    # (a) apply_tprod: all three branches address the same axis
    f = prog.func('pyiga.tensor.apply_tprod')
    axes = []
    loop = [n for n in own_nodes(f.node) if isinstance(n, ast.For)]
    ctx.floor('R16.5', 'sweep loop in apply_tprod', len(loop), 1)
    for n in ast.walk(loop[0]):
        if isinstance(n, ast.Call):
            nm = call_name(n)
            if nm == 'np.tensordot':
                ax = kwarg(n, 'axes', 2)
                if isinstance(ax, ast.Tuple) and len(ax.elts) == 2:
                    a0, a1 = ax.elts
                    # axes=([1],[n-1]): contract operator columns with tensor axis
                    e0 = a0.elts[0] if isinstance(a0, (ast.List, ast.Tuple)) else a0
                    e1 = a1.elts[0] if isinstance(a1, (ast.List, ast.Tuple)) else a1
                    ok = isinstance(e0, ast.Constant) and e0.value == 1
                    ctx.decide('R16.5', 'pyiga.tensor.apply_tprod', 'tensordot contracts operator axis 1', ok or None, n,
                               'operator columns are the input side')
                    axes.append(('tensordot', src(e1), n))
            elif nm == '_modek_tensordot_sparse' and len(n.args) >= 3:
                axes.append(('sparse', src(n.args[2]), n))
            elif nm in ('np.rollaxis', 'np.moveaxis') and len(n.args) >= 3:
                axes.append(('identity', src(n.args[1]), n))
                ok = isinstance(n.args[2], ast.Constant) and n.args[2].value == 0
                ctx.decide('R16.5', 'pyiga.tensor.apply_tprod', 'identity placeholder rolls the axis to the front', ok, n,
                           'every branch must leave the processed axis in front')
    ctx.floor('R16.5', 'branches of the apply_tprod sweep', len(axes), 3)
    vals = {a for (_k, a, _n) in axes}

    def axis_form(t):
        from sa import affine
        try:
            lin = affine.from_ast(ast.parse(t, mode='eval').body, opaque=False)
        except (affine.NonAffine, SyntaxError):
            return None
        return (tuple(sorted((k, str(v)) for k, v in lin.c.items())), str(lin.k))
    forms = {a: axis_form(a) for a in vals}
    if any(v is None for v in forms.values()):
        same = True if len(vals) == 1 else None
    else:
        same = len(set(forms.values())) == 1
    allforms = [forms.get(a) for (_k, a, _n) in axes]
    major = max(allforms, key=lambda fm: allforms.count(fm))
    odd = [(k, a, nn) for (k, a, nn) in axes if forms.get(a) != major]
    ctx.decide('R16.5', 'pyiga.tensor.apply_tprod', 'all branches of the sweep process the same axis',
               same, odd[0][2] if odd else axes[0][2],
               'dense, sparse/operator and identity branches must address the same axis (A may have trailing axes, so a negative index is '
               'not the axis len(ops)-1); axes used: ' + ', '.join('%s: %s' % (k, a) for k, a, _ in axes), definite=True)
    it = src(loop[0].iter)
    ctx.decide('R16.5', 'pyiga.tensor.apply_tprod', 'sweep order ' + it,
               it in ('reversed(range(n))', 'range(n - 1, -1, -1)') or None, loop[0],
               'n cyclic moves of the last axis restore the axis order')
    # (b) modek_tprod: dense producer leaves new axis last, sparse producer first
    g = prog.func('pyiga.tensor.modek_tprod')
    for iff in [n for n in own_nodes(g.node) if isinstance(n, ast.If)]:
        for branch in (iff.body, iff.orelse):
            prod = cons = None
            for s in branch:
                for c in ast.walk(s):
                    if isinstance(c, ast.Call):
                        nm = call_name(c)
                        if nm == 'np.tensordot':
                            prod = ('last', c)
                        elif nm == '_modek_tensordot_sparse':
                            prod = ('first', c)
                        elif nm in ('np.rollaxis', 'np.moveaxis') and len(c.args) >= 3:
                            cons = c
                        elif nm in ('np.swapaxes', 'np.transpose') and prod is not None:
                            ctx.violated('R16.5', 'pyiga.tensor.modek_tprod', '%s after %s' % (src(c), call_name(prod[1])), c,
                                         'the producer leaves the new axis %s with the OTHER axes in their original order; putting it back needs a '
                                         'cyclic move (moveaxis / rollaxis).  %s exchanges two axes, which is the same only for k <= 1: for k >= 2 the '
                                         'leading axes come out permuted' % (prod[0], nm))
            if prod and cons:
                srcpos = cons.args[1]
                want = -1 if prod[0] == 'last' else 0
                ok = isinstance(srcpos, ast.Constant) and srcpos.value == want
                if isinstance(srcpos, ast.UnaryOp) and isinstance(srcpos.op, ast.USub) and isinstance(srcpos.operand, ast.Constant):
                    ok = (-srcpos.operand.value == want)
                dest_ok = src(cons.args[2]) == 'k'
                ctx.decide('R16.5', 'pyiga.tensor.modek_tprod', '%s after %s' % (src(cons), call_name(prod[1])),
                           bool(ok and dest_ok), cons,
                           'producer leaves the new axis %s; consumer must move exactly that axis to k' % prod[0])
    # (c) _modek_tensordot_sparse brings axis k to the front before matricizing
    h = prog.func('pyiga.tensor._modek_tensordot_sparse')
    roll = [c for c in ast.walk(h.node) if isinstance(c, ast.Call) and call_name(c) in ('np.rollaxis', 'np.moveaxis')]
    for c in roll:
        ok = len(c.args) >= 3 and src(c.args[1]) == 'k' and isinstance(c.args[2], ast.Constant) and c.args[2].value == 0
        ctx.decide('R16.5', 'pyiga.tensor._modek_tensordot_sparse', src(c), ok or None, c, 'axis k to the front')


def r16_6(ctx):
    """Block operator transposition swaps the range lists and the shape."""
    for meth in ('_transpose', '_adjoint'):
        fi = ctx.prog.maybe_func(MOD + '.BaseBlockOperator.' + meth)
        if fi is None:
            continue
        for c in ast.walk(fi.node):
            if isinstance(c, ast.Call) and call_name(c) == 'BaseBlockOperator' and len(c.args) >= 4:
                a = [src(x) for x in c.args]
                ok = a[2] == 'self.ran_in' and a[3] == 'self.ran_out'
                ctx.decide('R16.6', MOD + '.BaseBlockOperator.' + meth, 'ranges swapped: ' + ', '.join(a[2:4]), ok, c,
                           'transpose maps output ranges to input ranges')
                shp = fi.node.body
                sh = [s for s in shp if isinstance(s, ast.Assign) and src(s.targets[0]) == a[0]]
                if sh:
                    ok2 = src(sh[0].value).replace(' ', '') == '(self.shape[1],self.shape[0])'
                    ctx.decide('R16.6', MOD + '.BaseBlockOperator.' + meth, 'shape swapped: ' + src(sh[0].value), ok2 or None, sh[0])
    f = ctx.prog.func(MOD + '.NullOperator._transpose')
    for c in ast.walk(f.node):
        if isinstance(c, ast.Call) and call_name(c) == 'NullOperator':
            ok = src(c.args[0]).replace(' ', '') == '(self.shape[1],self.shape[0])'
            ctx.decide('R16.6', MOD + '.NullOperator._transpose', src(c), ok or None, c, 'shape swapped')


def r16_7(ctx):
    """The work buffers of _apply_kronecker_linops receive `ops[i].dot(...)` (floating point) in every sweep: they are
    allocated as float arrays of the argument's SHAPE, never as copies / `_like` of the argument (an integer or bool
    right-hand side would give integer buffers and every sweep would truncate)."""
    f = ctx.prog.func('pyiga.kronecker._apply_kronecker_linops')
    param = f.node.args.args[1].arg if len(f.node.args.args) > 1 else 'x'
    # buffers: names that are targets of a slice store `q[...] = ....dot(...)` (directly or after a swap)
    bufs = set()
    for s_ in ast.walk(f.node):
        if isinstance(s_, ast.Assign) and isinstance(s_.targets[0], ast.Subscript) and isinstance(s_.targets[0].value, ast.Name) \
                and any(isinstance(c, ast.Call) and isinstance(c.func, ast.Attribute) and c.func.attr == 'dot' for c in ast.walk(s_.value)) \
                or (isinstance(s_, ast.Assign) and isinstance(s_.targets[0], ast.Subscript) and isinstance(s_.targets[0].value, ast.Name)
                    and isinstance(s_.value, ast.Attribute) and s_.value.attr == 'T'):
            bufs.add(s_.targets[0].value.id)
    for s_ in ast.walk(f.node):        # q0, q1 = q1, q0
        if isinstance(s_, ast.Assign) and isinstance(s_.targets[0], ast.Tuple) and isinstance(s_.value, ast.Tuple):
            names = {x.id for x in s_.targets[0].elts if isinstance(x, ast.Name)} | {x.id for x in s_.value.elts if isinstance(x, ast.Name)}
            if names & bufs:
                bufs |= names
    n = 0
    for s_ in own_nodes(f.node):
        if isinstance(s_, ast.Assign) and len(s_.targets) == 1 and isinstance(s_.targets[0], ast.Name) and s_.targets[0].id in bufs \
                and isinstance(s_.value, ast.Call):
            nm = call_name(s_.value) or ''
            if nm.split('.')[-1] in ('reshape', 'resize'):
                continue
            n += 1
            dt = kwarg(s_.value, 'dtype', 99)
            follows = nm in ('np.array', 'np.asarray', 'np.copy', 'np.asfortranarray', 'np.ascontiguousarray') or nm.endswith('_like') \
                or (dt is not None and param in src(dt)) or (isinstance(s_.value.func, ast.Attribute) and s_.value.func.attr in ('copy', 'astype') and param in src(s_.value.func.value))
            float_alloc = nm in ('np.empty', 'np.zeros') and (dt is None or src(dt) in ('float', 'np.float64', 'np.double'))
            ctx.decide('R16.7', f.qual, src(s_), True if float_alloc else (False if follows else None), s_,
                       'work buffer allocated as a float array of the argument\'s shape' if float_alloc else
                       'the work buffer takes the dtype of the argument: for an integer (or bool) right-hand side the results of ops[i].dot(...) '
                       'are truncated when they are stored, so the operator no longer equals kron(A, B, ...) @ x', definite=True)
    ctx.floor('R16.7', 'work buffer allocations in _apply_kronecker_linops', n, 2)


def r16_8(ctx):
    """(a) make_solver: a Cholesky factorisation is used only when the caller promised positive definiteness (spd); for a
    matrix that is merely symmetric (symmetric=True) it raises LinAlgError although the sparse branch solves the same system.
    (b) DiagonalOperator accepts a diagonal of length 1: np.squeeze without an axis turns a one-element vector into a 0-d array."""
    ms = ctx.prog.func(MOD + '.make_solver')
    for c in ast.walk(ms.node):
        if isinstance(c, ast.Call) and (call_name(c) or '').split('.')[-1] == 'cho_factor':
            facts = guards.dominating_facts(c)
            under_spd = any(t_.replace(' ', '') == 'spd' and p_ for (t_, p_, _n) in facts)
            under_sym = any(t_.replace(' ', '') == 'symmetric' and p_ for (t_, p_, _n) in facts)
            ctx.decide('R16.8', ms.qual, src(c)[:80], True if under_spd else (False if under_sym else None), c,
                       'Cholesky only for matrices declared positive definite' if under_spd else
                       'the dense branch factorises every SYMMETRIC matrix by Cholesky: a symmetric indefinite matrix passed with symmetric=True '
                       '(allowed by the docstring, handled by the sparse branch) raises LinAlgError instead of being solved', definite=True)
    do = ctx.prog.func(MOD + '.DiagonalOperator.__init__')
    sq = [c for c in ast.walk(do.node) if isinstance(c, ast.Call) and call_name(c) == 'np.squeeze' and kwarg(c, 'axis', 1) is None]
    asserts_1d = any(isinstance(a, ast.Assert) and 'ndim==1' in src(a.test).replace(' ', '') for a in ast.walk(do.node))
    handles0 = any(isinstance(c, ast.Call) and (call_name(c) or '').split('.')[-1] in ('atleast_1d', 'ravel', 'reshape') for c in ast.walk(do.node)) \
        or 'ndim==0' in src(do.node).replace(' ', '')
    if sq and asserts_1d:
        ctx.decide('R16.8', do.qual, src(sq[0]), True if handles0 else False, sq[0],
                   'a one-element diagonal stays one-dimensional' if handles0 else
                   'np.squeeze removes EVERY axis of length 1: a diagonal of length 1 becomes 0-dimensional and the following `ndim == 1` '
                   'assertion rejects it (DiagonalOperator([2.0]); inner_products / integrate for degree 0 with a single span)', definite=True)
    else:
        ctx.met('R16.8', do.qual, 'diagonal kept as a vector', do.node)


def r16_9(ctx):
    """CSRRowSubset applies the rows in the order and multiplicity of the row list.  Rows are applied one by one; if they are
    grouped into runs handled by one kernel call, a run ends wherever the next row is not the previous row + 1
    (np.diff(rows) != 1).  The test `> 1` lets a repeated or a decreasing row continue the run: rows r, r+1, ... of the matrix
    are applied instead of the listed ones."""
    f = ctx.prog.maybe_func('pyiga.utils.CSRRowSubset._matvec')
    if f is None:
        ctx.undecided('R16.9', 'pyiga.utils.CSRRowSubset._matvec', 'definition', None, 'not found')
        return
    diffs = [c for c in ast.walk(f.node) if isinstance(c, ast.Compare) and any(isinstance(x, ast.Call) and (call_name(x) or '').endswith('diff') for x in ast.walk(c.left))]
    if not diffs:
        per_row = any(isinstance(l, ast.For) and 'self.rows' in src(l.iter) for l in ast.walk(f.node))
        ctx.decide('R16.9', f.qual, 'rows applied one by one' if per_row else 'application of the rows', True if per_row else None, f.node)
        return
    for c in diffs:
        op, rhs = c.ops[0], c.comparators[0]
        one = isinstance(rhs, ast.Constant) and rhs.value == 1
        ok = one and isinstance(op, ast.NotEq)
        bad = (one and isinstance(op, (ast.Gt, ast.GtE))) or (isinstance(rhs, ast.Constant) and rhs.value == 2 and isinstance(op, ast.GtE))
        ctx.decide('R16.9', f.qual, src(c), True if ok else (False if bad else None), c,
                   'a run ends at every step other than +1' if ok else
                   'a run of consecutive rows is only ended by a step LARGER than one: for a row list that is not strictly increasing (repeated, '
                   'descending, shuffled) rows r, r+1, ... are applied instead of the listed rows (errors 0.4 .. 1.3), and a bogus run can read '
                   'beyond indptr', definite=True)



def r16_10(ctx):
    """make_solver, dense LU branch: what is factorised and how the factorisation is applied are ONE decision.  If the transpose is
    factorised on some condition, lu_solve must use trans=1 under exactly that condition.  Two different tests (c_contiguous for the
    factorisation, f_contiguous for trans) disagree for arrays that are neither (strided views): inv(B.T) is applied instead of inv(B)."""
    f = ctx.prog.maybe_func('pyiga.operators.make_solver')
    if f is None:
        ctx.undecided('R16.10', 'pyiga.operators.make_solver', 'definition', None, 'not found')
        return
    facs = [c for c in ast.walk(f.node) if isinstance(c, ast.Call) and (call_name(c) or '').endswith('lu_factor') and c.args]
    sols = [c for c in ast.walk(f.node) if isinstance(c, ast.Call) and (call_name(c) or '').endswith('lu_solve')]
    if not facs or not sols:
        ctx.undecided('R16.10', f.qual, 'LU factorisation and its application', f.node, 'not recognised')
        return
    from sa import treecmp

    def cond_of(e, at):
        """(test, value-if-true, value-if-false) if e is (or resolves to) a conditional expression"""
        e2 = resolve.expand(e, at) if isinstance(e, ast.Name) else e
        if isinstance(e2, ast.IfExp):
            return e2
        return None
    for fc in facs:
        arg = fc.args[0]
        fcond = cond_of(arg, fc)
        for sc in sols:
            tr = kwarg(sc, 'trans')
            tcond = cond_of(tr, sc) if tr is not None else None
            plain_t = tr is None or (isinstance(tr, ast.Constant) and tr.value == 0)
            if fcond is None and plain_t:
                transposed = isinstance(arg, ast.Attribute) and arg.attr in ('T', 'H')
                ctx.decide('R16.10', f.qual, '%s / %s' % (src(fc)[:50], src(sc)[:50]), False if transposed else True, sc,
                           'the matrix itself is factorised and applied without transposition', definite=True)
            elif fcond is not None and tcond is not None:
                same = treecmp.compare(fcond.test, tcond.test)[0] == 'equal'
                neg = treecmp.compare(ast.UnaryOp(op=ast.Not(), operand=fcond.test), tcond.test)[0] == 'equal'
                if same or neg:
                    ctx.met('R16.10', f.qual, 'factorisation and trans= selected by one test: %s' % src(fcond.test)[:50], sc)
                else:
                    ctx.violated('R16.10', f.qual, 'lu_factor(%s) / trans=%s' % (src(arg)[:50], src(tcond)[:50]), sc,
                                 'which matrix is factorised is decided by `%s`, whether the transposed system is solved by `%s`: the two tests agree for '
                                 'C- and F-ordered arrays but not for a strided view (K[1:-1, 1:-1] is neither), for which lu_factor(B) is combined with '
                                 'trans=1 and the operator applies inv(B.T)' % (src(fcond.test)[:40], src(tcond.test)[:40]))
            else:
                ctx.undecided('R16.10', f.qual, '%s / %s' % (src(fc)[:50], src(sc)[:50]), sc, 'transposition handled in a form this rule does not read')


def run(ctx):
    r16_10(ctx)
    r16_9(ctx)
    r16_8(ctx)
    r16_7(ctx)
    r16_1(ctx)
    r16_2(ctx)
    r16_3(ctx)
    r16_4(ctx)
    r16_5(ctx)
    r16_6(ctx)

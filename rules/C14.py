"""C14 -- multipatch gluing is the equivalence closure of the joins (structural clauses)."""
import ast

from sa.program import src, own_nodes, call_name, parent, kwarg, AnchorMissing
from sa import guards, resolve

EXPLANATION = (
    "Static rules over pyiga/assemble.py (class Multipatch): (R14.1) union completeness of join_dofs: the pair loop is a union step, "
    "so its branches are classified by what they know about the membership of each side (case analysis over {shared, not shared}^2); "
    "the both-shared case must be distinguished and must merge the two classes (re-pointing every member), otherwise joins that "
    "close a cycle leave two classes for one geometric dof; (R14.2) gap-free numbering: numdofs = M_ofs[-1] + len(shared_dofs) "
    "requires finalize to drop classes emptied by merging and to renumber; (R14.3) the index array built from a dict's items keeps "
    "rank 2 and an integer dtype in the empty case; (R14.4) face/flip/accumulation conventions agree.  Membership of a side is a "
    "fact only when tested with `is not None` / `in`: class ids are list positions starting at 0, so a truth-value test of an id "
    "is reported.")
DOES_NOT_DECIDE = "geometric interface detection (numerical matching); equality of assembled systems"
TECHNIQUE = "custom AST rules: branch case analysis of a union step, def-use of class tables, rank/dtype of constructed index arrays, convention agreement"

A = 'pyiga.assemble'
MP = A + '.Multipatch'


def membership_side(test_node, fn):
    """If ``test_node`` is a membership fact about one side of the pair, return
    ('1'|'2', polarity_when_true).  Recognised forms:
        i1 in self.shared_per_patch[p1]
        sd1 is not None / sd1 is None      with  sd1 = self.shared_per_patch[p1].get(i1)
    """
    t = test_node
    if isinstance(t, ast.Compare) and len(t.ops) == 1:
        if isinstance(t.ops[0], (ast.In, ast.NotIn)) and 'shared_per_patch' in src(t.comparators[0]):
            side = side_of(src(t.left) + ' ' + src(t.comparators[0]))
            if side:
                return side, isinstance(t.ops[0], ast.In)
        if isinstance(t.ops[0], (ast.Is, ast.IsNot)) and isinstance(t.comparators[0], ast.Constant) and t.comparators[0].value is None \
                and isinstance(t.left, ast.Name):
            defs = [s for s in own_nodes(fn) if isinstance(s, ast.Assign) and src(s.targets[0]) == t.left.id]
            if defs and all('shared_per_patch' in src(d.value) and '.get(' in src(d.value) for d in defs):
                side = side_of(src(defs[0].value))
                if side:
                    return side, isinstance(t.ops[0], ast.IsNot)
    return None


def side_of(text):
    has1 = ('p1' in text) or ('i1' in text)
    has2 = ('p2' in text) or ('i2' in text)
    if has1 and not has2:
        return '1'
    if has2 and not has1:
        return '2'
    return None


TRUTHY_TESTS = []


def leaf_blocks(stmts, facts, fn, out):
    """Enumerate straight-line leaf blocks of nested if/elif/else with the membership facts known there."""
    plain = []
    for s in stmts:
        if isinstance(s, ast.If):
            pos, neg = dict(facts), dict(facts)
            lits_t = guards.literals(s.test, True)
            lits_f = guards.literals(s.test, False)
            for (_t, pol, node) in lits_t:
                m = membership_side(node, fn)
                if m:
                    pos[m[0]] = (m[1] == pol)
                elif isinstance(node, ast.Name):
                    # truth-value test of a looked-up class id: truthy implies "shared"; falsy implies nothing (id 0 is falsy)
                    defs = [d for d in own_nodes(fn) if isinstance(d, ast.Assign) and src(d.targets[0]) == node.id]
                    if defs and all('shared_per_patch' in src(d.value) and '.get(' in src(d.value) for d in defs):
                        side = side_of(src(defs[0].value))
                        if side:
                            TRUTHY_TESTS.append((node, side, s))
                            if pol:
                                pos[side] = True
            for (_t, pol, node) in lits_f:
                m = membership_side(node, fn)
                if m:
                    neg[m[0]] = (m[1] == pol)
            leaf_blocks(s.body, pos, fn, out)
            if s.orelse:
                leaf_blocks(s.orelse, neg, fn, out)
            else:
                out.append(([], neg, s))
        else:
            plain.append(s)
    if plain:
        out.append((plain, dict(facts), plain[0]))


def r14_1(ctx):
    fi = ctx.prog.func(MP + '.join_dofs')
    loops = [l for l in own_nodes(fi.node) if isinstance(l, ast.For) and 'zip(I1, I2)' in src(l.iter)]
    if not loops:
        raise AnchorMissing('R14.1: pair loop of join_dofs')
    loop = loops[0]
    blocks = []
    del TRUTHY_TESTS[:]
    # statements before the if-chain in the loop body define sd1/sd2; the chain itself:
    leaf_blocks([s for s in loop.body if isinstance(s, ast.If)], {}, fi.node, blocks)
    # class ids are positions in the list self.shared_dofs (first id 0): membership must be tested with `is not None`
    mpcls = ctx.prog.cls(MP)
    ids_from_len = any(isinstance(x, ast.Call) and call_name(x) == 'len' and x.args and src(x.args[0]) == 'self.shared_dofs'
                       for x in ast.walk(mpcls.node)) and \
        any(isinstance(x, ast.Call) and call_name(x) == 'self.shared_dofs.append' for x in ast.walk(mpcls.node))
    seen = set()
    for node, side, iff in TRUTHY_TESTS:
        if id(node) in seen:
            continue
        seen.add(id(node))
        ctx.decide('R14.1', fi.qual, 'membership of side %s tested by the truth value of the class id `%s`' % (side, node.id),
                   False if ids_from_len else None, node,
                   'class ids are indices into self.shared_dofs starting at 0, so class 0 is falsy: a pair whose one side belongs to class 0 and '
                   'whose other side belongs to another class is not merged but handled as an extension -- one member is moved, the rest of '
                   'its class still points to the old id', definite=True)
    ctx.floor('R14.1', 'branches of the union step', len(blocks), 3)
    cases = {(True, True): [], (True, False): [], (False, True): [], (False, False): []}
    for stmts, facts, node in blocks:
        for c in cases:
            if all(facts.get(k, c[i]) == c[i] for i, k in enumerate(('1', '2'))):
                cases[c].append((stmts, facts, node))
    for c, lst in cases.items():
        name = {True: 'shared', False: 'new'}
        label = 'case (side1 %s, side2 %s)' % (name[c[0]], name[c[1]])
        if not lst:
            ctx.violated('R14.1', fi.qual, label, loop, 'no branch handles this case')
            continue
        stmts, facts, node = lst[0]
        # a helper method the confirmed reference does not have (extracted from this function) is read as part of the branch
        from sa import alpha as _alpha
        extra = []
        for s_ in stmts:
            for c_ in ast.walk(s_):
                if isinstance(c_, ast.Call) and isinstance(c_.func, ast.Attribute) and isinstance(c_.func.value, ast.Name) and c_.func.value.id == 'self' \
                        and c_.func.attr in mpcls.methods and _alpha.is_new_function(mpcls.methods[c_.func.attr].qual):
                    extra.extend(mpcls.methods[c_.func.attr].node.body)
        stmts = list(stmts) + extra
        text = ' ; '.join(src(s) for s in stmts)
        if c == (True, True):
            distinguished = facts.get('1') is True and facts.get('2') is True
            merges = any(isinstance(x, ast.AugAssign) and 'shared_dofs' in src(x.target) and isinstance(x.op, ast.BitOr)
                         for s in stmts for x in ast.walk(s)) or 'shared_dofs' in text and ('.update(' in text or '|=' in text)
            repoints = any(isinstance(x, ast.Assign) and 'shared_per_patch' in src(x.targets[0]) for s in stmts for x in ast.walk(s))
            if not distinguished:
                ctx.violated('R14.1', fi.qual, label, node,
                             'the branch taken when both dofs are already shared only knows %s: it treats the pair like the one-sided '
                             'case, so two existing classes are never merged (join order (0,1),(2,3),(0,2),(1,3) of a 2x2 patch grid '
                             'leaves the cross point in two classes)' % {k: v for k, v in facts.items()})
            elif merges and repoints:
                ctx.met('R14.1', fi.qual, label, node, 'classes are united and the members of the absorbed class re-pointed')
            else:
                ctx.violated('R14.1', fi.qual, label, node, 'both-shared case is distinguished but does not merge (%s)' % text[:120])
        elif c == (False, False):
            ok = '_new_shared_dof' in text
            ctx.decide('R14.1', fi.qual, label, ok or None, node, 'a new class is created and both dofs added')
        else:
            ok = 'add_to_shared' in text
            ctx.decide('R14.1', fi.qual, label, ok or None, node, 'the new dof joins the existing class of the other side')
    # helper keeps both tables in sync
    h = ctx.prog.maybe_func(MP + '.join_dofs.<locals>.add_to_shared') or ctx.prog.maybe_func(MP + '._add_to_shared')
    if h is None:
        ctx.undecided('R14.1', fi.qual, 'helper that adds a dof to a class', fi.node, 'not found under a known name')
        return
    t = [src(s).replace(' ', '') for s in h.node.body if not (isinstance(s, ast.Expr) and isinstance(s.value, ast.Constant))]
    ok = 'self.shared_per_patch[p][i]=sd' in t and 'self.shared_dofs[sd].add((p,i))' in t
    ctx.decide('R14.1', h.qual, ' ; '.join(t), ok or None, h.node, 'dof -> class and class -> members are updated together')


def r14_2(ctx):
    jd = ctx.prog.func(MP + '.join_dofs')
    fin = ctx.prog.func(MP + '.finalize')
    nd = ctx.prog.func(MP + '.numdofs')
    r = src(guards.returns_of(nd.node)[-1].value).replace(' ', '')
    ctx.decide('R14.2', nd.qual, 'numdofs = ' + r, r == 'self.M_ofs[-1]+len(self.shared_dofs)' or None, nd.node, 'local dofs first, then one index per class')
    empties = [s for s in ast.walk(jd.node) if (isinstance(s, ast.Assign) and 'shared_dofs[' in src(s.targets[0]) and src(s.value) in ('set()', '[]', 'None'))
               or (isinstance(s, ast.Call) and isinstance(s.func, ast.Attribute) and s.func.attr == 'clear' and 'shared_dofs' in src(s.func.value))
               or (isinstance(s, ast.Delete) and 'shared_dofs' in src(s))]
    t = src(fin.node)
    compacts = ('self.shared_dofs = ' in t) or ('del self.shared_dofs' in t)
    if empties:
        ctx.decide('R14.2', fin.qual, 'finalize compacts shared_dofs after merges can empty classes', compacts, fin.node,
                   'an emptied class would be counted by len(shared_dofs): the numbering would have gaps')
        renum = 'shared_per_patch' in t and compacts
        ctx.decide('R14.2', fin.qual, 'finalize renumbers shared_per_patch with the compaction', renum, fin.node)
    else:
        ctx.met('R14.2', fin.qual, 'no statement empties a class, so every entry of shared_dofs is a live class', fin.node,
                'classes are only created non-empty and only grow', nontrivial=False)
    d = {src(s.targets[0]): src(s.value).replace(' ', '') for s in own_nodes(fin.node) if isinstance(s, ast.Assign) and len(s.targets) == 1}
    ok = d.get('self.M', '').replace('(n,s)', 'n,s') == '[n-sforn,sinzip(self.N,num_shared)]' and d.get('self.M_ofs') == 'np.concatenate(([0],np.cumsum(self.M)))' \
        and d.get('num_shared') == '[len(spp)forsppinself.shared_per_patch]'
    ctx.decide('R14.2', fin.qual, 'M = N - #shared per patch, offsets by cumulative sum', ok or None, fin.node)
    pg = ctx.prog.func(MP + '.patch_to_global_idx')
    t = src(pg.node).replace(' ', '')
    ok = 'tpdofs[local_dofs]=np.arange(m_ofs,m_ofs+local_dofs.shape[0])' in t and 'tpdofs[sdofs[:,0]]=self.M_ofs[-1]+sdofs[:,1]' in t
    ctx.decide('R14.2', pg.qual, 'local dofs -> [m_ofs, m_ofs+#local), shared dofs -> M_ofs[-1] + class', ok or None, pg.node)
    p2g = ctx.prog.func(MP + '.patch_to_global')
    t = src(p2g.node).replace(' ', '')
    ok = 'scipy.sparse.coo_matrix((np.ones(len(I)),(I,J)),shape=shape)' in t and 'I=self.patch_to_global_idx(p)' in t
    ctx.decide('R14.2', p2g.qual, 'one unit entry per local dof at (global index, local index)', ok or None, p2g.node)


def r14_3(ctx):
    pg = ctx.prog.func(MP + '.patch_to_global_idx')
    sd = [s for s in own_nodes(pg.node) if isinstance(s, ast.Assign) and src(s.targets[0]) == 'sdofs']
    if not sd:
        raise AnchorMissing('R14.3: sdofs')
    v = sd[0].value
    uses2d = [x for x in ast.walk(pg.node) if isinstance(x, ast.Subscript) and src(x.value) == 'sdofs' and isinstance(x.slice, ast.Tuple)]
    t = src(v).replace(' ', '')
    from_items = '.items()' in t
    keeps_rank = 'reshape(-1,2)' in t or 'ndmin=2' in t or 'np.empty((0,2)' in t or 'np.zeros((0,2)' in t
    int_dtype = 'dtype=int' in t or 'dtype=np.int' in t or 'astype(int' in t or 'np.intp' in t
    if uses2d and from_items and not keeps_rank:
        ctx.violated('R14.3', pg.qual, src(sd[0]), sd[0],
                     'np.array([]) of an empty item list has shape (0,): the column subscripts %s raise IndexError for a patch '
                     'without shared dofs' % sorted({src(x) for x in uses2d}))
    elif uses2d and from_items and keeps_rank and not int_dtype:
        ctx.violated('R14.3', pg.qual, src(sd[0]), sd[0], 'the empty array is float64 and cannot be used as an index array')
    elif uses2d and keeps_rank:
        ctx.met('R14.3', pg.qual, src(sd[0]), sd[0], 'rank 2 and integer dtype also for an empty dict')
    else:
        ctx.undecided('R14.3', pg.qual, src(sd[0]), sd[0], 'construction not recognised')


def r14_4(ctx):
    jb = ctx.prog.func(MP + '.join_boundaries')
    calls = [c for c in ast.walk(jb.node) if isinstance(c, ast.Call) and call_name(c) == 'boundary_dofs']
    ctx.floor('R14.4', 'boundary_dofs calls in join_boundaries', len(calls), 2)
    a = [src(c).replace(' ', '') for c in calls]
    ok = a == ['boundary_dofs(P1[0],bdspec1,ravel=True)', 'boundary_dofs(P2[0],bdspec2,ravel=True,flip=flip)']
    ctx.decide('R14.4', jb.qual, ' ; '.join(a), ok or None, jb.node, 'both faces raveled; only the second patch is flipped')
    j = [c for c in ast.walk(jb.node) if isinstance(c, ast.Call) and src(c.func) == 'self.join_dofs']
    ok = bool(j) and [src(x) for x in j[0].args] == ['p1', 'dofs1', 'p2', 'dofs2']
    ctx.decide('R14.4', jb.qual, src(j[0]) if j else 'join_dofs', ok or None, j[0] if j else jb.node)
    si = ctx.prog.func(A + '.slice_indices')
    t = src(si.node).replace(' ', '')
    ok = 'flip=flip[:ax]+(False,)+flip[ax:]' in t and 'axdofs[i]=reversed(axdofs[i])' in t
    ctx.decide('R14.4', si.qual, 'flip gets its trivial entry inserted at ax; flipped axes are traversed in reverse', ok or None, si.node)
    asys = ctx.prog.func(MP + '.assemble_system')
    t = src(asys.node).replace(' ', '')
    ok = 'X=self.patch_to_global(p)' in t and 'A+=X@A_p@X.T' in t and 'b+=X@b_p' in t
    ctx.decide('R14.4', asys.qual, 'A += X A_p X^T ; b += X b_p with one X per patch', ok or None, asys.node)
    init = ctx.prog.func(MP + '.__init__')
    t = src(init.node)
    ok = 'for intf in interfaces:' in t and 'self.join_boundaries(*intf)' in t and 'self.finalize()' in t
    ctx.decide('R14.4', init.qual, 'automatch: join every detected interface, then finalize', ok or None, init.node)
    di = ctx.prog.func(A + '.detect_interfaces')
    t = src(di.node).replace(' ', '')
    ok = 'interfaces.append((p1,bd1,p2,bd2,flip))' in t
    ctx.decide('R14.4', di.qual, 'interfaces are (p1, bd1, p2, bd2, flip) = argument order of join_boundaries', ok or None, di.node)
    fm = ctx.prog.func(A + '._find_matching_boundaries')
    t = src(fm.node).replace(' ', '')
    ok = 'all_bds=list(itertools.product(range(G1.sdim),(0,1)))' in t and 'matches.append((bdspec1,bdspec2,flip))' in t
    ctx.decide('R14.4', fm.qual, 'all 2*sdim faces of both patches are compared', ok or None, fm.node)
    cg = ctx.prog.func(A + '._check_geo_match')
    t = src(cg.node).replace(' ', '')
    ok = 'itertools.product(*G2.sdim*[(False,True)])' in t
    ctx.decide('R14.4', cg.qual, 'all 2^d flips are tried', ok or None, cg.node)
    # each candidate flip is applied to the UNFLIPPED sample grid: the list that is flipped in place must be created
    # inside the loop over the candidates (a list created once before the loop accumulates the flips of earlier
    # candidates, so the grid no longer corresponds to the flip that is reported)
    fl = [l for l in own_nodes(cg.node) if isinstance(l, ast.For) and 'flip' in src(l.target)]
    outer = [l for l in fl if guards.in_loop(l, cg.node) is None]
    if not outer:
        ctx.undecided('R14.4', cg.qual, 'each candidate flip starts from the unflipped grid', cg.node, 'loop over the flips not recognised')
    else:
        lp = outer[0]
        stores = [s for s in ast.walk(lp) if isinstance(s, ast.Assign) and isinstance(s.targets[0], ast.Subscript) and isinstance(s.targets[0].value, ast.Name)
                  and s.targets[0].value.id in {n.id for n in ast.walk(s.value) if isinstance(n, ast.Name)}]
        if not stores:
            ctx.met('R14.4', cg.qual, 'each candidate flip starts from the unflipped grid', lp, 'no in-place update of a grid list', nontrivial=False)
        for st in stores[:1]:
            name = st.targets[0].value.id
            fresh = [s for s in lp.body if isinstance(s, ast.Assign) and any(isinstance(t, ast.Name) and t.id == name for t in s.targets)]
            before = [s for s in own_nodes(cg.node) if isinstance(s, ast.Assign) and any(isinstance(t, ast.Name) and t.id == name for t in s.targets)
                      and s.lineno < lp.lineno]
            if fresh and fresh[0].lineno < st.lineno:
                ctx.met('R14.4', cg.qual, 'each candidate flip starts from the unflipped grid', fresh[0], '`%s` inside the loop' % src(fresh[0]))
            elif before:
                ctx.violated('R14.4', cg.qual, 'each candidate flip starts from the unflipped grid', st,
                             '`%s` is created once before the loop (`%s`) and flipped in place inside it: the flips of earlier candidates accumulate, so '
                             'from the third candidate on the grid differs from the flip that is tested and reported (3D patches: wrong or missed '
                             'interfaces)' % (name, src(before[-1])))
            else:
                ctx.undecided('R14.4', cg.qual, 'each candidate flip starts from the unflipped grid', st, 'origin of %s not recognised' % name)


def r14_5(ctx):
    """slice_indices widens the flip tuple of a face (one flag per tangential axis) to one flag per axis of the patch by
    inserting False AT POSITION ax.  The expression that feeds the flip loop is evaluated for a face of a 3D patch
    (flip = (F0, F1), ax = 0, 1, 2) and of a 2D patch (flip = (F0,), ax = 0, 1)."""
    from sa import resolve
    f = ctx.prog.func(A + '.slice_indices')
    loops = [l for l in ast.walk(f.node) if isinstance(l, ast.For) and isinstance(l.iter, ast.Call) and call_name(l.iter) == 'enumerate'
             and l.iter.args and any(isinstance(x, ast.Name) and 'flip' in x.id.lower() for x in ast.walk(l.iter.args[0]))]
    if not loops:
        # a filtering generator: for i in (k for k, flp in enumerate(X) if flp)
        loops = [g for g in ast.walk(f.node) if isinstance(g, ast.comprehension) and isinstance(g.iter, ast.Call) and call_name(g.iter) == 'enumerate'
                 and g.iter.args and any(isinstance(x, ast.Name) and 'flip' in x.id.lower() for x in ast.walk(g.iter.args[0]))]
    if not loops:
        ctx.undecided('R14.5', f.qual, 'flip loop', f.node, 'loop over the widened flip tuple not recognised')
        return
    it = loops[0].iter.args[0]
    at = loops[0] if isinstance(loops[0], ast.stmt) else resolve.stmt_of(loops[0].iter)
    e = it
    # the straight-line assignments before the loop (same block, closest last) are executed symbolically
    pre = [s_ for s_, _b in resolve._predecessors(at)][::-1]
    verdict, detail = True, []
    for flip in (('F0', 'F1'), ('F0',)):
        for ax in range(len(flip) + 1):
            want = flip[:ax] + (False,) + flip[ax:]
            try:
                env = {'flip': flip, 'ax': ax}
                for s_ in pre:
                    if isinstance(s_, ast.Assign) and len(s_.targets) == 1 and isinstance(s_.targets[0], ast.Name):
                        try:
                            env[s_.targets[0].id] = guards.eval_expr(s_.value, env)
                        except Exception:
                            env.pop(s_.targets[0].id, None) if s_.targets[0].id not in ('flip', 'ax') else None
                got = guards.eval_expr(e, env)
            except Exception:
                verdict = None if verdict else verdict
                detail.append('ax=%d: ?' % ax)
                continue
            if tuple(got) != want:
                verdict = False
                detail.append('flip=%s ax=%d: %s' % (flip, ax, tuple(got)))
    ctx.decide('R14.5', f.qual, 'widened flip = ' + src(e)[:80] + (' [' + '; '.join(detail[:3]) + ']' if detail else ''), verdict, at,
               'False is inserted at the position of the face axis' if verdict else
               'the flag of the face axis is not inserted at position ax for every axis: the tangential flips are attached to the wrong axes, '
               'so the two faces of an interface are paired in the wrong orientation (3D interface across the middle axis)', definite=True)


def r14_6(ctx):
    """Multipatch.join_boundaries hands EVERY declared interface to join_dofs: there is no exit before that call (an "already
    joined" shortcut that looks at part of the interface -- its end vertices -- skips interior dofs whenever the vertices were
    identified through other patches first)."""
    f = ctx.prog.func(A + '.Multipatch.join_boundaries')
    calls = [c for c in ast.walk(f.node) if isinstance(c, ast.Call) and isinstance(c.func, ast.Attribute) and c.func.attr == 'join_dofs']
    if not calls:
        ctx.undecided('R14.6', f.qual, 'call of join_dofs', f.node, 'not found')
        return
    st = resolve.stmt_of(calls[0])
    early = [r for r in ast.walk(f.node) if isinstance(r, ast.Return) and r.lineno < st.lineno]
    cond = guards.path_conditions(st)
    if early:
        facts = ' and '.join(('' if p_ else 'not ') + t for (t, p_, _n) in guards.path_conditions(early[0])) or 'always'
        ctx.violated('R14.6', f.qual, 'return before %s (taken when %s)' % (src(calls[0])[:50], facts[:120]), early[0],
                     'an interface can be dropped without its dofs being identified: the gluing is no longer the equivalence closure of the declared '
                     'joins (3x2 block, middle interface declared last: 72 dofs instead of 70)')
    elif cond:
        ctx.undecided('R14.6', f.qual, src(calls[0])[:70] + ' is conditional', st, 'join performed only under ' + cond[0][0][:80])
    else:
        ctx.met('R14.6', f.qual, src(calls[0])[:70], st, 'every declared interface reaches join_dofs')


def run(ctx):
    r14_6(ctx)
    r14_5(ctx)
    r14_1(ctx)
    r14_2(ctx)
    r14_3(ctx)
    r14_4(ctx)

"""C20 -- the on-disk compile cache survives crashes and concurrency (structural clauses)."""
import ast

from sa.program import src, own_nodes, call_name, parent, kwarg, AnchorMissing
from sa import guards

EXPLANATION = (
    "Publication typestate over pyiga/compile.py: every path value in the build routine is classified TEMP (derived from "
    "tempfile.mkdtemp/TemporaryDirectory), PUBLISHED (the module cache directory MODDIR, which is on sys.path, or a path joined "
    "under it) or other. (R20.1) no in-place writer -- open(..., 'w'), the .pyx handed to cythonize (which writes the .c next to "
    "it), build_ext's build_temp/build_lib -- may target a PUBLISHED location; the only writer allowed to target it is an atomic "
    "os.replace/os.rename; (R20.2) the three build locations derive from one per-build unique directory; (R20.3) the publishing "
    "call follows the completion of build_extension.run() and precedes the import, the scratch directory is removed on every exit; "
    "(R20.4) the published name is a digest of the generated source (shared with C13); (R20.5) MODDIR is created and put on "
    "sys.path before any import, and a failed import falls through to a rebuild.  These are the necessary conditions for 'no "
    "partial file is ever visible under an importable name; no two builders share scratch files'.  R20.3 also requires the "
    "publication to be unconditional once the build succeeded (the routine runs only after importing the cached entry failed, so "
    "an existing unloadable entry must be replaced).")
DOES_NOT_DECIDE = ("what the dynamic loader does with a pre-existing corrupt file, kill timing, compiler/linker atomicity inside the scratch "
                   "directory, file-system semantics of rename")
TECHNIQUE = "custom AST typestate: TEMP / PUBLISHED path provenance, classification of writers as in-place or atomic, statement ordering"

CP = 'pyiga.compile'
TEMP_SOURCES = ('tempfile.mkdtemp', 'tempfile.TemporaryDirectory', 'tempfile.mkstemp')
ATOMIC = ('os.replace', 'os.rename')


class PathState:
    def __init__(self, fn, published_names=('MODDIR',)):
        self.fn = fn
        self.env = {n: 'PUBLISHED' for n in published_names}
        for s in own_nodes(fn):
            targets = []
            if isinstance(s, ast.Assign) and len(s.targets) == 1 and isinstance(s.targets[0], ast.Name):
                targets = [(s.targets[0].id, s.value)]
            elif isinstance(s, ast.With):
                for it in s.items:
                    if isinstance(it.optional_vars, ast.Name):
                        targets.append((it.optional_vars.id, it.context_expr))
            elif isinstance(s, ast.For) and isinstance(s.target, ast.Name):
                targets = [(s.target.id, s.iter)]
            for name, v in targets:
                st = self.state(v)
                if st:
                    self.env[name] = st

    def state(self, e):
        if isinstance(e, ast.Name):
            return self.env.get(e.id)
        if isinstance(e, ast.Call):
            n = call_name(e)
            if n in TEMP_SOURCES:
                return 'TEMP'
            if n == 'os.path.join' and e.args:
                return self.state(e.args[0])
            if n in ('os.path.abspath', 'os.path.normpath', 'str') and e.args:
                return self.state(e.args[0])
            if n and n.endswith('.get_outputs'):
                # outputs of build_ext live under build_lib
                return self.env.get('__build_lib__')
        if isinstance(e, ast.BinOp) and isinstance(e.op, ast.Add):
            return self.state(e.left)
        if isinstance(e, ast.Attribute) and e.attr == 'name':
            return self.state(e.value)
        return None


def _delegated(ctx, fn, names):
    """name of a helper of compile.py that the confirmed reference does not have, that is called from fn and that contains one
    of the calls `names` (the step was moved out of the build routine, e.g. into a context manager)"""
    from sa import alpha as _alpha
    called = {(c.func.attr if isinstance(c.func, ast.Attribute) else getattr(c.func, 'id', None)) for c in ast.walk(fn) if isinstance(c, ast.Call)}
    for f_ in ctx.prog.funcs_in(CP, include_nested=True):
        if f_.name in called and _alpha.is_new_function(f_.qual) and any(isinstance(c, ast.Call) and call_name(c) in names for c in ast.walk(f_.node)):
            return f_.name
    return None


def r20(ctx):
    nc = ctx.prog.func(CP + '._compile_cython_module_nocache')
    fn = nc.node
    ps = PathState(fn)
    # build_ext locations
    locs = {}
    for s in own_nodes(fn):
        if isinstance(s, ast.Assign) and len(s.targets) == 1 and isinstance(s.targets[0], ast.Attribute) and s.targets[0].attr in ('build_temp', 'build_lib'):
            locs[s.targets[0].attr] = (s, ps.state(s.value))
            if s.targets[0].attr == 'build_lib':
                ps.env['__build_lib__'] = ps.state(s.value)
    # re-run states that depend on build_lib (get_outputs)
    ps2 = PathState(fn)
    ps2.env['__build_lib__'] = ps.env.get('__build_lib__')
    for s in own_nodes(fn):
        if isinstance(s, ast.For) and isinstance(s.target, ast.Name):
            st = ps2.state(s.iter)
            if st:
                ps2.env[s.target.id] = st
    ps = ps2
    if 'build_lib' not in locs or 'build_temp' not in locs:
        raise AnchorMissing('R20: build_temp/build_lib assignments not found')
    writers = []
    for attr, (s, st) in sorted(locs.items()):
        writers.append(('build_ext.' + attr, s, st, src(s.value)))
    # open(path, 'w')
    for c in ast.walk(fn):
        if isinstance(c, ast.Call) and call_name(c) == 'open' and len(c.args) >= 2 and isinstance(c.args[1], ast.Constant) \
                and any(m in str(c.args[1].value) for m in ('w', 'a', '+')):
            writers.append(('open(%s, %r)' % (src(c.args[0]), c.args[1].value), c, ps.state(c.args[0]), src(c.args[0])))
    # sources of the Extension: cythonize writes <source>.c next to the source
    for c in ast.walk(fn):
        if isinstance(c, ast.Call) and call_name(c) == 'Extension':
            srcs = kwarg(c, 'sources', 1)
            if isinstance(srcs, (ast.List, ast.Tuple)):
                for e in srcs.elts:
                    writers.append(('cythonize output next to ' + src(e), c, ps.state(e), src(e)))
    ctx.floor('R20.1', 'in-place writers in the build routine', len(writers), 4)
    temps = set()
    for what, node, st, expr in writers:
        if st == 'TEMP':
            ctx.met('R20.1', nc.qual, what, node, 'writes into a private temporary directory')
        elif st == 'PUBLISHED':
            ctx.violated('R20.1', nc.qual, what, node,
                         'in-place writer targets the module cache directory (on sys.path): a crash or a concurrent builder leaves a partial '
                         'file under the name that import_module()/cythonize will pick up next time')
        else:
            ctx.undecided('R20.1', nc.qual, what, node, 'provenance of %s unknown' % expr)
    # R20.2 one unique directory
    mk = [s for s in own_nodes(fn) if isinstance(s, ast.Assign) and isinstance(s.value, ast.Call) and call_name(s.value) in TEMP_SOURCES]
    mk += [it.context_expr for s in own_nodes(fn) if isinstance(s, ast.With) for it in s.items
           if isinstance(it.context_expr, ast.Call) and call_name(it.context_expr) in TEMP_SOURCES]
    if mk:
        roots = set()
        for what, node, st, expr in writers:
            e = node.value if isinstance(node, ast.Assign) else None
            roots.add(root_name(expr))
        ctx.decide('R20.2', nc.qual, 'build_temp, build_lib, .pyx all under %s' % sorted(roots), len(roots) == 1 and all(st == 'TEMP' for _w, _n, st, _e in writers),
                   fn, 'one per-build unique directory: two builders never share scratch files')
        call = mk[0].value if isinstance(mk[0], ast.Assign) else mk[0]
        d = kwarg(call, 'dir')
        ctx.decide('R20.2', nc.qual, src(call), d is not None and ps.state(d) == 'PUBLISHED' or None, call,
                   'scratch directory on the same file system as the cache directory, so that os.replace is a rename')
    elif _delegated(ctx, fn, TEMP_SOURCES):
        ctx.undecided('R20.2', nc.qual, 'scratch directory created by the helper %s' % _delegated(ctx, fn, TEMP_SOURCES), fn,
                      'the creation of the scratch directory was moved into a helper: not followed')
    else:
        ctx.violated('R20.2', nc.qual, 'no temporary directory is created', fn,
                     'build_temp, build_lib and the .pyx live in shared locations: concurrent builders of the same form overwrite each other\'s files')
    # R20.3 publish atomically after run(), import after publish, cleanup
    stmts = list(own_nodes(fn))
    run = [s for s in stmts if isinstance(s, ast.Expr) and isinstance(s.value, ast.Call) and src(s.value.func).endswith('.run') and 'build_extension' in src(s.value.func)]
    pub = [c for c in ast.walk(fn) if isinstance(c, ast.Call) and call_name(c) in ATOMIC]
    imp = [c for c in ast.walk(fn) if isinstance(c, ast.Call) and call_name(c) == 'importlib.import_module']
    if not run or not imp:
        raise AnchorMissing('R20.3: build_extension.run() / import_module')
    if all(st == 'PUBLISHED' for _w, _n, st, _e in writers if _w.startswith('build_ext.build_lib')):
        ctx.violated('R20.3', nc.qual, 'no atomic publication step', run[0], 'the linker writes the shared object directly under its importable name')
    elif not pub and _delegated(ctx, fn, ATOMIC):
        ctx.undecided('R20.3', nc.qual, 'publication by the helper %s' % _delegated(ctx, fn, ATOMIC), run[0],
                      'the publication step was moved into a helper: not followed')
    elif not pub:
        ctx.violated('R20.3', nc.qual, 'built module is never moved into the cache directory', run[0], 'import_module would not find it')
    else:
        for c in pub:
            dst_state = ps.state(c.args[1]) if len(c.args) > 1 else None
            src_state = ps.state(c.args[0]) if c.args else None
            ctx.decide('R20.3', nc.qual, src(c), dst_state == 'PUBLISHED' and src_state == 'TEMP' or None, c,
                       'atomic rename from the private directory (%s) into the cache directory (%s)' % (src_state, dst_state))
            ctx.decide('R20.3', nc.qual, 'publication after build_extension.run()', c.lineno > run[0].lineno, c, 'only a finished module is published')
            ctx.decide('R20.3', nc.qual, 'import after publication', imp[0].lineno > c.lineno, imp[0])
            # the build routine is entered only after importing the cached entry FAILED (missing or unloadable), so the
            # publication must replace whatever is there: it may not depend on the target being absent
            conds = guards.path_conditions(c, stop=fn)
            fs_tests = [nd for (_t, _p, nd) in conds if any(isinstance(x, ast.Call) and (call_name(x) or '') in
                        ('os.path.exists', 'os.path.isfile', 'os.path.lexists', 'os.access', 'os.path.getsize') for x in ast.walk(nd))]
            if not conds:
                ctx.met('R20.3', nc.qual, 'publication is unconditional once the build succeeded', c,
                        'an unloadable cache entry (truncated by a crash) is overwritten by the rebuilt module')
            elif fs_tests:
                ctx.violated('R20.3', nc.qual, 'publication is unconditional once the build succeeded', c,
                             'the rename is skipped depending on the file system state (`%s`): this routine runs only after importing the cached '
                             'entry failed, so an existing but unloadable entry is never repaired and every later request fails again'
                             % src(fs_tests[0])[:80])
            else:
                ctx.undecided('R20.3', nc.qual, 'publication is unconditional once the build succeeded', c,
                              'guarded by %s' % ' and '.join(t for (t, _p, _n) in conds)[:100])
        # cleanup in finally
        tries = [s for s in stmts if isinstance(s, ast.Try) and s.finalbody]
        ok = any(any(isinstance(c, ast.Call) and call_name(c) in ('shutil.rmtree',) for c in ast.walk(ast.Module(t.finalbody, []))) for t in tries) \
            or any(isinstance(s, ast.With) and any(call_name(it.context_expr) == 'tempfile.TemporaryDirectory' for it in s.items if isinstance(it.context_expr, ast.Call)) for s in stmts)
        ctx.decide('R20.3', nc.qual, 'scratch directory removed on every exit (finally / context manager)', ok, fn, 'a failed or interrupted build leaves nothing behind in the cache directory')
        inv = [c for c in ast.walk(fn) if isinstance(c, ast.Call) and call_name(c) == 'importlib.invalidate_caches']
        ctx.decide('R20.3', nc.qual, 'importlib.invalidate_caches() before the import', bool(inv) and inv[0].lineno < imp[0].lineno, imp[0],
                   'the directory listing cached by the failed first import must not hide the new file')
    # R20.4
    import rules.C13 as c13
    before = len(ctx.obligations)
    c13.r13_4(ctx)
    for o in ctx.obligations[before:]:
        o.rule = 'R20.4'
    # R20.5
    cm = ctx.prog.func(CP + '.compile_cython_module')
    t = src(cm.node)
    body = [src(s).split('\n')[0] for s in cm.node.body]
    i_mk = [i for i, s in enumerate(body) if s.startswith('os.makedirs(MODDIR')]
    i_try = [i for i, s in enumerate(cm.node.body) if isinstance(s, ast.Try)]
    ok = bool(i_mk and i_try) and i_mk[0] < i_try[0] and 'exist_ok=True' in body[i_mk[0]]
    ctx.decide('R20.5', cm.qual, 'os.makedirs(MODDIR, exist_ok=True) before the import attempt', ok, cm.node, 'concurrent first use must not fail on the directory')
    # every creation of a directory with a fixed (shared) name tolerates that another process created it a moment ago: exist_ok=True
    # or an enclosing try that catches FileExistsError / OSError -- an os.path.exists() test before the call does not (check-then-act)
    for fi in ctx.prog.funcs_in(CP, include_nested=True):
        for c in ast.walk(fi.node):
            if not (isinstance(c, ast.Call) and (call_name(c) or '') in ('os.makedirs', 'os.mkdir')):
                continue
            eo = kwarg(c, 'exist_ok', 2)
            tolerant = eo is not None and src(eo) == 'True'
            p_ = parent(c)
            while p_ is not None and p_ is not fi.node and not tolerant:
                if isinstance(p_, ast.Try):
                    for h in p_.handlers:
                        names = {src(x) for x in (h.type.elts if isinstance(h.type, ast.Tuple) else [h.type])} if h.type is not None else {'*'}
                        if names & {'*', 'FileExistsError', 'OSError', 'Exception', 'BaseException', 'EnvironmentError', 'IOError'}:
                            tolerant = True
                p_ = parent(p_)
            ctx.decide('R20.5', fi.qual, src(c), tolerant, c,
                       'creation of a shared directory tolerates a concurrent creator' if tolerant else
                       'two processes that both find the directory missing (cold cache) both call %s; the second one fails with '
                       'FileExistsError and its compile_vform request raises instead of returning an assembler' % (call_name(c)), definite=True)
    ok = 'sys.path.append(MODDIR)' in t
    ctx.decide('R20.5', cm.qual, 'MODDIR on sys.path', ok, cm.node)
    tr = cm.node.body[i_try[0]] if i_try else None
    if tr is not None:
        h = tr.handlers
        rebuilds = bool(h) and any('_compile_cython_module_nocache' in src(s) for s in h[0].body)
        caught = set()
        if h and h[0].type is not None:
            caught = {src(x) for x in (h[0].type.elts if isinstance(h[0].type, ast.Tuple) else [h[0].type])}
        # the dynamic loader reports an existing but unloadable file (truncated, empty, wrong format) as a plain ImportError;
        # ModuleNotFoundError is the subclass for "no such module" only
        covers = (not h) is False and (h[0].type is None or bool(caught & {'ImportError', 'Exception', 'BaseException'}))
        narrow = bool(caught) and caught <= {'ModuleNotFoundError', 'FileNotFoundError'}
        ctx.decide('R20.5', cm.qual, 'except %s: rebuild' % (src(h[0].type) if h and h[0].type is not None else '?'),
                   True if (rebuilds and covers) else (False if (narrow or not rebuilds) else None), tr,
                   'a missing or unloadable module is rebuilt instead of failing' if (rebuilds and covers) else
                   'the rebuild is reached only for %s; an existing but unloadable cache entry (left by a crash) raises a plain ImportError, which '
                   'now propagates: the form can never be compiled again until the cache is cleared by hand' % sorted(caught), definite=True)
    md = [s for s in ctx.prog.unit(CP).tree.body if isinstance(s, ast.Assign) and src(s.targets[0]) == 'MODDIR']
    ok = bool(md) and 'platformdirs.user_cache_dir' in src(md[0].value)
    ctx.decide('R20.5', CP + '.MODDIR', src(md[0]) if md else 'MODDIR', ok or None, md[0] if md else cm.node, 'per-user cache directory')


def root_name(expr_src):
    import re
    m = re.match(r'^(?:os\.path\.join\()?(\w+)', expr_src)
    name = m.group(1) if m else expr_src
    return {'modfile': 'builddir'}.get(name, name) if name == 'modfile' else name


REMOVERS = ('shutil.rmtree', 'os.remove', 'os.unlink', 'os.rmdir', 'os.removedirs')
MAKERS = ('os.makedirs', 'os.mkdir')


def r20_6(ctx):
    """Ownership inside the shared cache directory, over all of compile.py:
    (a) a process removes only what it created itself (paths derived from its own mkdtemp result) -- never paths found by
        listing / globbing the cache directory, which may be the scratch area of a build that is running right now;
    (b) nothing that the import system can load as the module is created under the cache directory before the finished
        extension is published: a directory MODDIR/<modname> is a namespace package, importing it succeeds with an empty
        module and the request never reaches the rebuild."""
    unit = ctx.prog.unit(CP)
    n_rm = n_mk = 0
    # the build path: compile_cython_module and what it (transitively) calls inside compile.py -- a maintenance function that
    # empties the cache on purpose is not part of it
    allf = {f.name: f for f in ctx.prog.funcs_in(CP, include_nested=True)}
    on_path, todo = set(), ['compile_cython_module', '_compile_cython_module_nocache']
    while todo:
        nm = todo.pop()
        if nm in on_path or nm not in allf:
            continue
        on_path.add(nm)
        for c in ast.walk(allf[nm].node):
            if isinstance(c, ast.Call):
                last = (call_name(c) or '').split('.')[-1]
                if last in allf:
                    todo.append(last)
    for fi in [f for f in ctx.prog.funcs_in(CP, include_nested=True) if f.name in on_path or (f.outer is not None)]:
        ps = PathState(fi.node)
        # names bound by iterating a listing of the cache directory
        listed = set()
        for s in own_nodes(fi.node):
            it = tgt = None
            if isinstance(s, ast.For):
                it, tgt = s.iter, s.target
            elif isinstance(s, ast.Assign) and len(s.targets) == 1:
                it, tgt = s.value, s.targets[0]
            if it is None:
                continue
            if any(isinstance(c, ast.Call) and (call_name(c) or '') in ('glob.glob', 'glob.iglob', 'os.listdir', 'os.scandir', 'os.walk') for c in ast.walk(it)):
                for nm in ast.walk(tgt):
                    if isinstance(nm, ast.Name):
                        listed.add(nm.id)
        for c in own_nodes(fi.node):
            if not isinstance(c, ast.Call):
                continue
            nm = call_name(c) or ''
            if nm in REMOVERS and c.args:
                n_rm += 1
                st = ps.state(c.args[0])
                names = {x.id for x in ast.walk(c.args[0]) if isinstance(x, ast.Name)}
                if st == 'TEMP':
                    ctx.met('R20.6', fi.qual, src(c)[:90], c, 'removes the scratch directory this process created')
                elif names & listed:
                    ctx.violated('R20.6', fi.qual, src(c)[:90], c,
                                 'removes a path obtained by listing the shared cache directory: it may be the scratch directory of another process that '
                                 'is compiling the same form right now (its compiler then fails with a missing file)')
                elif st == 'PUBLISHED':
                    ctx.undecided('R20.6', fi.qual, src(c)[:90], c, 'removes a path inside the cache directory that this process did not create')
                else:
                    ctx.undecided('R20.6', fi.qual, src(c)[:90], c, 'provenance of the removed path unknown')
            if nm in MAKERS + TEMP_SOURCES and (c.args or c.keywords):
                # a directory whose name is exactly the module name, directly under the cache directory
                target = c.args[0] if (nm in MAKERS and c.args) else kwarg(c, 'dir')
                if target is None:
                    continue
                n_mk += 1
                t = target
                # resolve a local
                if isinstance(t, ast.Name):
                    defs = [s for s in own_nodes(fi.node) if isinstance(s, ast.Assign) and len(s.targets) == 1 and src(s.targets[0]) == t.id]
                    if len(defs) == 1:
                        t = defs[0].value
                shadow = isinstance(t, ast.Call) and call_name(t) == 'os.path.join' and len(t.args) == 2 and ps.state(t.args[0]) == 'PUBLISHED' \
                    and isinstance(t.args[1], ast.Name) and t.args[1].id in ('modname', 'name', 'module_name')
                if shadow:
                    ctx.violated('R20.6', fi.qual, src(c)[:90], c,
                                 'creates the directory %s inside the cache directory (which is on sys.path): a directory named like the module is a '
                                 'namespace package, so after a crash that leaves it behind `import %s` succeeds with an empty module and the form is '
                                 'never rebuilt' % (src(t), src(t.args[1])))
                else:
                    ctx.met('R20.6', fi.qual, src(c)[:90], c, 'does not create an importable name for the module')
    ctx.floor('R20.6', 'removal sites in compile.py', n_rm, 1)
    ctx.floor('R20.6', 'directory creation sites in compile.py', n_mk, 1)


def r20_7(ctx):
    """(a) Publication happens on the SUCCESS path only: every os.replace / os.rename / shutil.move / copy into the cache directory
    is a statement of the try BODY (after the build ran), never of a `finally` block or an exception handler -- a build whose
    linker was killed leaves a partial .so in the scratch directory, and publishing from the clean-up code installs it under the
    final name (loading a truncated .so kills the interpreter with SIGBUS on every later request).
    (b) No request WAITS for files of other processes without a bound: a `while` loop whose condition looks at the file system
    (glob / exists / listdir / isdir) and whose body only sleeps can wait forever for the scratch directory of a process that was
    SIGKILLed (its finally block never ran)."""
    n = 0
    for fi in ctx.prog.funcs_in(CP, include_nested=True):
        for c in ast.walk(fi.node):
            if not isinstance(c, ast.Call):
                continue
            nm = call_name(c) or ''
            if nm in ('os.replace', 'os.rename', 'shutil.move', 'shutil.copy', 'shutil.copyfile', 'shutil.copy2', 'os.link'):
                n += 1
                q, child, where = parent(c), c, None
                while q is not None and q is not fi.node:
                    if isinstance(q, ast.Try):
                        if any(child is s_ or child in ast.walk(s_) for s_ in q.finalbody):
                            where = 'finally'
                        elif any(child is h or child in ast.walk(h) for h in q.handlers):
                            where = 'except'
                        if where:
                            break
                    q = parent(q)
                if where:
                    ctx.violated('R20.7', fi.qual, '%s in a `%s` block' % (src(c)[:70], where), c,
                                 'files are moved into the cache directory from clean-up code, i.e. also when the build FAILED: a linker killed after '
                                 'writing part of its output leaves a partial .so that is then published under the final name; importing a truncated '
                                 'shared object does not raise ImportError, it kills the interpreter (SIGBUS) on every later request for that form')
                else:
                    ctx.met('R20.7', fi.qual, src(c)[:80], c, 'publication on the success path')
        for w in [x for x in ast.walk(fi.node) if isinstance(x, ast.While)]:
            probes = [c for c in ast.walk(w.test) if isinstance(c, ast.Call) and (call_name(c) or '').split('.')[-1] in ('glob', 'iglob', 'exists', 'isdir', 'isfile', 'listdir', 'scandir')]
            if not probes:
                continue
            bounded = any(isinstance(x, (ast.Break, ast.Return, ast.Raise)) for x in ast.walk(ast.Module(w.body, [])))
            ctx.decide('R20.7', fi.qual, 'while %s' % src(w.test)[:80], True if bounded else False, w,
                       'bounded wait' if bounded else
                       'the request waits as long as files matching the probe exist: the scratch directory of a build that was SIGKILLed is never '
                       'removed (its finally block did not run), so every later request for that form hangs forever', definite=True)
    ctx.floor('R20.7', 'publication sites in compile.py', n, 1)



def r20_8(ctx):
    """One build per scratch directory: the extension build is not re-run in an exception handler (a retry).  distutils starts with a
    timestamp check; if the first attempt died after the linker wrote part of its output, the retry finds an up-to-date file, skips the
    build and returns normally -- the half-written .so is then published atomically under its final name."""
    f = ctx.prog.maybe_func('pyiga.compile._compile_cython_module_nocache')
    if f is None:
        ctx.undecided('R20.8', 'pyiga.compile._compile_cython_module_nocache', 'definition', None, 'not found')
        return
    BUILD = ('run', 'build_extensions', 'build_extension')
    calls = [c for c in ast.walk(f.node) if isinstance(c, ast.Call) and isinstance(c.func, ast.Attribute) and c.func.attr in BUILD
             and 'build' in src(c.func.value)]
    if not calls:
        ctx.undecided('R20.8', f.qual, 'build call', f.node, 'not recognised')
        return
    handlers = [h for t in ast.walk(f.node) if isinstance(t, ast.Try) for h in t.handlers]
    for c in calls:
        inside = [h for h in handlers if any(x is c for x in ast.walk(h))]
        looped = guards.in_loop(c, f.node) is not None
        if inside:
            ctx.violated('R20.8', f.qual, '%s in `except %s`' % (src(c)[:60], src(inside[0].type) if inside[0].type is not None else ''), c,
                         'the build is repeated in the SAME scratch directory after a failed attempt: a partially written output of the killed '
                         'linker is newer than its sources, the retry skips it as up to date and the truncated .so is published')
        elif looped:
            ctx.undecided('R20.8', f.qual, src(c)[:60] + ' inside a loop', c, 'a repeated build needs a fresh scratch directory per attempt')
        else:
            ctx.met('R20.8', f.qual, src(c)[:60], c, 'a single build attempt per scratch directory')


def run(ctx):
    r20_8(ctx)
    r20(ctx)
    r20_6(ctx)
    r20_7(ctx)

"""C02 -- B-spline basis evaluation (structural clauses)."""
import ast

from sa.program import src, own_nodes, call_name, parent, kwarg, AnchorMissing
from sa import guards, affine, bounds
from sa.affine import Lin

EXPLANATION = (
    "Static rules over pyiga/bspline_cy.pyx and bspline.py: (R02.1) in the unchecked (boundscheck off) kernel "
    "bspline_active_deriv_single every subscript of the fixed [64] stack buffers, of the (p+1)x(p+1) table, of the result and of "
    "the knot array is proved in range from loop ranges, dominating guards and the two-armed definitions of j1/j2 by "
    "Fourier-Motzkin refutation with integer tightening, and the asserted degree bound fits the declared buffer lengths; "
    "(R02.2) span search and single-function evaluation use the right-continuous convention (ordering enumeration of the "
    "comparisons), with the right end point special cases; (R02.3) all routes derive the first active index as span - p, build "
    "identical COO patterns and share one evaluation kernel; KnotVector.findspan delegates to that kernel or, if written in "
    "Python, clamps to the last non-empty span len(kv)-p-2 (compared as an affine form); the vectorised span search carries no "
    "state from one node to the next; (R02.4) zero shortcuts for high derivative orders apply only above the degree, and the "
    "Cython kernels contain no comparison with a tiny absolute tolerance. Necessary conditions only.")
DOES_NOT_DECIDE = "agreement with the Cox-de Boor recursion, non-negativity, partition of unity, vanishing derivatives of order > p"
TECHNIQUE = "affine index algebra + Fourier-Motzkin bound proofs on the lowered Cython tree; ordering enumeration of comparisons; sibling comparison"
ASSUMPTIONS = ["pyx_findspan returns span with p <= span <= len(kv)-p-2 (its documented contract; holds for open knot vectors and u in the domain)",
               "numderiv >= 0 and p >= 0 (caller contract)"]

CY = 'pyiga.bspline_cy'
B = 'pyiga.bspline'


def r02_1(ctx):
    fi = ctx.prog.func(CY + '.bspline_active_deriv_single')
    fn = fi.node
    cy = getattr(fn, '_cy', {})
    dirs = cy.get('directives', {})
    unchecked = dirs.get('boundscheck') is False
    ctx.met('R02.1', fi.qual, 'directives ' + ', '.join('%s=%s' % kv for kv in sorted(dirs.items())), fn,
            'kernel runs %s bounds checking' % ('WITHOUT' if unchecked else 'with'), nontrivial=False)
    decls = getattr(fn, '_decls', {})
    fixed = {name: ct.const_dims()[0] for name, ct in decls.items() if ct.dims and ct.const_dims()[0] is not None}
    ctx.floor('R02.1', 'fixed-size stack buffers', len(fixed), 4)
    # pointer aliases of the fixed buffers:  (a1, a2) = a1buf, a2buf ; (a1, a2) = (a2, a1)
    ptrs = {name for name, ct in decls.items() if ct.ptr}
    alias_of = {}
    for s in own_nodes(fn):
        if isinstance(s, ast.Assign) and isinstance(s.targets[0], ast.Tuple) and isinstance(s.value, ast.Tuple):
            for t, v in zip(s.targets[0].elts, s.value.elts):
                if isinstance(t, ast.Name) and t.id in ptrs and isinstance(v, ast.Name):
                    alias_of.setdefault(t.id, set()).add(v.id)
    # resolve through pointer-to-pointer swaps
    changed = True
    while changed:
        changed = False
        for p_, srcs in list(alias_of.items()):
            for s_ in list(srcs):
                if s_ in alias_of:
                    new = (srcs | alias_of[s_]) - {s_} if s_ in ptrs else srcs
                    if new != srcs:
                        alias_of[p_] = new
                        srcs = new
                        changed = True
    for p_ in list(alias_of):
        alias_of[p_] = {x for x in alias_of[p_] if x in fixed}
    # the asserted degree bound
    C = None
    for s in own_nodes(fn):
        if isinstance(s, ast.Assert) and isinstance(s.test, ast.Compare) and src(s.test.left) == 'p' \
                and isinstance(s.test.ops[0], (ast.Lt, ast.LtE)) and isinstance(s.test.comparators[0], ast.Constant):
            C = s.test.comparators[0].value + (1 if isinstance(s.test.ops[0], ast.LtE) else 0)
            assert_node = s
    if C is None:
        raise AnchorMissing('R02.1: no assertion bounding p by a constant in bspline_active_deriv_single')
    P, ND, SPAN, NKV = Lin.sym('p'), Lin.sym('numderiv'), Lin.sym('span'), Lin.sym('n_kv')
    axioms = [affine.ge(P, 0), affine.ge(ND, 0), affine.ge(SPAN, P), affine.le(SPAN, NKV - P - 2)]
    # symbolic extents: buffers need only slots 0..p (proved symbolically), sizes are compared with the assert afterwards
    ext = {'NDU': [P + 1, P + 1], 'result': [ND + 1, P + 1], 'kv': [NKV]}
    # check the allocation that defines NDU's extent
    alloc = [s for s in own_nodes(fn) if isinstance(s, ast.Assign) and src(s.targets[0]) == 'NDU']
    if not alloc or src(alloc[0].value.args[0]).replace(' ', '') != '(p+1,p+1)':
        raise AnchorMissing('R02.1: NDU allocation (p+1, p+1) not found')
    need = {}
    for buf in fixed:
        ext[buf] = [P + 1]
    aliases = {}
    for p_, srcs in alias_of.items():
        if srcs:
            aliases[p_] = sorted(srcs)[0]
    res = bounds.check_subscripts(fn, ext, axioms, aliases, witness=True)
    n = 0
    for (node, ax, e, ok, info) in res:
        n += 1
        st = '%s  axis %d' % (src(node), ax)
        if ok:
            ctx.met('R02.1', fi.qual, st, node, info)
        elif ok is False:
            ctx.violated('R02.1', fi.qual, st, node, info + ' -- the loop nest enumerates every integer point of its affine ranges '
                         'and guards, so this state is reached for suitable (p, numderiv)')
        else:
            ctx.undecided('R02.1', fi.qual, st, node, info)
    ctx.floor('R02.1', 'subscript obligations in bspline_active_deriv_single', n, 30)
    ctx.count('R02.1 subscripts', n)
    # (a) buffer lengths vs asserted bound: indices reach p (proved <= p above), p <= C-1
    # tighter need for buffers whose indices are provably <= p-1
    tight = {}
    ext2 = {b: [P] for b in fixed}
    res2 = bounds.check_subscripts(fn, ext2, axioms, aliases)
    for (node, ax, e, ok, info) in res2:
        name = aliases.get(node.value.id, node.value.id)
        targets = alias_of.get(node.value.id, {name}) or {name}
        for t in targets:
            tight[t] = tight.get(t, True) and bool(ok)
    for buf, N in sorted(fixed.items()):
        need_slots = C - 1 if tight.get(buf, False) else C
        ok = N >= need_slots
        ctx.decide('R02.1', fi.qual, 'cdef double[%d] %s vs assert p < %d' % (N, buf, C), ok, assert_node,
                   'indices of %s reach %s; with p <= %d the buffer needs %d slots, declared %d'
                   % (buf, 'p-1' if tight.get(buf) else 'p', C - 1, need_slots, N))
    # caller passes a result view of the right shape
    ad = ctx.prog.func(CY + '.active_deriv')
    al = [s for s in own_nodes(ad.node) if isinstance(s, ast.Assign) and src(s.targets[0]) == 'result']
    ok = bool(al) and src(al[0].value.args[0]).replace(' ', '') == '(numderiv+1,knotvec.p+1,n)'
    ctx.decide('R02.1', ad.qual, src(al[0]) if al else 'result allocation', ok or None, al[0] if al else ad.node,
               'result slice handed to the kernel has extents (numderiv+1, p+1)')


# ------------------------------------------------------------------ R02.2
def r02_2(ctx):
    fi = ctx.prog.func(CY + '.pyx_findspan')
    fn = fi.node
    # early return for the right end: u >= kv[n-p-1] -> n-p-2
    early = [s for s in fn.body if isinstance(s, ast.If)]
    if not early:
        raise AnchorMissing('R02.2: early return of pyx_findspan not found')
    t = early[0].test
    ok = isinstance(t, ast.Compare) and len(t.ops) == 1
    st = src(t).replace(' ', '')
    # ordering enumeration: for u (<,=,>) kv[n-p-1], is the early branch taken?
    taken = None
    if ok:
        l, op, r = src(t.left), t.ops[0], src(t.comparators[0]).replace(' ', '')
        if l == 'u' and r == 'kv[n-p-1]':
            taken = {'<': isinstance(op, (ast.Lt, ast.LtE, ast.NotEq)), '=': isinstance(op, (ast.LtE, ast.GtE, ast.Eq)),
                     '>': isinstance(op, (ast.Gt, ast.GtE, ast.NotEq))}
        elif r == 'u' and l.replace(' ', '') == 'kv[n-p-1]':
            taken = {'<': isinstance(op, (ast.Gt, ast.GtE, ast.NotEq)), '=': isinstance(op, (ast.LtE, ast.GtE, ast.Eq)),
                     '>': isinstance(op, (ast.Lt, ast.LtE, ast.NotEq))}
    want = {'<': False, '=': True, '>': True}
    ctx.decide('R02.2', fi.qual, 'early return when ' + src(t), (taken == want) if taken is not None else None, early[0],
               'u at or beyond the last breakpoint kv[n-p-1] belongs to the last non-empty span (left-continuity at the right end)')
    ret = [s for s in early[0].body if isinstance(s, ast.Return)]
    if ret:
        ctx.formula('R02.2', fi.qual, ret[0].value, 'n - p - 2', ret[0], 'index one below the tested knot = last span',
                    label='early return value ' + src(ret[0].value))
    else:
        ctx.undecided('R02.2', fi.qual, 'early return value', early[0], 'no return in the early branch')
    # bisection: kv[c] (<,=,>) u -> which bound moves
    wh = [s for s in fn.body if isinstance(s, ast.While)]
    if not wh:
        raise AnchorMissing('R02.2: bisection loop not found')
    w = wh[0]
    iff = [s for s in w.body if isinstance(s, ast.If)]
    if not iff:
        raise AnchorMissing('R02.2: bisection comparison not found')
    c = iff[0]
    moves = bisect_table(c)
    ctx.decide('R02.2', fi.qual, 'bisection on ' + src(c.test), (moves == {'<': 'a', '=': 'a', '>': 'b'}) if moves else None, c,
               'kv[c] <= u keeps c as lower bound (right-continuous: kv[a] <= u < kv[b]); moves=%s' % moves)
    ctx.decide('R02.2', fi.qual, 'loop while ' + src(w.test), src(w.test).replace(' ', '') in ('b-a>1', '1<b-a', 'a+1<b'), w,
               'terminates with adjacent bounds')
    mid = [s for s in w.body if isinstance(s, ast.Assign) and src(s.targets[0]) == 'c']
    okm = bool(mid) and src(mid[0].value).replace(' ', '') in ('a+(b-a)//2', '(a+b)//2')
    ctx.decide('R02.2', fi.qual, src(mid[0]) if mid else 'midpoint', okm or None, mid[0] if mid else w, 'a < c < b while b - a > 1')
    rets = [s for s in fn.body if isinstance(s, ast.Return)]
    ctx.decide('R02.2', fi.qual, 'final ' + (src(rets[-1]) if rets else 'return'), bool(rets) and src(rets[-1].value) == 'a', rets[-1] if rets else fn,
               'the lower bound is the span index')
    inits = {src(s.target): src(s.value) for s in fn.body if isinstance(s, ast.AnnAssign) and s.value is not None}
    ctx.decide('R02.2', fi.qual, 'initial bounds a=%s b=%s' % (inits.get('a'), inits.get('b')),
               inits.get('a') == '0' and (inits.get('b') or '').replace(' ', '') == 'n-1', fn, 'search over the whole knot array')

    # single-function evaluation: half-open support and degree-0 tests
    g = ctx.prog.func(B + '._bspline_single_ev_single')
    tests = [n for n in ast.walk(g.node) if isinstance(n, ast.If)]
    supp = [n for n in tests if 'kv[i + p + 1]' in src(n.test) and 'kv[i]' in src(n.test)]
    if not supp:
        raise AnchorMissing('R02.2: support test of _bspline_single_ev_single not found')
    s = src(supp[0].test).replace(' ', '')
    ctx.decide('R02.2', g.qual, src(supp[0].test), s in ('u<kv[i]oru>=kv[i+p+1]', 'u>=kv[i+p+1]oru<kv[i]'), supp[0],
               'outside the half-open support [kv[i], kv[i+p+1]) the function is zero')
    deg0 = [n for n in tests if 'kv[i + j]' in src(n.test)]
    if deg0:
        s = src(deg0[0].test).replace(' ', '')
        ctx.decide('R02.2', g.qual, src(deg0[0].test), s in ('u>=kv[i+j]andu<kv[i+j+1]', 'kv[i+j]<=u<kv[i+j+1]'), deg0[0],
                   'degree-0 indicator of the half-open span [kv[i+j], kv[i+j+1])')
    sp = [n for n in tests if 'kv[0]' in src(n.test) and 'kv[-1]' in src(n.test)]
    if sp:
        s = src(sp[0].test).replace(' ', '')
        ok = s.replace('(', '').replace(')', '') == 'i==0andu==kv[0]ori==m-p-2andu==kv[-1]'
        ctx.decide('R02.2', g.qual, src(sp[0].test), ok or None, sp[0],
                   'first function is 1 at the left end, last function (index m-p-2) is 1 at the right end')
    else:
        ctx.violated('R02.2', g.qual, 'end point special cases', g.node, 'closed right end point is not handled')
    # KnotVector.findspan delegates to the kernel
    fs = ctx.prog.func(B + '.KnotVector.findspan')
    r = guards.returns_of(fs.node)
    ok = bool(r) and src(r[-1].value) == 'pyx_findspan(self.kv, self.p, u)'
    ctx.decide('R02.2', fs.qual, src(r[-1]) if r else 'return', ok or None, fs.node, 'one span-search implementation')
    # the vectorised search is an elementwise map: the span of u[i] may not depend on the nodes before it (collocation
    # accepts nodes in any order)
    vs = ctx.prog.func(CY + '.pyx_findspans')
    loops = [l for l in own_nodes(vs.node) if isinstance(l, ast.For)]
    if not loops:
        ctx.undecided('R02.2', vs.qual, 'span search per node', vs.node, 'no loop over the nodes')
    else:
        l = loops[0]
        carried = guards.loop_carried(l)
        stores = [s for s in ast.walk(l) if isinstance(s, ast.Assign) and isinstance(s.targets[0], ast.Subscript) and src(s.targets[0].value) in ('result', 'out')]
        if carried:
            ctx.violated('R02.2', vs.qual, 'span search per node is stateless', l,
                         'the loop over the nodes carries %s from one node to the next: the span reported for u[i] depends on the nodes before it, '
                         'which is only right for ascending node arrays (collocation / interpolation accept any order)' % ', '.join(sorted(carried)))
        elif stores:
            ctx.expect('R02.2', vs.qual, stores[0].value, 'pyx_findspan(kv, p, u[i])', stores[0], 'each node is located by the scalar search',
                       label='result[i] = ' + src(stores[0].value))
        else:
            ctx.undecided('R02.2', vs.qual, 'span search per node', l, 'store into the result not recognised')


def bisect_table(iff):
    """if kv[c] OP u: X = c else: Y = c  -> {'<': var, '=': var, '>': var} for kv[c] vs u"""
    t = iff.test
    if not (isinstance(t, ast.Compare) and len(t.ops) == 1):
        return None
    l, r = src(t.left).replace(' ', ''), src(t.comparators[0]).replace(' ', '')
    op = t.ops[0]
    if l == 'kv[c]' and r == 'u':
        flip = False
    elif l == 'u' and r == 'kv[c]':
        flip = True
    else:
        return None

    def holds(rel):        # rel is relation of kv[c] to u
        if flip:
            rel = {'<': '>', '>': '<', '=': '='}[rel]
        return {ast.Lt: rel == '<', ast.LtE: rel in '<=', ast.Gt: rel == '>', ast.GtE: rel in '>=',
                ast.Eq: rel == '=', ast.NotEq: rel != '='}.get(type(op))

    def moved(body):
        for s in body:
            if isinstance(s, ast.Assign) and src(s.value) == 'c' and isinstance(s.targets[0], ast.Name):
                return s.targets[0].id
        return None
    tv, fv = moved(iff.body), moved(iff.orelse)
    if tv is None or fv is None:
        return None
    return {rel: (tv if holds(rel) else fv) for rel in ('<', '=', '>')}


# ------------------------------------------------------------------ R02.3
def r02_3(ctx):
    # first active index = span - p at all sites
    fa = ctx.prog.func(B + '.KnotVector.first_active')
    r = guards.returns_of(fa.node)
    if r:
        ctx.formula('R02.3', fa.qual, r[0].value, 'k - self.p', fa.node, 'first active function of span k is k - p', label=src(r[0]))
    else:
        ctx.undecided('R02.3', fa.qual, 'return', fa.node, 'no return')
    # span search: every route uses the Cython kernel (whose range is proved by R02.2), or -- if written in Python -- the
    # index is clamped to the last NON-EMPTY span len(kv)-p-2 (the documented range is p <= i < len(kv)-1-p)
    fs = ctx.prog.func(B + '.KnotVector.findspan')

    def norm_size(e):
        return src(e).replace('len(self.kv)', 'self.kv.size').replace('self.kv.shape[0]', 'self.kv.size')

    LAST = 'self.kv.size - self.p - 2'
    for r0 in guards.returns_of(fs.node):
        v = r0.value
        fn = call_name(v) if isinstance(v, ast.Call) else None
        if fn in ('pyx_findspan', 'bspline_cy.pyx_findspan'):
            ok = [src(a).replace(' ', '') for a in v.args] == ['self.kv', 'self.p', 'u']
            ctx.decide('R02.3', fs.qual, src(r0), ok or None, r0, 'same kernel as the evaluation routines (range of the kernel: R02.2)')
        elif fn in ('np.minimum', 'min', 'np.fmin') and len(v.args) == 2:
            # min(search, bound): the bound must be the last non-empty span
            cands = [a for a in v.args if 'searchsorted' not in src(a)]
            if len(cands) == 1:
                ctx.formula('R02.3', fs.qual, norm_size(cands[0]), LAST, r0,
                            'the right end point belongs to the last non-empty span len(kv)-p-2; a larger clamp returns an empty span '
                            'there and first_active_at reports a window past the last basis function', label='upper clamp of the span index: ' + src(cands[0]))
            else:
                ctx.undecided('R02.3', fs.qual, src(r0), r0, 'clamp not recognised')
        elif fn in ('np.clip',) and len(v.args) == 3:
            ctx.formula('R02.3', fs.qual, norm_size(v.args[2]), LAST, r0, 'upper clamp = last non-empty span', label='upper clamp of the span index: ' + src(v.args[2]))
            ctx.formula('R02.3', fs.qual, norm_size(v.args[1]), 'self.p', r0, 'lower clamp = first non-empty span', label='lower clamp of the span index: ' + src(v.args[1]))
        else:
            conds = guards.path_conditions(r0)
            if 'searchsorted' in src(v):
                ctx.undecided('R02.3', fs.qual, src(r0), r0, 'Python span search without a recognised clamp')
            elif conds and all(isinstance(n, (ast.Name, ast.Attribute, ast.Constant, ast.BinOp, ast.UnaryOp, ast.Call, ast.Subscript, ast.operator, ast.unaryop, ast.expr_context)) for n in ast.walk(v)):
                ctx.formula('R02.3', fs.qual, norm_size(v), LAST, r0, 'boundary case returns the last non-empty span', label='boundary span: ' + src(v))
            else:
                ctx.undecided('R02.3', fs.qual, src(r0), r0, 'span search not recognised')
    faa = ctx.prog.func(B + '.KnotVector.first_active_at')
    rr0 = guards.returns_of(faa.node)
    ok = bool(rr0) and src(rr0[-1].value).replace(' ', '') == 'self.first_active(self.findspan(u))'
    ctx.decide('R02.3', faa.qual, src(rr0[-1]) if rr0 else 'return', ok or None, faa.node, 'reported window starts at span - p of the same span search')
    n = 0
    for q in (B + '.collocation_info', B + '.collocation_derivs_info'):
        fi = ctx.prog.func(q)
        a = [s for s in own_nodes(fi.node) if isinstance(s, ast.Assign) and src(s.targets[0]) == 'indices']
        if not a:
            raise AnchorMissing('R02.3: indices assignment missing in ' + q)
        n += 1
        ok = src(a[0].value).replace(' ', '') == 'pyx_findspans(kv.kv,kv.p,nodes)-kv.p'
        ctx.decide('R02.3', q, src(a[0]), ok or None, a[0], 'first active index = span - p')
        c = [s for s in own_nodes(fi.node) if isinstance(s, ast.Assign) and src(s.targets[0]) == 'nodes']
        okc = bool(c) and call_name(c[0].value) == 'np.ascontiguousarray'
        ctx.decide('R02.3', q, src(c[0]) if c else 'nodes', okc or None, c[0] if c else fi.node,
                   'pyx_findspans takes a contiguous double[::1] view')
    # COO patterns identical in collocation / collocation_derivs
    pats = {}
    for q in (B + '.collocation', B + '.collocation_derivs'):
        fi = ctx.prog.func(q)
        d = {src(s.targets[0]): src(s.value) for s in own_nodes(fi.node) if isinstance(s, ast.Assign) and len(s.targets) == 1}
        I = d.get('I', '').replace('kv.p', 'p')
        J = d.get('J', '').replace('kv.p', 'p')
        pats[q] = (I, J)
        ctx.decide('R02.3', q, 'I = %s ; J = %s' % (I, J),
                   (I.replace(' ', '') == 'np.repeat(np.arange(m),p+1)' and
                    J.replace(' ', '') == '(indices[:,None]+np.arange(p+1)[None,:]).ravel()') or None, fi.node,
                   'row k holds p+1 entries in columns indices[k] .. indices[k]+p')
    ctx.decide('R02.3', B + '.collocation*', 'COO index patterns agree', len(set(pats.values())) == 1, ctx.prog.func(B + '.collocation').node)
    # active_ev is the 0-th row of active_deriv(..., 0)
    ae = ctx.prog.func(B + '.active_ev')
    rr = [src(x.value).replace(' ', '') for x in guards.returns_of(ae.node)]
    ctx.decide('R02.3', ae.qual, ' | '.join(rr), any(x == 'active_deriv(knotvec,u,0)[0,:]' for x in rr) or None, ae.node,
               'values come from the same kernel as derivatives')
    # values.T / swapaxes bring (p+1) x n into n x (p+1)
    ci = ctx.prog.func(B + '.collocation_info')
    r = guards.returns_of(ci.node)
    ctx.decide('R02.3', ci.qual, src(r[-1]), 'values.T' in src(r[-1]) or None, r[-1], 'row-wise layout: node major')
    cdi = ctx.prog.func(B + '.collocation_derivs_info')
    r = guards.returns_of(cdi.node)
    ctx.decide('R02.3', cdi.qual, src(r[-1]), 'swapaxes(-2, -1)' in src(r[-1]) or None, r[-1], 'row-wise layout: node major')
    # compute_values_derivs: axes (basis function, grid point, derivative)
    cv = ctx.prog.func('pyiga.assemble_tools.compute_values_derivs')
    t = src(cv.node)
    ok = 'bspline.collocation_derivs(kv, grid, derivs=derivs)' in t and 'X.T.toarray()' in t and 'np.stack(colloc, axis=-1)' in t
    ctx.decide('R02.3', cv.qual, 'stack of transposed collocation matrices on the last axis', ok or None, cv.node,
               'layout (basis function, grid point, derivative) read by the assemblers')


DERIV_NAMES = ('deriv', 'derivs', 'numderiv', 'der', 'nder', 'k', 'order')


def r02_4(ctx):
    """(a) A shortcut that returns zeros for high derivative orders may only apply to orders ABOVE the degree: the p-th
    derivative of a degree-p spline is a non-zero piecewise constant.  The guard is evaluated at order = p.
    (b) The evaluation kernels contain no absolute tolerance: a comparison of a knot difference (or a quantity built from
    them) with a small positive literal treats legitimately tiny spans as empty, whatever the scale of the knot vector."""
    n = 0
    for fi in ctx.prog.funcs_in(B):
        for iff in [s for s in own_nodes(fi.node) if isinstance(s, ast.If)]:
            t = iff.test
            if not (isinstance(t, ast.Compare) and len(t.ops) == 1):
                continue
            sides = [t.left, t.comparators[0]]
            names = [src(s) for s in sides]
            isdeg = [s.endswith('.p') or s == 'p' for s in names]
            isord = [isinstance(s, ast.Name) and s.id in DERIV_NAMES for s in sides]
            if not ((isdeg[0] and isord[1]) or (isdeg[1] and isord[0])):
                continue
            zero_ret = any(isinstance(r, ast.Return) and r.value is not None and ('zeros' in src(r.value) or src(r.value) in ('0', '0.0'))
                           for r in ast.walk(ast.Module(iff.body, [])))
            if not zero_ret:
                continue
            n += 1
            # evaluate the guard for order == degree (both sides the same number)
            op = t.ops[0]
            taken_at_equal = isinstance(op, (ast.GtE, ast.LtE, ast.Eq))
            ctx.decide('R02.4', fi.qual, 'zero shortcut `if %s` is not taken for order == degree' % src(t), not taken_at_equal, iff,
                       'the p-th derivative of a degree-p spline is a non-zero piecewise constant; only orders > p vanish', definite=True)
    ctx.met('R02.4', B, 'zero shortcuts for high derivative orders: %d found' % n, None, 'none applies at order == degree', where='-', nontrivial=n > 0)
    cy = ctx.prog.unit(CY)
    m = 0
    for fi in [f for f in ctx.prog.functions.values() if f.unit is cy]:
        for c in [x for x in ast.walk(fi.node) if isinstance(x, ast.Compare) and len(x.ops) == 1]:
            lits = [s for s in (c.left, c.comparators[0]) if isinstance(s, ast.Constant) and isinstance(s.value, float) and 0 < abs(s.value) < 1e-6]
            if not lits:
                continue
            m += 1
            ctx.violated('R02.4', fi.qual, 'no absolute tolerance in the evaluation kernel: ' + src(c), c,
                         'compares with the literal %s: knot spans shorter than that are legitimate (the knot vector may live at any scale); inside '
                         'such a span the guarded quotient is replaced and all active basis values come out wrong' % src(lits[0]))
    ctx.met('R02.4', CY, 'comparisons with tiny literals in the Cython kernels: %d' % m, None, 'the kernels are scale invariant', where='-', nontrivial=False)


def r02_5(ctx):
    """Parameter values, knots and basis values are C doubles throughout the evaluation kernels: a `float` (single
    precision) argument or variable rounds the parameter before the span search while the values are computed with the
    exact parameter in that span."""
    n = 0
    bad = []
    for q, fi in sorted(ctx.prog.functions.items()):
        if fi.unit.lang != 'cy' or not fi.unit.modname.startswith('pyiga.bspline_cy'):
            continue
        n += 1
        for a in fi.node.args.args + fi.node.args.kwonlyargs:
            if a.annotation is not None and src(a.annotation).strip("'\"").split('[')[0].strip() == 'float':
                bad.append((fi, a.arg, a))
        for s_ in ast.walk(fi.node):
            if isinstance(s_, ast.AnnAssign) and src(s_.annotation).strip("'\"").split('[')[0].strip() == 'float':
                bad.append((fi, src(s_.target), s_))
    for fi, name, node in bad:
        ctx.violated('R02.5', fi.qual, '%s: float' % name, fi.node,
                     'declared as C float (single precision): the value is rounded to 24 bits on entry, so a parameter on or next to a knot that '
                     'is not representable in float32 (0.7, 0.9) is located in the neighbouring span while the basis values are computed for '
                     'the exact parameter -- first-active index and one-sided derivatives come out wrong')
    if not bad:
        ctx.met('R02.5', 'pyiga.bspline_cy', 'no single-precision declaration in %d kernels' % n, None, 'all reals are C doubles', where='pyiga/bspline_cy.pyx')
    ctx.floor('R02.5', 'functions of bspline_cy examined', n, 3)


def r02_7(ctx):
    """Every exit of the knot-span search returns a NON-EMPTY span [kv[r], kv[r+1]) containing u.  The bisection invariant
    kv[a] <= u < kv[b] gives that for `return a` after the loop; an exit from INSIDE the loop (exact hit kv[c] == u) must first
    skip the whole run of equal knots -- a loop `while kv[c+1] == u: c += 1`; a single `if kv[c+1] == u: c += 1` leaves an empty
    span for multiplicity >= 3 (division by the zero span length in the kernel: NaN values)."""
    fi = ctx.prog.func(CY + '.pyx_findspan')
    wh = [s_ for s_ in fi.node.body if isinstance(s_, ast.While)]
    if not wh:
        ctx.undecided('R02.7', fi.qual, 'bisection loop', fi.node, 'not recognised')
        return
    inner = [r for r in ast.walk(wh[0]) if isinstance(r, ast.Return)]
    if not inner:
        ctx.met('R02.7', fi.qual, 'no exit from inside the bisection loop', wh[0], 'the only exits are the end test and the bisection result')
        return
    for r in inner:
        blk = None
        par = parent(r)
        for fld in ('body', 'orelse'):
            b = getattr(par, fld, None)
            if isinstance(b, list) and r in b:
                blk = b[:b.index(r)]
        blk = blk or []
        skip_loop = [s_ for s_ in blk if isinstance(s_, ast.While) and '+1]' in src(s_.test).replace(' ', '') and 'u' in src(s_.test)]
        skip_once = [s_ for s_ in blk if isinstance(s_, ast.If) and '+1]' in src(s_.test).replace(' ', '') and 'u' in src(s_.test)
                     and any(isinstance(x, ast.AugAssign) for x in ast.walk(s_))]
        if skip_loop:
            ctx.met('R02.7', fi.qual, src(r), r, 'the run of equal knots is skipped by a loop before the early exit')
        elif skip_once:
            ctx.violated('R02.7', fi.qual, '%s after `%s`' % (src(r), src(skip_once[0]).split('\n')[0]), r,
                         'the early exit for an exact hit steps over ONE repeated knot only: for an interior knot of multiplicity >= 3 (degree >= 3) '
                         'the returned span is empty, first_active_at is one too small and the evaluation kernel divides by the zero span length '
                         '(active_ev / collocation return NaN at that point)')
        else:
            ctx.undecided('R02.7', fi.qual, src(r), r, 'exit from inside the bisection loop: non-emptiness of the returned span not established')


def run(ctx):
    r02_7(ctx)
    # R02.6 = R07.9: evaluator result buffers do not take the dtype of the coefficient array
    import rules.C07 as c07
    ctx.shared(c07.r07_9, 'R07.9', 'R02.6')
    r02_5(ctx)
    r02_4(ctx)
    r02_1(ctx)
    r02_2(ctx)
    r02_3(ctx)
    # R02.8 = R07.1: the scattered-point evaluators pair knot vector d with coordinate sdim-1-d (wave 8: a rotation `d-1` agrees
    # with the reversal for one and two directions only)
    import rules.C07 as c07
    ctx.shared(c07.r07_1, 'R07.1', 'R02.8')

"""C07 -- geometry maps: consistent evaluation routes, pure operations (structural clauses)."""
import ast
import itertools

from sa.program import src, own_nodes, call_name, parent, kwarg, loc, AnchorMissing
from sa import guards, poly, affine, effects, resolve

EXPLANATION = (
    "Static rules over pyiga/bspline.py and geometry.py: (R07.1) every subscript that is affine in a loop variable over "
    "range(sdim) into a sequence of length sdim is evaluated for sdim in {1,2,3}: in range, a permutation, and the axis reversal "
    "where knot vectors (zyx) are paired with point coordinates (xyz); (R07.2) no geometry operation writes in place to storage "
    "owned by self or by an argument (alias analysis with view/fresh classification), and every NurbsFunc construction that "
    "triggers the documented in-place premultiplication receives a fresh array; (R07.3) the three scattered-point evaluators and "
    "the grid Jacobian agree on index logic and derivative slot; (R07.4) the NURBS quotient rule siblings are equal as rational "
    "expressions and all slicing sites treat the last component as weight; (R07.5) boundary-name table and axis insertion "
    "conventions agree; (R07.6) the circular-arc family is consistent (points, weight angle, spans, dispatch covers (0,2pi]); "
    "(R07.7) arrays of variable rank are indexed rank-generically.  R07.4 also compares the order of the linearised symmetric "
    "Hessian components between the B-spline loop nest and the index-pair generator of the NURBS correction (finite model for "
    "sdim = 1, 2, 3).")
DOES_NOT_DECIDE = "any value, Jacobian or Hessian; exactness of circles to rounding"
TECHNIQUE = "custom AST rules: affine index evaluation over dimension instances, alias/effect analysis, rational normal-form sibling comparison, table agreement"

B = 'pyiga.bspline'
G = 'pyiga.geometry'
POINTWISE = ('tp_bsp_eval_pointwise', 'tp_bsp_jac_pointwise', 'tp_bsp_eval_with_jac_pointwise')


# ------------------------------------------------------------------ R07.1
def dim_symbols(fn):
    """{symbol name: set of sequence names whose length it is}"""
    out = {}
    for n in own_nodes(fn):
        if isinstance(n, ast.Assign) and len(n.targets) == 1:
            t, v = n.targets[0], n.value
            pairs = []
            if isinstance(t, ast.Tuple) and isinstance(v, ast.Tuple) and len(t.elts) == len(v.elts):
                pairs = list(zip(t.elts, v.elts))
            else:
                pairs = [(t, v)]
            for tt, vv in pairs:
                if isinstance(tt, ast.Name) and isinstance(vv, ast.Call) and call_name(vv) == 'len' and len(vv.args) == 1 \
                        and isinstance(vv.args[0], ast.Name):
                    out.setdefault(tt.id, set()).add(vv.args[0].id)
    return out


def eval_affine(e, env):
    try:
        lin = affine.from_ast(e, opaque=False)
    except affine.NonAffine:
        return None
    if not lin.symbols() <= set(env):
        return None
    v = lin.k + sum(c * env[s] for s, c in lin.c.items())
    return int(v) if v.denominator == 1 else None


def r07_1(ctx):
    n_sites = 0
    for fi in ctx.prog.funcs_in(B) + ctx.prog.funcs_in(G):
        dims = dim_symbols(fi.node)
        if not dims:
            continue
        for sym, seqs in dims.items():
            # loops / comprehensions over range(sym)
            for n in ast.walk(fi.node):
                gens = []
                if isinstance(n, ast.comprehension):
                    gens = [(n.target, n.iter, parent(n))]
                elif isinstance(n, ast.For):
                    gens = [(n.target, n.iter, n)]
                for (tgt, it, scope) in gens:
                    if not (isinstance(tgt, ast.Name) and isinstance(it, ast.Call) and call_name(it) == 'range'
                            and len(it.args) == 1 and src(it.args[0]) == sym):
                        continue
                    var = tgt.id
                    for s in ast.walk(scope):
                        if not (isinstance(s, ast.Subscript) and isinstance(s.value, ast.Name) and s.value.id in seqs):
                            continue
                        if isinstance(s.slice, (ast.Slice, ast.Tuple)):
                            continue
                        if var not in {x.id for x in ast.walk(s.slice) if isinstance(x, ast.Name)}:
                            continue
                        n_sites += 1
                        construct = '%s.%s' % (fi.unit.modname, fi.name)
                        bad = None
                        maps = {}
                        decided = True
                        for sd in (1, 2, 3):
                            vals = []
                            for d in range(sd):
                                v = eval_affine(s.slice, {var: d, sym: sd})
                                if v is None:
                                    decided = False
                                    break
                                vals.append(v)
                                if not (0 <= v < sd) and bad is None:
                                    bad = '%s=%d, %s=%d gives index %d (valid: 0..%d)' % (sym, sd, var, d, v, sd - 1)
                            if not decided:
                                break
                            maps[sd] = vals
                        if not decided:
                            ctx.undecided('R07.1', construct, src(s), s, 'subscript not affine in (%s, %s)' % (var, sym))
                            continue
                        if bad:
                            ctx.violated('R07.1', construct, src(s), s,
                                         'sequence %s has length %s; %s' % (s.value.id, sym, bad))
                            continue
                        perm_ok = all(sorted(v) == list(range(sd)) for sd, v in maps.items())
                        ident = all(v == list(range(sd)) for sd, v in maps.items())
                        rev = all(v == list(reversed(range(sd))) for sd, v in maps.items())
                        if not perm_ok or not (ident or rev):
                            ctx.violated('R07.1', construct, src(s), s, 'index map is neither identity nor reversal for all sdim in 1..3: %s' % maps)
                        else:
                            ctx.met('R07.1', construct, src(s), s, 'identity' if ident else 'reversal sdim-1-d')
    # pairing rule in the pointwise evaluators: kvs[d] (zyx) is paired with the reversed coordinate (xyz)
    for name in POINTWISE:
        fi = ctx.prog.func('%s.%s' % (B, name))
        found = False
        for c in ast.walk(fi.node):
            if isinstance(c, ast.Call) and call_name(c) in ('collocation_info', 'collocation_derivs_info') and len(c.args) >= 2:
                a0, a1 = c.args[0], c.args[1]
                if isinstance(a0, ast.Subscript) and isinstance(a1, ast.Subscript) and src(a0.value) == 'kvs':
                    found = True
                    n_sites += 1
                    var = src(a0.slice)
                    ok = True
                    for sd in (1, 2, 3):
                        for d in range(sd):
                            v = eval_affine(a1.slice, {var: d, 'sdim': sd})
                            if v != sd - 1 - d:
                                ok = False if v is not None else None
                    ctx.decide('R07.1', '%s.%s' % (B, name), 'pairing %s with %s' % (src(a0), src(a1)), ok, c,
                               'knot vectors are in zyx order, point coordinates in xyz order: coordinate index must be sdim-1-%s' % var)
        if not found:
            raise AnchorMissing('R07.1: collocation call pairing kvs[d] with coordinates not found in ' + name)
    ctx.floor('R07.1', 'dimension-generic subscripts', n_sites, 6)


# ------------------------------------------------------------------ R07.7
def r07_7(ctx):
    """An array allocated with shape (n,) + <variable-length tuple> must not be indexed by a
    fixed-length tuple that presumes one particular rank."""
    n = 0
    for name in POINTWISE[1:]:
        fi = ctx.prog.func('%s.%s' % (B, name))
        # names bound to tuples of variable length:  coeffs.shape[sdim:] (+ ...)
        varlen = set()
        arrays = {}
        for s in own_nodes(fi.node):
            if isinstance(s, ast.Assign) and len(s.targets) == 1 and isinstance(s.targets[0], ast.Name):
                t = s.targets[0].id
                v = s.value
                txt = src(v)
                if isinstance(v, ast.Subscript) and isinstance(v.slice, ast.Slice) and src(v.value).endswith('.shape'):
                    varlen.add(t)
                elif isinstance(v, ast.BinOp) and isinstance(v.op, ast.Add) and any(
                        (isinstance(x, ast.Name) and x.id in varlen) or
                        (isinstance(x, ast.Subscript) and isinstance(x.slice, ast.Slice) and src(x.value).endswith('.shape'))
                        for x in (v.left, v.right)):
                    varlen.add(t)
                    # count of fixed extra axes
                    extra = sum(len(x.elts) for x in (v.left, v.right) if isinstance(x, ast.Tuple))
                    arrays['__len_' + t] = extra
                if isinstance(v, ast.Call) and call_name(v) in ('np.empty', 'np.zeros') and v.args:
                    sh = v.args[0]
                    if isinstance(sh, ast.BinOp) and isinstance(sh.op, ast.Add) and isinstance(sh.left, ast.Tuple) \
                            and isinstance(sh.right, ast.Name) and sh.right.id in varlen:
                        arrays[t] = (len(sh.left.elts), sh.right.id)
        for s in own_nodes(fi.node):
            if isinstance(s, ast.Assign):
                for t in s.targets:
                    if isinstance(t, ast.Subscript) and isinstance(t.value, ast.Name) and t.value.id in arrays \
                            and isinstance(arrays[t.value.id], tuple) and isinstance(t.slice, ast.Tuple):
                        n += 1
                        lead, vname = arrays[t.value.id]
                        fixed_extra = arrays.get('__len_' + vname, 0)
                        has_ellipsis = any(isinstance(x, ast.Constant) and x.value is Ellipsis for x in t.slice.elts)
                        k = len(t.slice.elts)
                        construct = '%s.%s' % (B, name)
                        if has_ellipsis:
                            ctx.met('R07.7', construct, src(t), s, 'rank-generic index (Ellipsis)')
                        else:
                            # rank = lead + r + fixed_extra, r = rank of the coefficient tail in {0,1,2}
                            okr = [r for r in (0, 1, 2) if k == lead + r + fixed_extra]
                            ctx.violated('R07.7', construct, src(t), s,
                                         'array has rank %d + r + %d where r = number of trailing coefficient axes (0 scalar, 1 vector, '
                                         '2 matrix valued); a %d-tuple index addresses the derivative slot only for r in %s '
                                         '(IndexError for scalar functions)' % (lead, fixed_extra, k, okr))
    ctx.floor('R07.7', 'stores into variable-rank result arrays', n, 2)


# ------------------------------------------------------------------ R07.2
PURE_CLASSES = {
    B: ('KnotVector', 'BSplineFunc', '_BaseSplineFunc', '_BaseGeoFunc', 'PhysicalGradientFunc'),
    G: ('NurbsFunc', 'UserFunction', 'ComposedFunction', '_BoundaryFunction'),
}
IDENTITY_CALLS = ('as_nurbs', 'as_vector')


def is_setter(fn):
    return any(isinstance(d, ast.Attribute) and d.attr == 'setter' for d in fn.decorator_list)


def r07_2(ctx):
    n_fn = 0
    n_w = 0
    summ = effects.build_summaries(ctx.prog, modules={B, G})
    ctx.count('R07.2 fresh-return summaries', len(summ))
    for mod, classes in PURE_CLASSES.items():
        for fi in ctx.prog.funcs_in(mod, include_nested=False):
            if fi.cls is not None and fi.cls.name not in classes:
                continue
            if mod == B and fi.cls is None and fi.name.startswith('_') and fi.name != '_parse_bdspec':
                pass
            n_fn += 1
            ws = effects.external_writes(fi.node, summaries=summ)
            construct = fi.qual
            for w in ws:
                n_w += 1
                node = w['node']
                kind = w['kind']
                tgt = w['target']
                # exemptions -----------------------------------------------------------
                if fi.name == '__init__' and 'self' in w['external'] and kind.endswith(':attr') and tgt.startswith('self.'):
                    continue          # field initialisation
                if is_setter(fi.node) and kind.endswith(':attr'):
                    ctx.met('R07.2', construct, src(node), node, 'explicit mutator (property setter)', nontrivial=False)
                    continue
                if kind.endswith(':attr') and tgt.startswith('self._') and 'self' in w['external'] and w['external'] == {'self'}:
                    ctx.met('R07.2', construct, src(node), node, 'private cache field rebinding', nontrivial=False)
                    continue
                if fi.qual == G + '.NurbsFunc.__init__' and 'self.coeffs[..., :-1]' in tgt:
                    # the documented premultiplication: discharged by the call-site rule below
                    ctx.met('R07.2', construct, src(node), node,
                            'documented in-place premultiplication; every in-package call site is checked for a fresh argument')
                    continue
                if w['definite']:
                    ctx.violated('R07.2', construct, src(node), node,
                                 'in-place %s on storage owned by %s' % (kind, ', '.join(sorted(w['external']))))
                else:
                    ctx.undecided('R07.2', construct, src(node), node, 'possible in-place %s (roots %s)' % (kind, sorted(w['roots'])))
            if not ws:
                ctx.met('R07.2', construct, 'no in-place write to self/argument storage', fi.node)
    ctx.count('R07.2 functions analysed', n_fn)
    ctx.floor('R07.2', 'functions of geometry classes/modules analysed', n_fn, 100)
    # call-site rule for the premultiplying constructor
    n_calls = 0
    for unit in ctx.prog.units.values():
        if not unit.modname.startswith('pyiga'):
            continue
        for fi in ctx.prog.funcs_in(unit.modname, include_nested=True):
            calls = [c for c in ast.walk(fi.node) if isinstance(c, ast.Call) and (call_name(c) or '').split('.')[-1] == 'NurbsFunc']
            if not calls:
                continue
            eff = effects.Effects(fi.node, identity_calls=IDENTITY_CALLS, summaries=summ)
            for c in calls:
                n_calls += 1
                w = kwarg(c, 'weights', 2)
                pm = kwarg(c, 'premultiplied', 3)
                weights_none = isinstance(w, ast.Constant) and w.value is None
                premult = isinstance(pm, ast.Constant) and pm.value is True
                if not weights_none or premult:
                    ctx.met('R07.2', fi.qual, src(c)[:120], c, 'constructor does not premultiply in place for this call', nontrivial=False)
                    continue
                # need a fresh coefficient array: re-evaluate roots at this point (flow-insensitive approximation: final env)
                coeffs = c.args[1] if len(c.args) > 1 else kwarg(c, 'coeffs')
                roots = eff.roots(coeffs)
                ext = {r for r in roots if r == 'self' or r.startswith('param:') or r.startswith('elem:')}
                if not ext and 'unknown' not in roots and not any(r.startswith('global:') for r in roots):
                    ctx.met('R07.2', fi.qual, src(c)[:120], c, 'premultiplying construction receives a fresh array')
                elif ext:
                    ctx.violated('R07.2', fi.qual, src(c)[:120], c,
                                 'NurbsFunc(..., weights=None, premultiplied=False) multiplies its coeffs argument in place, '
                                 'and the argument aliases %s' % sorted(ext))
                else:
                    ctx.undecided('R07.2', fi.qual, src(c)[:120], c, 'argument provenance unknown: %s' % sorted(roots))
    ctx.floor('R07.2', 'NurbsFunc construction sites', n_calls, 15)


# ------------------------------------------------------------------ R07.3
def r07_3(ctx):
    slots = {}
    coords = {}
    for name in POINTWISE:
        fi = ctx.prog.func('%s.%s' % (B, name))
        for c in ast.walk(fi.node):
            if isinstance(c, ast.Call) and call_name(c) in ('collocation_info', 'collocation_derivs_info') and len(c.args) >= 2:
                coords[name] = (src(c.args[0]), src(c.args[1]))
        for l in own_nodes(fi.node):
            if isinstance(l, ast.For) and src(l.iter) == 'range(sdim)' and src(l.target) == 'i':
                for s in l.body:
                    if isinstance(s, ast.Assign) and isinstance(s.targets[0], ast.Subscript) and isinstance(s.targets[0].slice, ast.Tuple) \
                            and src(s.targets[0].value).startswith('result'):
                        slots[name] = s.targets[0].slice.elts[-1]
    ctx.floor('R07.3', 'pointwise evaluators with collocation pairing', len(coords), 3)
    vals = set(coords.values())
    ctx.decide('R07.3', B + '.tp_bsp_*_pointwise', 'coordinate pairing ' + ' | '.join('%s,%s' % v for v in sorted(vals)),
               len(vals) == 1, ctx.prog.func(B + '.' + POINTWISE[0]).node, 'the three clones pair knot vectors and coordinates identically')
    ctx.floor('R07.3', 'derivative slot stores', len(slots), 2)
    for name, e in slots.items():
        ok = True
        for sd in (1, 2, 3):
            for i in range(sd):
                v = eval_affine(e, {'i': i, 'sdim': sd})
                # the last axis has length sdim: a negative index -1-i addresses the same slot as sdim-1-i
                if v is None:
                    ok = None if ok is not False else False
                elif not (-sd <= v < sd) or v % sd != sd - 1 - i:
                    ok = False
        ctx.decide('R07.3', '%s.%s' % (B, name), 'derivative slot ' + src(e), ok, e,
                   'grid_jacobian stacks reversed(range(sdim)): derivative w.r.t. axis i sits at sdim-1-i')
    gj = ctx.prog.func(B + '.BSplineFunc.grid_jacobian')
    loops = [l for l in own_nodes(gj.node) if isinstance(l, ast.For)]
    ok = any(src(l.iter) == 'reversed(range(self.sdim))' and any(isinstance(c, ast.Call) and src(c.func) == 'grad_components.append'
                                                                  for c in ast.walk(l)) for l in loops)
    st = [c for c in ast.walk(gj.node) if isinstance(c, ast.Call) and call_name(c) == 'np.stack']
    ok2 = bool(st) and src(kwarg(st[0], 'axis')) == '-1'
    ctx.decide('R07.3', B + '.BSplineFunc.grid_jacobian', 'components appended over reversed(range(sdim)), stacked on axis -1',
               (ok and ok2) or None, gj.node, 'x-derivative last')
    # derivative selector: ops = [(ds[j] if j == i else cs[j]) ...] / colloc[j][1 if j == i else 0]
    for q in (B + '.tp_bsp_jac_pointwise', B + '.tp_bsp_eval_with_jac_pointwise', B + '.BSplineFunc.grid_jacobian'):
        fi = ctx.prog.func(q)
        sel = [n for n in ast.walk(fi.node) if isinstance(n, ast.IfExp)]
        ok = any(src(n.test).replace(' ', '') in ('j==i', 'i==j') for n in sel)
        ctx.decide('R07.3', q, 'derivative factor selected where j == i', ok or None, fi.node, 'exactly one factor differentiated per component')


# ------------------------------------------------------------------ R07.4
def r07_4(ctx):
    f1 = ctx.prog.func(G + '._nurbs_jacobian')
    f2 = ctx.prog.func(G + '.NurbsFunc.grid_hessian')

    def defs(fn):
        return {s.targets[0].id: s.value for s in own_nodes(fn) if isinstance(s, ast.Assign)
                and len(s.targets) == 1 and isinstance(s.targets[0], ast.Name)}
    d1, d2 = defs(f1.node), defs(f2.node)
    ret = guards.returns_of(f1.node)
    if not ret:
        raise AnchorMissing('R07.4: _nurbs_jacobian has no return')
    e1 = ret[0].value
    e2 = d2.get('Njac')
    if e2 is None:
        raise AnchorMissing('R07.4: Njac not found in NurbsFunc.grid_hessian')

    def canon_slices(d, pref):
        # map local names to canonical symbols by their slicing definition
        m = {}
        for k, v in d.items():
            t = src(v).replace(' ', '')
            for base in ('val', 'jac', 'hess'):
                if t.startswith(base + '['):
                    m[k] = t
        return m
    m1, m2 = canon_slices(d1, 'a'), canon_slices(d2, 'b')

    def atom(m):
        def f(n):
            if isinstance(n, ast.Name) and n.id in m:
                return m[n.id]
            return None
        return f
    if isinstance(e2, ast.Call) and (call_name(e2) or '').split('.')[-1] == '_nurbs_jacobian':
        # the Hessian routine calls the helper instead of repeating the quotient rule: nothing to compare
        ctx.expect('R07.4', G + '.NurbsFunc.grid_hessian', e2, '_nurbs_jacobian(val, jac)', e2, 'Jacobian of the NURBS map from the shared helper',
                   label='Njac = ' + src(e2))
        delegated = True
    else:
        delegated = False
    try:
        r1 = poly.from_ast(e1, atom(m1))
        r2 = r1 if delegated else poly.from_ast(e2, atom(m2))
        ok = (r1 == r2)
        # and it is the quotient rule (V'W - V W')/W^2
        V, W, Vj, Wj = (poly.Rat(poly.Poly.sym(x)) for x in ('val[...,:-1,None]', 'val[...,-1:,None]', 'jac[...,:-1,:]', 'jac[...,-1:,:]'))
        ref = (Vj * W - V * Wj) / (W * W)
        ok_ref = (r1 == ref)
    except poly.NotPolynomial as e:
        ok = ok_ref = None
    ctx.decide('R07.4', G + '._nurbs_jacobian', src(e1), ok_ref, e1, 'equals (V\' W - V W\')/W^2 with V=val[...,:-1], W=val[...,-1:]')
    ctx.decide('R07.4', G + '.NurbsFunc.grid_hessian', 'Njac = ' + src(e2), ok, e2, 'inlined copy equals _nurbs_jacobian as a rational expression')
    # Hessian first part: Vhess/W - V*Whess/W^2
    e3 = d2.get('Nhess1')
    if e3 is not None:
        try:
            r3 = poly.from_ast(e3, atom(m2))
            Vh, Wh = (poly.Rat(poly.Poly.sym(x)) for x in ('hess[...,:-1,:]', 'hess[...,-1:,:]'))
            ok3 = (r3 == Vh / W - V * Wh / (W * W))
        except poly.NotPolynomial:
            ok3 = None
        ctx.decide('R07.4', G + '.NurbsFunc.grid_hessian', 'Nhess1 = ' + src(e3), ok3, e3, 'V\'\'/W - V W\'\'/W^2')
    # value routes divide [..., :-1] by [..., -1:]
    n = 0
    for q in (G + '.NurbsFunc.grid_eval', G + '.NurbsFunc.pointwise_eval'):
        fi = ctx.prog.func(q)
        for s in own_nodes(fi.node):
            if isinstance(s, ast.Assign) and isinstance(s.value, ast.BinOp) and isinstance(s.value.op, ast.Div):
                n += 1
                t = src(s.value).replace(' ', '')
                ok = t == 'vals[...,:-1]/vals[...,-1:]'
                ctx.decide('R07.4', q, src(s), ok, s, 'value = numerator components / weight (last component)')
    ctx.floor('R07.4', 'value quotient sites', n, 2)
    _hessian_linearisation(ctx, f2)


def _hessian_linearisation(ctx, nurbs_hess):
    """The linearised symmetric Hessian lists its components in one order at every producer: the B-spline routine
    enumerates pairs of (reversed) axes by a loop nest, the NURBS routine selects entries of a coordinate-ordered matrix by an
    index-pair generator.  Both are small finite enumerations: model them for sdim = 1, 2, 3 and compare as unordered pairs."""
    bh = ctx.prog.maybe_func(B + '._BaseSplineFunc.grid_hessian')
    if bh is None:
        cands = [f for q, f in ctx.prog.functions.items() if q.startswith(B + '.') and q.endswith('.grid_hessian')]
        if not cands:
            raise AnchorMissing('R07.4: B-spline grid_hessian not found')
        bh = cands[0]

    def range_model(it):
        """iteration order of `range(n)` / `reversed(range(n))` with n in {S, var+1}: returns (fn(env)->list) or None"""
        rev = False
        if isinstance(it, ast.Call) and call_name(it) == 'reversed' and len(it.args) == 1:
            rev, it = True, it.args[0]
        if not (isinstance(it, ast.Call) and call_name(it) == 'range' and len(it.args) == 1):
            return None
        a = it.args[0]
        t = src(a).replace(' ', '')

        def bound(env):
            if t in ('self.sdim', 'd', 'sdim'):
                return env['S']
            if isinstance(a, ast.BinOp) and isinstance(a.op, ast.Add):
                l, r = a.left, a.right
                if isinstance(r, ast.Constant) and isinstance(l, ast.Name) and l.id in env:
                    return env[l.id] + r.value
                if isinstance(l, ast.Constant) and isinstance(r, ast.Name) and r.id in env:
                    return env[r.id] + l.value
            if isinstance(a, ast.Name) and a.id in env:
                return env[a.id]
            return None

        def f(env):
            b = bound(env)
            if b is None:
                return None
            seq = list(range(b))
            return seq[::-1] if rev else seq
        return f

    loops = [s for s in own_nodes(bh.node) if isinstance(s, ast.For)]
    outer = None
    for lo in loops:
        inner = [s for s in lo.body if isinstance(s, ast.For)]
        if inner and any('i_hess' in src(x) or 'D[' in src(x) for x in ast.walk(inner[0]) if isinstance(x, (ast.Assign, ast.AugAssign))):
            outer = (lo, inner[0])
            break
    gen = [c for c in ast.walk(nurbs_hess.node) if isinstance(c, ast.Call) and (call_name(c) or '').split('.')[-1] in ('triu_indices', 'tril_indices')]
    if outer is None or not gen or not isinstance(outer[0].target, ast.Name) or not isinstance(outer[1].target, ast.Name):
        ctx.undecided('R07.4', nurbs_hess.qual, 'order of the linearised Hessian components', nurbs_hess.node, 'enumeration not recognised')
        return
    fo, fi = range_model(outer[0].iter), range_model(outer[1].iter)
    # the derivative multi-index D is indexed by AXIS (x last): axis a <-> coordinate S-1-a
    incs = [src(s.target).replace(' ', '') for s in ast.walk(outer[1]) if isinstance(s, ast.AugAssign) and src(s.target).startswith('D[')]
    vi, vj = outer[0].target.id, outer[1].target.id
    g = gen[0]
    kind = call_name(g).split('.')[-1]
    koff = 0
    if len(g.args) > 1 and isinstance(g.args[1], ast.Constant):
        koff = g.args[1].value
    for kw in g.keywords:
        if kw.arg == 'k' and isinstance(kw.value, ast.Constant):
            koff = kw.value.value
    if fo is None or fi is None or sorted(incs) != sorted(['D[%s]' % vi, 'D[%s]' % vj]):
        ctx.undecided('R07.4', nurbs_hess.qual, 'order of the linearised Hessian components', g, 'B-spline enumeration not recognised')
        return
    bad = None
    for S in (1, 2, 3):
        seq_b = []
        for i in fo({'S': S}) or []:
            for j in fi({'S': S, vi: i}) or []:
                seq_b.append(frozenset((S - 1 - i, S - 1 - j)))
        if kind == 'triu_indices':
            seq_n = [frozenset((r, c)) for r in range(S) for c in range(S) if c - r >= koff]
        else:
            seq_n = [frozenset((r, c)) for r in range(S) for c in range(S) if c - r <= koff]
        if seq_b != seq_n:
            bad = (S, seq_b, seq_n)
            break
    names = 'xyz'
    fmt = lambda seq: ', '.join(''.join(sorted(names[k] for k in p) * (2 if len(p) == 1 else 1)) for p in seq)
    ctx.decide('R07.4', nurbs_hess.qual, 'order of the linearised Hessian components agrees with the B-spline Hessian (sdim = 1, 2, 3)', bad is None, g,
               'Nhess1 (B-spline order) and the quotient-rule correction are subtracted componentwise'
               + ('' if bad is None else ': for sdim = %d the B-spline routine lists (%s) but %s selects (%s)' % (bad[0], fmt(bad[1]), kind, fmt(bad[2]))),
               definite=True)
    # weight = last component at every slicing site of NurbsFunc
    cls = ctx.prog.cls(G + '.NurbsFunc')
    k = 0
    for mname, fi in cls.methods.items():
        for s in ast.walk(fi.node):
            if isinstance(s, ast.Subscript) and isinstance(s.slice, ast.Tuple) and s.slice.elts and \
                    isinstance(s.slice.elts[0], ast.Constant) and s.slice.elts[0].value is Ellipsis and src(s.value) in ('self.coeffs', 'val', 'vals', 'jac', 'hess'):
                idx = s.slice.elts[1] if len(s.slice.elts) > 1 else None
                t = src(idx).replace(' ', '') if idx is not None else ''
                if t in (':-1', '-1:', '-1'):
                    k += 1
                elif t in ('0', '1:', ':1', '0:1'):
                    ctx.violated('R07.4', '%s.NurbsFunc.%s' % (G, mname), src(s), s, 'weight is the LAST component everywhere else')
                elif src(s.value) == 'self.coeffs' and isinstance(idx, ast.Name) and idx.id in {a.arg for a in fi.node.args.args}:
                    ctx.violated('R07.4', '%s.NurbsFunc.%s' % (G, mname), src(s), s,
                                 'the caller\'s index `%s` is applied to the component axis of the homogeneous coefficients, which still contains the '
                                 'weight as last entry: negative indices and open slices select the weight as if it were a component' % idx.id)
    ctx.met('R07.4', G + '.NurbsFunc', '%d slicing sites use the last component as weight' % k, cls.node, nontrivial=k > 0)
    ctx.floor('R07.4', 'weight slicing sites', k, 9)


# ------------------------------------------------------------------ R07.5
BD_TABLE = {'left': ('dim - 1', 0), 'right': ('dim - 1', 1), 'bottom': ('dim - 2', 0), 'top': ('dim - 2', 1),
            'front': ('dim - 3', 0), 'back': ('dim - 3', 1)}


def r07_5(ctx):
    f = ctx.prog.func(B + '._parse_bdspec')
    found = {}
    node = f.node.body[0] if f.node.body else None
    for iff in [n for n in ast.walk(f.node) if isinstance(n, ast.If)]:
        t = iff.test
        if isinstance(t, ast.Compare) and src(t.left) == 'bdspec' and isinstance(t.ops[0], ast.Eq) and isinstance(t.comparators[0], ast.Constant):
            name = t.comparators[0].value
            for s in iff.body:
                if isinstance(s, ast.Assign) and src(s.targets[0]) == 'bd' and isinstance(s.value, ast.Tuple) and len(s.value.elts) == 2:
                    found[name] = (src(s.value.elts[0]), s.value.elts[1].value if isinstance(s.value.elts[1], ast.Constant) else None, s)
    ctx.floor('R07.5', 'boundary names in _parse_bdspec', len(found), 6)
    for name, (ax, side) in BD_TABLE.items():
        if name not in found:
            ctx.violated('R07.5', B + '._parse_bdspec', 'name %r' % name, f.node, 'documented boundary name is not handled')
            continue
        fax, fside, s = found[name]
        ok = (fax.replace(' ', '') == ax.replace(' ', '') and fside == side)
        ctx.decide('R07.5', B + '._parse_bdspec', '%r -> (%s, %s)' % (name, fax, fside), ok, s,
                   'documented: left/right = x = last axis, bottom/top = y, front/back = z; side 0 = lower')
    # insertion positions in _BoundaryFunction
    ev = ctx.prog.func(G + '._BoundaryFunction.eval')
    ge = ctx.prog.func(G + '._BoundaryFunction.grid_eval')
    gj = ctx.prog.func(G + '._BoundaryFunction.grid_jacobian')

    def insert_pos(fn, seq):
        for c in ast.walk(fn):
            if isinstance(c, ast.Call) and isinstance(c.func, ast.Attribute) and c.func.attr == 'insert' and src(c.func.value) == seq:
                return c
        return None
    c = insert_pos(ev.node, 'x')
    if c is not None and c.args:
        ctx.formula('R07.5', G + '._BoundaryFunction.eval', c.args[0], 'len(x) - self.axis', c,
                    'xyz-ordered point: zyx axis a sits at position len(x)-a of the reduced point', label=src(c))
    else:
        ctx.undecided('R07.5', G + '._BoundaryFunction.eval', 'insert', ev.node, 'no insert call')
    for fn in (ge, gj):
        c = insert_pos(fn.node, 'gridaxes')
        if c is not None and c.args:
            ctx.formula('R07.5', fn.qual, c.args[0], 'self.axis', c, 'zyx-ordered grid axes: insert at the axis itself', label=src(c))
        else:
            ctx.undecided('R07.5', fn.qual, 'insert', fn.node, 'no insert call')
        sq = [x for x in ast.walk(fn.node) if isinstance(x, ast.Call) and isinstance(x.func, ast.Attribute) and x.func.attr == 'squeeze']
        ctx.decide('R07.5', fn.qual, src(sq[0]) if sq else 'squeeze', (src(sq[0].args[0]) == 'self.axis') if sq and sq[0].args else None, sq[0] if sq else fn.node,
                   'the singleton grid axis is removed again')
    for s in own_nodes(gj.node):
        if isinstance(s, ast.Assign) and src(s.targets[0]) == 'ax':
            v = s.value
            ok = True
            for sd in (1, 2, 3):
                for a in range(sd):
                    r = eval_affine(v, {})
            t = src(v).replace(' ', '')
            ok = t in ('jacs.shape[-1]-self.axis-1', 'jacs.shape[-1]-1-self.axis')
            ctx.decide('R07.5', gj.qual, src(s), ok or None, s, 'normal derivative column = sdim-1-axis')
    # boundary(): side 0 -> index 0, side 1 -> index -1 ; axis removed from kvs
    for q in (B + '.BSplineFunc.boundary', G + '.NurbsFunc.boundary'):
        fi = ctx.prog.func(q)
        t = src(fi.node)
        ok = 'slices[axis] = 0 if side == 0 else -1' in t and 'del kvs[axis]' in t
        ctx.decide('R07.5', q, 'slices[axis] = 0 if side == 0 else -1 ; del kvs[axis]', ok or None, fi.node,
                   'lower side takes the first coefficient layer, upper side the last; that knot vector is dropped')
    # side selection of the fixed coordinate
    init = ctx.prog.func(G + '._BoundaryFunction.__init__')
    t = src(init.node)
    ok = 'self.fixed_coord = lohi[0] if side == 0 else lohi[1]' in t and 'lohi = f.support[axis]' in t
    ctx.decide('R07.5', init.qual, 'fixed_coord = lohi[0] if side == 0 else lohi[1]', ok or None, init.node)
    # single-point route of _BoundaryFunction: x holds the sdim = f.sdim-1 remaining coordinates in xyz order, the fixed
    # coordinate of (zyx) axis `axis` of the parent goes to position (f.sdim-1) - axis = len(x) - axis = self.sdim - axis
    ev = ctx.prog.func(G + '._BoundaryFunction.eval')
    ins = [c for c in ast.walk(ev.node) if isinstance(c, ast.Call) and isinstance(c.func, ast.Attribute) and c.func.attr == 'insert' and len(c.args) == 2]
    red = [s for s in own_nodes(init.node) if isinstance(s, ast.Assign) and src(s.targets[0]) == 'self.sdim']
    reduced = bool(red) and src(red[0].value).replace(' ', '') in ('f.sdim-1', '-1+f.sdim')
    if not ins:
        ctx.undecided('R07.5', ev.qual, 'position of the fixed coordinate', ev.node, 'no insert() call')
    else:
        pos = src(ins[0].args[0])
        norm = pos.replace('len(x)', 'SDIM')
        if reduced:
            norm = norm.replace('self.sdim', 'SDIM').replace('self.f.sdim', '(SDIM + 1)')
        ctx.formula('R07.5', ev.qual, norm, 'SDIM - self.axis', ins[0],
                    'the fixed coordinate is inserted at xyz position len(x) - axis (len(x) = self.sdim = parent.sdim - 1); any other position '
                    'evaluates the parent at permuted coordinates while grid_eval stays correct', label='position of the fixed coordinate: ' + pos)
        ctx.expect('R07.5', ev.qual, ins[0].args[1], 'self.fixed_coord', ins[0], 'inserted value is the fixed boundary coordinate', label='inserted value: ' + src(ins[0].args[1]))


# ------------------------------------------------------------------ R07.6
ARCS = {'circular_arc_3pt': 3, 'circular_arc_5pt': 5, 'circular_arc_7pt': 7}


def r07_6(ctx):
    for name, k in ARCS.items():
        fi = ctx.prog.func('%s.%s' % (G, name))
        q = fi.qual
        mk = [c for c in ast.walk(fi.node) if isinstance(c, ast.Call) and call_name(c) == 'bspline.make_knots']
        ls = [c for c in ast.walk(fi.node) if isinstance(c, ast.Call) and call_name(c) == 'np.linspace']
        cs = [c for c in ast.walk(fi.node) if isinstance(c, ast.Call) and call_name(c) == 'np.cos' and 'alpha' in src(c)]
        if not (mk and ls):
            raise AnchorMissing('R07.6: %s lacks make_knots/linspace' % name)
        spans = src(mk[0].args[3]) if len(mk[0].args) > 3 else None
        mult = kwarg(mk[0], 'mult', 4)
        deg = src(mk[0].args[0])
        ctx.decide('R07.6', q, 'degree %s, %s spans' % (deg, spans), deg == '2' and spans == str((k - 1) // 2), mk[0],
                   '%d control points of degree 2 need (k-1)/2 = %d spans' % (k, (k - 1) // 2))
        if k > 3:
            ctx.decide('R07.6', q, 'interior multiplicity %s' % src(mult), src(mult) == '2', mk[0], 'C0 joints between the conic segments')
        npts = src(ls[0].args[2]) if len(ls[0].args) > 2 else None
        ok_ls = src(ls[0].args[0]) == '0' and src(ls[0].args[1]) == 'alpha' and npts == str(k)
        ctx.decide('R07.6', q, src(ls[0]), ok_ls, ls[0], 'control polygon angles 0..alpha in %d points' % k)
        if cs:
            ctx.formula('R07.6', q, cs[0].args[0], 'alpha / %d' % (k - 1), cs[0],
                        'inner weight is cos of half the segment angle = alpha/(k-1)', label='weight ' + src(cs[0]))
        # the corner weights, read through local temporaries, depend on the angle: a weight that does not mention alpha is
        # the weight of ONE particular angle
        wl0 = [s_ for s_ in own_nodes(fi.node) if isinstance(s_, ast.Assign) and src(s_.targets[0]) == 'W']
        if wl0:
            wv = wl0[0].value
            if isinstance(wv, ast.Call) and wv.args:
                wv = wv.args[0]
            if isinstance(wv, (ast.List, ast.Tuple)) and len(wv.elts) == k:
                for i in range(1, k, 2):
                    e = resolve.expand(wv.elts[i], wl0[0])
                    names = {x.id for x in ast.walk(e) if isinstance(x, ast.Name)}
                    if 'alpha' not in names:
                        ctx.violated('R07.6', q, 'corner weight %d: %s' % (i, src(e)), wl0[0],
                                     'the weight of the corner control points does not depend on the angle alpha: it is cos(alpha/%d) only for one '
                                     'particular angle; for every other angle the rational segments are not arcs of the circle' % (k - 1))
                        break
                else:
                    ctx.met('R07.6', q, 'corner weights depend on alpha', wl0[0], 'weights are functions of the requested angle')
        nf = [c for c in ast.walk(fi.node) if isinstance(c, ast.Call) and call_name(c) == 'NurbsFunc']
        pm = kwarg(nf[0], 'premultiplied', 3) if nf else None
        ctx.decide('R07.6', q, 'premultiplied=%s' % src(pm), isinstance(pm, ast.Constant) and pm.value is True, nf[0] if nf else fi.node,
                   'unit-circle points times r are the weighted (premultiplied) control points')
        # weight list alternates 1, w, 1, ...
        wl = [s.value for s in own_nodes(fi.node) if isinstance(s, ast.Assign) and src(s.targets[0]) == 'W']
        if wl:
            w = wl[0]
            if isinstance(w, ast.Call) and w.args:
                w = w.args[0]
            if isinstance(w, (ast.List, ast.Tuple)):
                pat = [src(x) for x in w.elts]
                ok = len(pat) == k and all((float(p) == 1.0) if i % 2 == 0 else (p in ('w',) or p.startswith('np.cos')) for i, p in enumerate(pat)
                                           if (i % 2 == 1) or p.replace('.', '').isdigit())
                ctx.decide('R07.6', q, 'W = ' + src(w), ok, w, 'weights 1 at on-circle points, cos at corner points')
    # dispatch covers (0, 2pi] without gap/overlap and each branch's weight is positive on its range
    f = ctx.prog.func(G + '.circular_arc')
    branches = []
    node = None
    for s in f.node.body:
        if isinstance(s, ast.If):
            node = s
    cur = node
    while isinstance(cur, ast.If):
        callee = None
        for c in ast.walk(ast.Module(cur.body, [])):
            if isinstance(c, ast.Call) and (call_name(c) or '').startswith('circular_arc_'):
                callee = call_name(c)
        branches.append((cur.test, callee, cur))
        cur = cur.orelse[0] if len(cur.orelse) == 1 and isinstance(cur.orelse[0], ast.If) else None
    ctx.floor('R07.6', 'dispatch branches in circular_arc', len(branches), 2)
    # interpret tests of the form  lo <|<= alpha <|<= hi  with lo/hi in {0, pi, 2pi}
    import math
    consts = {'0.0': 0.0, '0': 0.0, 'np.pi': math.pi, '2 * np.pi': 2 * math.pi, 'np.pi * 2': 2 * math.pi, 'np.pi / 2': math.pi / 2}
    ivs = []
    for test, callee, n in branches:
        if isinstance(test, ast.Compare) and len(test.ops) == 2 and src(test.comparators[0]) == 'alpha' \
                and src(test.left) in consts and src(test.comparators[1]) in consts:
            lo, hi = consts[src(test.left)], consts[src(test.comparators[1])]
            lo_c = isinstance(test.ops[0], ast.LtE)
            hi_c = isinstance(test.ops[1], ast.LtE)
            ivs.append((lo, lo_c, hi, hi_c, callee, n))
        else:
            ctx.undecided('R07.6', f.qual, src(test), n, 'dispatch test shape not recognised')
    if len(ivs) == len(branches):
        ivs.sort(key=lambda x: x[0])
        ok = ivs[0][0] == 0.0 and not ivs[0][1] and ivs[-1][2] == 2 * math.pi and ivs[-1][3]
        for a, b in zip(ivs, ivs[1:]):
            if a[2] != b[0] or (a[3] == b[1]):
                ok = False
        ctx.decide('R07.6', f.qual, ' ; '.join(src(t[5].test) for t in ivs), ok, node,
                   'branches tile (0, 2pi] exactly: no gap, no overlap')
        for lo, lo_c, hi, hi_c, callee, n in ivs:
            k = ARCS.get((callee or '').split('.')[-1])
            if k is None:
                ctx.undecided('R07.6', f.qual, 'branch -> %s' % callee, n, 'unknown constructor')
                continue
            # weight cos(alpha/(k-1)) > 0  <=>  alpha < (k-1)*pi/2 ; need it on the whole branch range
            sup = hi
            pos = (sup / (k - 1)) < math.pi / 2 or ((sup / (k - 1)) == math.pi / 2 and not hi_c)
            ctx.decide('R07.6', f.qual, '%s on %s' % (callee, src(n.test)), pos, n,
                       'inner weight cos(alpha/%d) must stay positive on the whole branch' % (k - 1))


def r07_8(ctx):
    """A BSplineFunc with a support override returns the generic restricted boundary function for EVERY side: the plain
    coefficient slice has the full knot-vector support, so it is right only when no direction is restricted."""
    f = ctx.prog.func(B + '.BSplineFunc.boundary')
    iff = [s_ for s_ in own_nodes(f.node) if isinstance(s_, ast.If) and 'self._support_override' in src(s_.test)]
    if not iff:
        ctx.undecided('R07.8', f.qual, 'support override branch', f.node, 'not recognised')
        return
    top = iff[0]
    uncond = bool(top.body) and any(isinstance(s_, ast.Return) and '_BaseGeoFunc.boundary' in src(s_) for s_ in top.body) \
        and src(top.test).replace(' ', '') in ('self._support_override', 'self._support_overrideisnotNone')
    nested = [s_ for s_ in ast.walk(top) if isinstance(s_, ast.If) and s_ is not top]
    ctx.decide('R07.8', f.qual, src(top).split('\n')[0], True if uncond else (False if nested else None), top,
               'every side of a function with restricted support goes through the generic boundary function' if uncond else
               'with a support override the generic boundary is returned only under a further condition; otherwise the coefficient slice is '
               'used, whose support is the full knot-vector support: a restriction in a tangential direction is dropped (image and bounding box '
               'of the unrestricted side)', definite=True)


def r07_9(ctx):
    """The evaluators return floating-point values whatever the dtype of the control points: a result buffer allocated with
    dtype=<coefficients>.dtype truncates values / derivatives of a spline with integer control points when they are stored,
    while the sibling evaluators of the same object (which build their result by arithmetic) return exact floats."""
    n = 0
    for fi in ctx.prog.funcs_in(B, include_nested=False):
        for c in ast.walk(fi.node):
            if isinstance(c, ast.Call) and call_name(c) in ('np.empty', 'np.zeros', 'np.full', 'np.empty_like', 'np.zeros_like'):
                dt = kwarg(c, 'dtype', 99)
                if dt is None:
                    continue
                t = src(dt).replace(' ', '')
                if t.endswith('coeffs.dtype') or t.endswith('.coeffs.dtype'):
                    n += 1
                    ctx.violated('R07.9', fi.qual, src(c)[:90], c,
                                 'the result buffer inherits the dtype of the control points: for an integer coefficient array the computed '
                                 '(floating point) values are truncated toward zero when stored -- grid_hessian of integer control points gives '
                                 '[27 15 4 26 ...] where the exact second derivatives are [27. 15.75 4.5 27. ...], while grid_eval and '
                                 'grid_jacobian of the same object are exact')
    if n == 0:
        ctx.met('R07.9', B, 'no evaluator buffer takes the coefficient dtype', None, 'results are float (or promoted by arithmetic)', where='pyiga/bspline.py')



def r07_10(ctx):
    """A UserFunction hands the coordinates to the user's callable in the order it receives them, on every evaluation route:
    eval(*x) and pointwise_eval(points) -> eval(*points).  (The zyx reversal belongs to the spline evaluators, whose knot vectors are stored
    last-axis-first; a callable f(x, y) has no such storage order.)"""
    f = ctx.prog.maybe_func('pyiga.geometry.UserFunction.pointwise_eval')
    if f is None:
        ctx.undecided('R07.10', 'pyiga.geometry.UserFunction.pointwise_eval', 'definition', None, 'not found')
        return
    rets = guards.returns_of(f.node)
    rev = []
    for n in ast.walk(f.node):
        if isinstance(n, ast.Subscript) and isinstance(n.value, ast.Name) and n.value.id == 'points':
            t = src(n.slice).replace(' ', '')
            if '-1-' in t or t.startswith('-') or '::-1' in t or ('sdim' in t and '-' in t):
                rev.append(n)
        if isinstance(n, ast.Call) and call_name(n) == 'reversed' and n.args and 'points' in src(n.args[0]):
            rev.append(n)
    if rev:
        ctx.violated('R07.10', f.qual, src(rev[0])[:70], rev[0],
                     'the scattered-point route reverses the coordinates before calling the user function: f is called as f(z, y, x) while '
                     'eval / grid_eval call it as f(x, y, z) -- pointwise evaluation and ComposedFunction(F, geo) disagree with single-point evaluation')
    else:
        direct = any(isinstance(r.value, ast.Call) and any(isinstance(a, ast.Starred) and src(a.value) == 'points' for a in r.value.args) for r in rets)
        ctx.decide('R07.10', f.qual, 'coordinates passed on as given', True if direct else None, f.node)


def run(ctx):
    r07_10(ctx)
    r07_9(ctx)
    r07_8(ctx)
    r07_1(ctx)
    r07_7(ctx)
    r07_2(ctx)
    r07_3(ctx)
    r07_4(ctx)
    r07_5(ctx)
    r07_6(ctx)

"""C04 -- hierarchical spaces stay well-formed under every refinement history (structural clauses)."""
import ast
import re

from sa.program import src, own_nodes, call_name, parent, kwarg, AnchorMissing, enclosing_function
from sa import guards, effects, resolve

EXPLANATION = (
    "Static rules over pyiga/hierarchical.py (and clients): (R04.1) container-kind taint: the values of the caller's `marked` dict "
    "(documented as lists) reach set operators / set-only methods only after a set() conversion; (R04.2) who may write the state: "
    "in-place writers of hmesh.active/deactivated/meshes/P and actfun/deactfun (through any alias) are exactly the constructors, "
    "init_from_kvs, add_level/_add_level, HMesh.refine, HSpace.refine and get_virtual_space on a deep copy; results of the getters "
    "that hand out internal sets are never mutated by package code; (R04.3) refinement pairing: a refined cell leaves active[lv], "
    "enters deactivated[lv] and its children enter active[lv+1] unconditionally in one block; deactivated functions move from "
    "actfun to deactfun; activation is filtered by support containment; (R04.4) every HSpace method that writes state reaches "
    "_clear_cache() after its last write; (R04.5) set-typed state reaches numbering only through sorted(); (R04.6) disparity-"
    "preserving marking only runs for finite disparity, stops below level 0, and recurses on exactly the level whose marks it "
    "has just extended (level expressions compared as affine forms), is started on every level, and every non-empty neighbourhood "
    "is intersected with the active cells of its level; (R04.7) refine() works on its own copy of the caller's marks on every "
    "path (the getters hand out the internal sets); (R04.8 = R05.6) structure of the truncation.")
DOES_NOT_DECIDE = "tiling, linear independence, partition of unity, mutual inverse of HB<->THB (facts about runtime sets)"
TECHNIQUE = "custom AST rules: container-kind taint, alias/effect analysis for state ownership, statement pairing, must-reach (cache invalidation), order provenance"

H = 'pyiga.hierarchical'
STATE_ATTRS = ('actfun', 'deactfun', 'active', 'deactivated', 'meshes', 'P')
SET_OPS = (ast.BitOr, ast.BitAnd, ast.Sub, ast.BitXor)
SET_ONLY_METHODS = {'union', 'intersection', 'difference', 'issubset', 'issuperset', 'symmetric_difference', 'isdisjoint'}


# ------------------------------------------------------------------ R04.1
def is_marked_value(e):
    """marked.get(...) / marked[...]  (an element of the caller's container)."""
    if isinstance(e, ast.Call) and isinstance(e.func, ast.Attribute) and e.func.attr == 'get' and src(e.func.value) == 'marked':
        return True
    if isinstance(e, ast.Subscript) and src(e.value) == 'marked' and isinstance(e.ctx, ast.Load):
        return True
    return False


def sanitised_in(fn, before_line=None):
    """`marked` is rebound to a dict whose values are set(...) (dict comprehension or loop)."""
    for s in own_nodes(fn):
        if isinstance(s, ast.Assign) and any(src(t) == 'marked' for t in s.targets):
            if before_line is not None and s.lineno > before_line:
                continue
            v = s.value
            if isinstance(v, ast.DictComp) and isinstance(v.value, ast.Call) and call_name(v.value) in ('set', 'frozenset'):
                return s
    return None


def r04_1(ctx):
    cls = ctx.prog.cls(H + '.HSpace')
    hm = ctx.prog.cls(H + '.HMesh')
    n = 0
    for c in (cls, hm):
        for mname, m in sorted(c.methods.items()):
            params = [a.arg for a in m.node.args.args]
            if 'marked' not in params:
                continue
            sinks = []
            for x in ast.walk(m.node):
                if isinstance(x, ast.BinOp) and isinstance(x.op, SET_OPS):
                    for side in (x.left, x.right):
                        if is_marked_value(side):
                            sinks.append((x, side, 'operator %s' % type(x.op).__name__))
                if isinstance(x, ast.AugAssign) and isinstance(x.op, SET_OPS) and is_marked_value(x.value):
                    sinks.append((x, x.value, 'augmented set operator'))
                if isinstance(x, ast.Call) and isinstance(x.func, ast.Attribute) and x.func.attr in SET_ONLY_METHODS and is_marked_value(x.func.value):
                    sinks.append((x, x.func.value, 'set method ' + x.func.attr))
            for (node, val, what) in sinks:
                n += 1
                # sanitised locally, or in every external caller before the call
                ok_local = sanitised_in(m.node, node.lineno) is not None
                callers = []
                for mm in c.methods.values():
                    for call in ast.walk(mm.node):
                        if isinstance(call, ast.Call) and src(call.func) == 'self.' + mname and mm is not m:
                            callers.append((mm, call))
                ok_callers = bool(callers) and all(sanitised_in(mm.node, call.lineno) is not None for mm, call in callers) and mname.startswith('_')
                if ok_local or ok_callers:
                    ctx.met('R04.1', m.qual, src(node), node, 'values of `marked` were converted with set() %s' % ('here' if ok_local else 'in every caller (%s)' % ', '.join(mm.name for mm, _ in callers)))
                else:
                    ctx.violated('R04.1', m.qual, src(node), node,
                                 '%s on an element of the caller-supplied `marked` dict (documented as a list of cells) without a set() '
                                 'conversion: TypeError for list/tuple marks (reached for finite disparity)' % what)
            # conversions that are fine: set(marked.get(..)), iteration
    # positive control
    ctrl = ast.parse("def f(self, l, marked):\n    marked[l] = marked.get(l, set()) | nb").body[0]
    if not any(isinstance(x, ast.BinOp) and is_marked_value(x.left) for x in ast.walk(ctrl)):
        raise AnchorMissing('R04.1: positive control did not match')
    ctx.floor('R04.1', 'set-operator uses of caller-supplied containers', n, 1)
    # the safe conversions in HMesh.refine
    r = ctx.prog.func(H + '.HMesh.refine')
    conv = [s for s in own_nodes(r.node) if isinstance(s, ast.Assign) and src(s.targets[0]) == 'cells']
    ok = bool(conv) and src(conv[0].value).replace(' ', '') == 'set(marked.get(lv,[]))'
    ctx.decide('R04.1', r.qual, src(conv[0]) if conv else 'cells', ok or None, conv[0] if conv else r.node, 'marks of one level converted to a set before use')


# ------------------------------------------------------------------ R04.2
ALLOWED_WRITERS = {
    H + '.HMesh.__init__', H + '.HMesh.init_from_kvs', H + '.HMesh.add_level', H + '.HMesh.refine',
    H + '.HSpace.__init__', H + '.HSpace.init_from_kvs', H + '.HSpace._add_level', H + '.HSpace.refine',
}
FRESH_LOCAL_WRITERS = {H + '.HSpace.get_virtual_space': 'out'}     # writes through a deep copy
GETTERS = ('active_cells', 'active_functions', 'deactivated_cells')
STATE_RE = re.compile(r'(^|\.)(actfun|deactfun)\b|hmesh\.(active|deactivated|meshes|P)\b|^self\.(active|deactivated|meshes|P)\b|^out\.(active|deactivated|meshes|P)\b')


def r04_2(ctx):
    n_writes = 0
    writers = set()
    for unit in ctx.prog.units.values():
        if not unit.modname.startswith('pyiga') or unit.lang != 'py':
            continue
        for fi in ctx.prog.funcs_in(unit.modname, include_nested=True):
            eff = effects.Effects(fi.node)
            # names bound to getter results (escaped internal sets)
            escaped = set()
            for s in own_nodes(fi.node):
                if isinstance(s, ast.Assign) and isinstance(s.value, ast.Call) and isinstance(s.value.func, ast.Attribute) \
                        and s.value.func.attr in GETTERS and s.value.args:
                    for t in s.targets:
                        if isinstance(t, ast.Name):
                            escaped.add(t.id)
            for w in eff.writes:
                tgt = w['target']
                base = w['base']
                btxt = src(base) if base is not None else tgt
                if w['kind'].endswith(':attr'):
                    btxt = tgt          # attribute rebinding: the attribute itself is the state
                is_state = bool(STATE_RE.search(btxt)) and (unit.modname == H or 'hs.' in btxt or 'hspace' in btxt or 'hmesh' in btxt)
                if unit.modname != H and not ('actfun' in btxt or 'deactfun' in btxt or 'hmesh.' in btxt):
                    is_state = False
                if isinstance(base, ast.Name) and base.id in escaped and w['kind'] not in ('assign:attr',):
                    ctx.violated('R04.2', fi.qual, src(w['node']), w['node'],
                                 'mutates the internal set handed out by %s()' % '/'.join(GETTERS))
                    n_writes += 1
                    continue
                if not is_state:
                    continue
                if w['kind'] == 'augassign:name':
                    continue
                # class scope: only HMesh/HSpace state
                if fi.cls is not None and fi.cls.name not in ('HMesh', 'HSpace') and 'self.' in btxt:
                    continue
                n_writes += 1
                q = fi.qual
                if q in ALLOWED_WRITERS:
                    writers.add(q)
                    ctx.met('R04.2', q, src(w['node'])[:100], w['node'], 'designated state writer', nontrivial=False)
                elif q in FRESH_LOCAL_WRITERS and btxt.startswith(FRESH_LOCAL_WRITERS[q] + '.'):
                    root = eff.roots(ast.Name(FRESH_LOCAL_WRITERS[q], ast.Load()))
                    cp = [s for s in own_nodes(fi.node) if isinstance(s, ast.Assign) and src(s.targets[0]) == FRESH_LOCAL_WRITERS[q]]
                    ok = bool(cp) and src(cp[0].value) == 'self.copy()'
                    ctx.decide('R04.2', q, src(w['node'])[:100], ok, w['node'], 'writes go to `out = self.copy()` (deepcopy), not to self')
                else:
                    ctx.violated('R04.2', q, src(w['node'])[:100], w['node'],
                                 'in-place write to hierarchical state (%s) outside the designated writers' % btxt)
    ctx.floor('R04.2', 'writes to hierarchical state', n_writes, 15)
    ctx.floor('R04.2', 'designated writer functions seen', len(writers), 6)
    cp = ctx.prog.func(H + '.HSpace.copy')
    ok = src(guards.returns_of(cp.node)[-1].value) == 'copy.deepcopy(self)'
    ctx.decide('R04.2', cp.qual, 'copy() is a deep copy', ok, cp.node, 'virtual spaces must not share sets with the original')


# ------------------------------------------------------------------ R04.3
def _level_offset(sub, at, v):
    """integer k such that the subscript expression denotes level v + k (locals with a straight-line definition are expanded),
    else None"""
    from sa import affine
    try:
        e = resolve.expand(sub, at)
        lin = affine.from_ast(e)
        d = lin - affine.from_ast(ast.Name(id=v, ctx=ast.Load()))
        if not d.symbols():
            return int(d.k)
    except Exception:
        return None
    return None


def _level_updates(body, v, attr_prefix):
    """[(offset, op class, statement)] for the unconditional statements `self.<attr>[level] op= ...` of a loop body"""
    out = []
    for s_ in body:
        tgt = op = None
        if isinstance(s_, ast.AugAssign) and isinstance(s_.target, ast.Subscript) and src(s_.target.value) == attr_prefix:
            tgt, op = s_.target, type(s_.op)
        elif isinstance(s_, ast.Expr) and isinstance(s_.value, ast.Call) and isinstance(s_.value.func, ast.Attribute) \
                and isinstance(s_.value.func.value, ast.Subscript) and src(s_.value.func.value.value) == attr_prefix \
                and s_.value.func.attr in ('update', 'difference_update'):
            tgt, op = s_.value.func.value, (ast.BitOr if s_.value.func.attr == 'update' else ast.Sub)
        if tgt is not None:
            out.append((_level_offset(tgt.slice, s_, v), op, s_))
    return out


def r04_3(ctx):
    r = ctx.prog.func(H + '.HMesh.refine')
    loop = [l for l in own_nodes(r.node) if isinstance(l, ast.For) and 'range(len(self.meshes) - 1)' in src(l.iter)]
    if not loop:
        # the level loop written differently: the loop that updates self.active
        loop = [l for l in own_nodes(r.node) if isinstance(l, ast.For) and guards.in_loop(l, r.node) is None
                and any(isinstance(s, ast.AugAssign) and src(s.target).startswith('self.active[') for s in ast.walk(l))]
    if not loop:
        raise AnchorMissing('R04.3: level loop of HMesh.refine')
    body = loop[0].body
    texts = [src(s).replace(' ', '') for s in body]
    # semantic form of the pairing (independent of the names of the locals): unconditional updates, by target and operator
    lv = src(loop[0].target)
    pairs = (('self.active[%s]' % lv, ast.Sub, 'refined cells leave the active set of their level'),
             ('self.deactivated[%s]' % lv, ast.BitOr, 'and enter the deactivated set of the same level'),
             ('self.active[%s+1]' % lv, ast.BitOr, 'their children become active on the next level'))
    vals = {}
    all_sem = False
    if isinstance(loop[0].target, ast.Name):
        ua = _level_updates(body, lv, 'self.active')
        ud = _level_updates(body, lv, 'self.deactivated')
        for (k0, op0, s0) in ua:
            if k0 is None or op0 is not ast.Sub or not isinstance(s0, ast.AugAssign):
                continue
            d_ = [s1 for (k1, op1, s1) in ud if k1 == k0 and op1 is ast.BitOr and isinstance(s1, ast.AugAssign)]
            c_ = [s2 for (k2, op2, s2) in ua if k2 == k0 + 1 and op2 is ast.BitOr and isinstance(s2, ast.AugAssign)]
            if d_ and c_:
                vals = {pairs[0][0]: s0, pairs[1][0]: d_[0], pairs[2][0]: c_[0]}
                all_sem = True
                lv = src(s0.target.slice)
                break
    if all_sem:
        a, d, c = (vals[p[0]] for p in pairs)
        same = src(a.value) == src(d.value)
        ctx.decide('R04.3', r.qual, 'cells removed from active[%s] are the cells added to deactivated[%s]' % (lv, lv), same or None, a,
                   'one set of refined cells on both sides (%s / %s)' % (src(a.value), src(d.value)))
        kids = any(isinstance(x, ast.Call) and src(x.func).endswith('cell_children') for x in ast.walk(c.value)) or \
            any(isinstance(x, ast.Name) and any(isinstance(s, ast.Assign) and any(isinstance(t, ast.Name) and t.id == x.id for t in s.targets)
                                                 and 'cell_children' in src(s.value) for s in body) for x in ast.walk(c.value)) or \
            'new_cells' in src(c.value)
        ctx.decide('R04.3', r.qual, 'cells added to active[%s+1] are the children of the refined cells' % lv, kids or None, c, src(c.value)[:80])
        # the children handed back to the caller (new_cells[lv+1]) are the set that became active
        nc = [s_ for s_ in body if isinstance(s_, ast.Assign) and isinstance(s_.targets[0], ast.Subscript) and src(s_.targets[0].value) == 'new_cells']
        if nc:
            from sa import resolve as _resolve
            v1 = src(_resolve.expand(nc[0].value, nc[0], keep=('new_cells', 'cells'))).replace(' ', '')
            v2 = src(_resolve.expand(c.value, c, keep=('new_cells', 'cells'))).replace(' ', '')
            ctx.decide('R04.3', r.qual, '%s holds the children that become active' % src(nc[0].targets[0]),
                       True if ('cell_children' in v1 and (v1 in v2 or 'new_cells[' in v2)) else None, nc[0], '%s / %s' % (v1[:60], v2[:60]))
    if all_sem:
        # the semantic obligations above stand in for the textual table below (which is kept for loops written differently)
        cc = ctx.prog.func(H + '.HMesh.cell_children')
        t = src(cc.node).replace(' ', '')
        ctx.decide('R04.3', cc.qual, 'children of cell c: product of range(2*ci, 2*(ci+1))', 'range(2*ci,2*(ci+1))' in t or None, cc.node, 'dyadic refinement: 2^d children')
        cp = ctx.prog.func(H + '.HMesh.cell_parent')
        ctx.decide('R04.3', cp.qual, 'parent: ci // 2', 'ci//2' in src(cp.node).replace(' ', '') or None, cp.node)
        _r04_3_hspace(ctx)
        return
    need = {
        'self.active[lv]-=cells': 'refined cells leave the active set of their level',
        'self.deactivated[lv]|=cells': 'and enter the deactivated set of the same level',
        'new_cells[lv+1]=self.cell_children(lv,cells)': 'their children are computed',
        'self.active[lv+1]|=set(new_cells[lv+1])': 'and become active on the next level',
    }
    alt = {'self.deactivated[lv]|=cells': ['self.deactivated[lv].update(cells)'], 'self.active[lv]-=cells': ['self.active[lv].difference_update(cells)'],
           'self.active[lv+1]|=set(new_cells[lv+1])': ['self.active[lv+1].update(new_cells[lv+1])', 'self.active[lv+1]|=set(self.cell_children(lv,cells))']}
    for k, why in need.items():
        present = k in texts or any(a in texts for a in alt.get(k, []))
        if present:
            ctx.met('R04.3', r.qual, k, loop[0], why + ' (unconditional statement of the level loop)')
        else:
            # a conditional or missing counterpart is a definite break of the pairing
            anywhere = any(k in src(x).replace(' ', '') for x in ast.walk(loop[0]) if isinstance(x, ast.stmt))
            ctx.violated('R04.3', r.qual, k, loop[0], why + (': present only conditionally' if anywhere else ': statement missing from the level loop'))
    cc = ctx.prog.func(H + '.HMesh.cell_children')
    t = src(cc.node).replace(' ', '')
    ctx.decide('R04.3', cc.qual, 'children of cell c: product of range(2*ci, 2*(ci+1))', 'range(2*ci,2*(ci+1))' in t or None, cc.node, 'dyadic refinement: 2^d children')
    cp = ctx.prog.func(H + '.HMesh.cell_parent')
    ctx.decide('R04.3', cp.qual, 'parent: ci // 2', 'ci//2' in src(cp.node).replace(' ', '') or None, cp.node)
    _r04_3_hspace(ctx)


def _r04_3_hspace(ctx):
    hr = ctx.prog.func(H + '.HSpace.refine')
    loop = [l for l in own_nodes(hr.node) if isinstance(l, ast.For) and 'range(len(self.hmesh.meshes) - 1)' in src(l.iter)]
    if not loop:
        loop = [l for l in own_nodes(hr.node) if isinstance(l, ast.For) and guards.in_loop(l, hr.node) is None
                and any(isinstance(s, ast.AugAssign) and src(s.target).startswith('self.actfun[') for s in ast.walk(l))]
    if not loop:
        raise AnchorMissing('R04.3: level loop of HSpace.refine')
    texts = [src(s).replace(' ', '') for s in loop[0].body]
    # the pairing read through the level offsets of the subscripts (whatever the loop variable and the locals are called)
    by_offset = {}
    if isinstance(loop[0].target, ast.Name):
        v_ = loop[0].target.id
        ua = _level_updates(loop[0].body, v_, 'self.actfun')
        ud = _level_updates(loop[0].body, v_, 'self.deactfun')
        for (k0, op0, s0) in ua:
            if k0 is not None and op0 is ast.Sub:
                if any(k1 == k0 and op1 is ast.BitOr for (k1, op1, _s) in ud) and any(k2 == k0 + 1 and op2 is ast.BitOr for (k2, op2, _s) in ua):
                    by_offset = {'self.actfun[lv]-=mfuncs': s0,
                                 'self.deactfun[lv]|=mfuncs': [s1 for (k1, op1, s1) in ud if k1 == k0 and op1 is ast.BitOr][0],
                                 'self.actfun[lv+1]|=newfuncs': [s2 for (k2, op2, s2) in ua if k2 == k0 + 1 and op2 is ast.BitOr][0]}
    for k, why in {'self.actfun[lv]-=mfuncs': 'deactivated functions leave actfun', 'self.deactfun[lv]|=mfuncs': 'and enter deactfun',
                   'self.actfun[lv+1]|=newfuncs': 'new functions are activated on the finer level'}.items():
        present = k in texts or k.replace('|=', '.update(').replace('-=', '.difference_update(') + ')' in texts
        if present:
            ctx.met('R04.3', hr.qual, k, loop[0], why)
            continue
        if k in by_offset:
            ctx.met('R04.3', hr.qual, k, by_offset[k], why + ' (as `%s`)' % src(by_offset[k])[:70])
            continue
        # the same update with another right-hand side (a helper call, a renamed local): look at the target and the operator
        tgt = k.split('|=')[0].split('-=')[0]
        op = ast.BitOr if '|=' in k else ast.Sub
        meth = 'update' if '|=' in k else 'difference_update'
        top = [s for s in loop[0].body if (isinstance(s, ast.AugAssign) and src(s.target).replace(' ', '') == tgt and isinstance(s.op, op))
               or (isinstance(s, ast.Expr) and isinstance(s.value, ast.Call) and src(s.value.func).replace(' ', '') == tgt + '.' + meth)]
        nested = [s for s in ast.walk(loop[0]) if isinstance(s, ast.AugAssign) and src(s.target).replace(' ', '') == tgt and isinstance(s.op, op)]
        if top:
            ctx.met('R04.3', hr.qual, k, top[0], why + ' (as `%s`)' % src(top[0])[:70])
        elif nested:
            ctx.violated('R04.3', hr.qual, k, nested[0], why + ': the update is present only conditionally')
        else:
            writes = [s for s in ast.walk(loop[0]) if isinstance(s, (ast.Assign, ast.AugAssign)) and tgt in src(s).replace(' ', '')]
            if writes:
                ctx.undecided('R04.3', hr.qual, k, writes[0], why + ': written in another form')
            else:
                ctx.violated('R04.3', hr.qual, k, loop[0], why + ': no statement of the level loop updates ' + tgt)
    nf = [s for s in loop[0].body if isinstance(s, ast.Assign) and src(s.targets[0]) == 'newfuncs']
    ok = bool(nf) and src(nf[0].value).replace(' ', '') == 'set((fforfincandidate_funcsifmsh.support([f]).issubset(fine_cells)))'
    ctx.decide('R04.3', hr.qual, src(nf[0])[:120] if nf else 'newfuncs', ok or None, nf[0] if nf else loop[0], 'activation filtered by support inside the refined region')
    fc = [s for s in loop[0].body if isinstance(s, ast.Assign) and src(s.targets[0]) == 'fine_cells']
    ok = bool(fc) and src(fc[0].value).replace(' ', '') == 'self.hmesh.active[lv+1]|self.hmesh.deactivated[lv+1]'
    ctx.decide('R04.3', hr.qual, src(fc[0]) if fc else 'fine_cells', ok or None, fc[0] if fc else loop[0], 'refinement region of level lv+1 = active + deactivated cells')
    fd = ctx.prog.func(H + '.HSpace._functions_to_deactivate')
    t = src(fd.node).replace(' ', '')
    ok = 'mfuncs=self.mesh(lv).supported_in(m)&self.actfun[lv]' in t and 'ifnotself.mesh(lv).support([f])&self.hmesh.active[lv]' in t
    ctx.decide('R04.3', fd.qual, 'deactivate active functions with no active cell of their level left in the support', ok or None, fd.node)
    order = [src(s).replace(' ', '')[:40] for s in hr.node.body]
    i_h = [i for i, s in enumerate(order) if s.startswith('new_cells=self.hmesh.refine(marked)')]
    i_f = [i for i, s in enumerate(order) if s.startswith('mf=self._functions_to_deactivate(marked)')]
    ctx.decide('R04.3', hr.qual, 'mesh refined before functions are classified', bool(i_h and i_f) and i_h[0] < i_f[0], hr.node,
               '_functions_to_deactivate reads the updated active cells')


# ------------------------------------------------------------------ R04.4
def r04_4(ctx):
    cls = ctx.prog.cls(H + '.HSpace')
    n = 0
    for mname, m in sorted(cls.methods.items()):
        if mname in ('__init__', '_clear_cache'):
            continue
        writes = []
        for s in own_nodes(m.node):
            t = None
            if isinstance(s, ast.AugAssign):
                t = src(s.target)
            elif isinstance(s, ast.Assign):
                t = src(s.targets[0])
            elif isinstance(s, ast.Expr) and isinstance(s.value, ast.Call) and isinstance(s.value.func, ast.Attribute) and \
                    s.value.func.attr in effects.MUTATING_METHODS | {'add_level', 'refine'}:
                t = src(s.value.func.value) + '.' + s.value.func.attr
            if t and re.match(r'self\.(actfun|deactfun|hmesh)\b', t) and not t.startswith('self.hmesh.meshes['):
                if isinstance(s, ast.Assign) and isinstance(s.value, ast.Call) and src(s.value.func) == 'self.hmesh.refine':
                    pass
                writes.append(s)
            if isinstance(s, ast.Assign) and isinstance(s.value, ast.Call) and src(s.value.func) == 'self.hmesh.refine':
                writes.append(s)
        if not writes:
            continue
        n += 1
        last = max(writes, key=lambda s: s.lineno)
        # statements after the last write (in the function's top-level flow) must reach _clear_cache()
        top = last
        while parent(top) is not m.node:
            top = parent(top)
        idx = m.node.body.index(top)
        rest = m.node.body[idx:]

        def is_clear(s):
            return isinstance(s, ast.Expr) and isinstance(s.value, ast.Call) and src(s.value.func) == 'self._clear_cache'
        ok = guards.stmt_list_reaches_call(rest, is_clear)
        if ok:
            ctx.met('R04.4', m.qual, 'state written (last: %s) then _clear_cache()' % src(last)[:50], last, 'cached index tables are invalidated')
        else:
            # callers-only exception: private helper whose every caller clears afterwards
            callers = [mm for mm in cls.methods.values() if mm is not m and any(
                isinstance(c, ast.Call) and src(c.func) == 'self.' + mname for c in ast.walk(mm.node))]
            trans = []
            for mm in callers:
                trans.append(mm)
            ok2 = mname.startswith('_') and bool(callers) and all(
                any(is_clear(s) for s in own_nodes(mm.node)) or _callers_clear(cls, mm, is_clear) for mm in callers)
            if ok2:
                ctx.met('R04.4', m.qual, 'private writer; every caller clears the cache', last,
                        'callers: ' + ', '.join(mm.name for mm in callers), nontrivial=False)
            else:
                ctx.violated('R04.4', m.qual, 'state written (last: %s) without _clear_cache()' % src(last)[:50], last,
                             'index_dirichlet / ravel_global caches would describe the space before the change')
    ctx.floor('R04.4', 'state-writing HSpace methods', n, 2)
    cc = ctx.prog.func(H + '.HSpace._clear_cache')
    fields = sorted(src(s.targets[0]) for s in own_nodes(cc.node) if isinstance(s, ast.Assign))
    getters = sorted({a.attr for m in cls.methods.values() for a in ast.walk(m.node)
                      if isinstance(a, ast.Attribute) and a.attr.startswith('__') and not a.attr.endswith('__') and src(a.value) == 'self'})
    ctx.decide('R04.4', cc.qual, 'clears %s; cached fields in use: %s' % (fields, getters),
               set('self.' + g for g in getters) <= set(fields), cc.node,
               'every private cache field is reset by _clear_cache (a field that is only initialised in __init__ keeps describing the '
               'space before the refinement: stale Dirichlet / global index lists)', definite=True)


def _callers_clear(cls, m, is_clear, seen=None):
    """Every public entry point that reaches the private method ``m`` clears the cache
    (itself or through a callee)."""
    seen = seen or set()
    if m.name in seen:
        return True
    seen = seen | {m.name}

    def calls(mm, name):
        return any(isinstance(c, ast.Call) and src(c.func) == 'self.' + name for c in ast.walk(mm.node))

    def clears(mm, depth=0):
        if any(is_clear(s) for s in own_nodes(mm.node)):
            return True
        if depth > 3:
            return False
        return any(calls(mm, other.name) and clears(other, depth + 1) for other in cls.methods.values() if other is not mm)
    callers = [mm for mm in cls.methods.values() if mm is not m and calls(mm, m.name)]
    if not callers or not m.name.startswith('_'):
        return False
    for mm in callers:
        if clears(mm):
            continue
        if mm.name.startswith('_') and _callers_clear(cls, mm, is_clear, seen):
            continue
        return False
    return True


# ------------------------------------------------------------------ R04.5
def r04_5(ctx):
    cls = ctx.prog.cls(H + '.HSpace')
    ri = cls.methods['ravel_indices']
    t = src(ri.node).replace(' ', '')
    ok = 'indices=[sorted(ix)ifisinstance(ix,set)elseixforixinindices]' in t
    ctx.decide('R04.5', ri.qual, 'sets are sorted before raveling', ok, ri.node, 'canonical (lexicographic) order within a level')
    for name, frag in (('active_cells', 'foracinsorted(self.active_cells(l))'), ('active_functions', 'forafinsorted(self.actfun[l])')):
        m = cls.methods[name]
        ctx.decide('R04.5', m.qual, 'flat listing iterates sorted(...)', frag in src(m.node).replace(' ', ''), m.node, 'canonical order of the flat listing')
    gi = cls.methods['global_indices']
    t = src(gi.node).replace(' ', '')
    ok = 'sorted(self.actfun[i])+sorted(self.deactfun[i])' in t and 'indices[i]=sorted(self.actfun[i])' in t
    ctx.decide('R04.5', gi.qual, 'global indices sorted per level (active, then deactivated on the finest virtual level)', ok, gi.node)
    im = cls.methods['incidence_matrix']
    t = src(im.node).replace(' ', '')
    ok = 'utils.BijectiveIndex(sorted(self.hmesh.active[k])+sorted(self.hmesh.deactivated[k]))' in t and 'enumerate(sorted(self.actfun[k]))' in t
    ctx.decide('R04.5', im.qual, 'cell and function numbering from sorted sets', ok, im.node)
    # generic sink check: np.array / enumerate / ravel_multi_index directly on set-typed state
    n = 0
    for mname, m in cls.methods.items():
        for c in ast.walk(m.node):
            if isinstance(c, ast.Call) and call_name(c) in ('np.array', 'enumerate', 'np.ravel_multi_index', 'np.fromiter') and c.args:
                a = src(c.args[0])
                if re.match(r'^self\.(actfun|deactfun)\[[^\]]+\]$', a) or re.match(r'^self\.hmesh\.(active|deactivated)\[[^\]]+\]$', a):
                    n += 1
                    ctx.violated('R04.5', m.qual, src(c), c, 'a set reaches a numbering sink without sorted(): order depends on hashing')
    ctx.met('R04.5', cls.qual, 'no set-typed state passed directly to np.array/enumerate/ravel_multi_index (%d violations)' % n, cls.node, nontrivial=False)


# ------------------------------------------------------------------ R04.6
def r04_6(ctx):
    hr = ctx.prog.func(H + '.HSpace.refine')
    calls = [c for c in ast.walk(hr.node) if isinstance(c, ast.Call) and src(c.func) == 'self._mark_recursive']
    ctx.floor('R04.6', '_mark_recursive calls in refine', len(calls), 1)
    for c in calls:
        facts = guards.path_conditions(c)
        ok = any(t.replace(' ', '') == 'self.disparity<np.inf' and pol for (t, pol, _n) in facts)
        ctx.decide('R04.6', hr.qual, src(c) + ' under self.disparity < np.inf', ok, c, 'l - inf is not a level')
        cp = [s for s in guards.preceding_statements(c) if isinstance(s, ast.Assign) and src(s.targets[0]) == 'marked']
        ctx.decide('R04.6', hr.qual, 'caller\'s dict is not modified: ' + (src(cp[0])[:70] if cp else 'no copy'), bool(cp), c,
                   '`marked` is rebound to a new dict before marks are added')
    # the marking closure is started on EVERY level: _mark_recursive(l) only visits l, l-d, l-2d, ... (it recurses on
    # l - disparity, checked below), and it stops as soon as one neighbourhood is empty, so marks the caller put on other
    # levels are closed only if each level is a starting point
    for c in calls:
        lp = guards.in_loop(c, hr.node)
        q = parent(c)
        in_comp = False
        while q is not None and q is not hr.node:
            if isinstance(q, (ast.ListComp, ast.GeneratorExp, ast.SetComp, ast.DictComp)):
                in_comp = True
            q = parent(q)
        if in_comp or isinstance(lp, ast.While):
            ctx.undecided('R04.6', hr.qual, 'marking closure started on every level', c, 'iteration form not recognised')
            continue
        if lp is None or not isinstance(lp, ast.For):
            ctx.violated('R04.6', hr.qual, 'marking closure started on every level', c,
                         '`%s` is called once, not for every level: the recursion steps down by the disparity and stops at the first empty '
                         'neighbourhood, so marks on the levels it does not visit are never closed (level disparity violated for marks on several '
                         'levels in one call)' % src(c)[:70])
            continue
        it = src(lp.iter).replace(' ', '')
        all_levels = it in ('range(self.numlevels)', 'reversed(range(self.numlevels))', 'range(len(self.hmesh.meshes))',
                            'range(self.numlevels-1,-1,-1)')
        first_arg = c.args[0] if c.args else None
        uses_var = isinstance(first_arg, ast.Name) and isinstance(lp.target, ast.Name) and first_arg.id == lp.target.id
        ctx.decide('R04.6', hr.qual, 'marking closure started on every level: for %s in %s' % (src(lp.target), src(lp.iter)),
                   True if (all_levels and uses_var) else None, lp, 'each level is a starting point of the recursive marking')
    cn = ctx.prog.func(H + '.HSpace._cell_neighborhood')
    # every non-empty neighbourhood is a set of ACTIVE cells of level l - disparity: HMesh.refine re-activates the children
    # of whatever it is given, so a mark on a cell that is already refined (or was never created) puts cells back that are
    # deactivated -- the tiling is covered twice
    for r in guards.returns_of(cn.node):
        if r.value is None or src(r.value) in ('set()',):
            continue
        from sa import resolve as _resolve
        rv = _resolve.expand(r.value, r)       # locals with a straight-line definition are read as their definitions
        acts = [x for x in ast.walk(rv) if isinstance(x, ast.Subscript) and src(x.value) == 'self.hmesh.active']
        conds = ' and '.join(('' if p else 'not ') + t for (t, p, _n) in guards.path_conditions(r)) or 'always'
        if not acts and any(isinstance(x, ast.Name) and x.id not in ('set', 'l', 'cells', 'truncate', 'self') for x in ast.walk(rv)):
            ctx.undecided('R04.6', cn.qual, 'neighbourhood under (%s) is restricted to active cells' % conds, r,
                          'the returned value is built from locals without a straight-line definition')
        elif not acts:
            ctx.violated('R04.6', cn.qual, 'neighbourhood under (%s) is restricted to active cells' % conds, r,
                         '`%s` is not intersected with self.hmesh.active[l - disparity]: the marking hands HMesh.refine cells that are already '
                         'refined, whose children are then activated a second time' % src(r)[:90])
        else:
            ctx.formula('R04.6', cn.qual, src(acts[0].slice).replace('k', '(l - self.disparity)') if src(acts[0].slice) == 'k' else acts[0].slice,
                        'l - self.disparity', r, 'active cells of the level the neighbourhood lives on',
                        label='neighbourhood under (%s) is restricted to the active cells of level %s' % (conds, src(acts[0].slice)))
    first = cn.node.body[0]
    # semantic: the guard must be equivalent to  l - disparity <= -1  (affine comparison)
    ok = None
    if isinstance(first, ast.If) and isinstance(first.test, ast.Compare) and src(first.body[0]) == 'return set()':
        from sa import affine
        cs = affine.compare_to_constraints(first.test)
        if cs is not None and len(cs) == 1:
            want = affine.Lin({'self.disparity': 1, 'l': -1}, -1)       # disparity - l - 1 >= 0
            got = cs[0]
            if got.symbols() <= {'self.disparity', 'l'}:
                ok = (got == want)
    ctx.decide('R04.6', cn.qual, 'if %s: return set()' % (src(first.test) if isinstance(first, ast.If) else '?'), ok, first,
               'recursion stops exactly below level 0: guard equivalent to l - disparity < 0', definite=True)
    mr = ctx.prog.func(H + '.HSpace._mark_recursive')
    rec = [c for c in ast.walk(mr.node) if isinstance(c, ast.Call) and src(c.func) == 'self._mark_recursive']
    ok = bool(rec) and src(rec[0].args[0]).replace(' ', '') == 'l-self.disparity' and guards.has_literal(guards.path_conditions(rec[0]), 'neighbors', True)
    ctx.decide('R04.6', mr.qual, src(rec[0]) if rec else 'recursion', ok, rec[0] if rec else mr.node, 'recurse to level l - disparity only when new neighbours were marked')
    # semantic: the recursion continues on the level whose marks were just extended (marked[L] = ... ; recurse(L))
    ext = [s for s in own_nodes(mr.node) if isinstance(s, (ast.Assign, ast.AugAssign))
           and isinstance((s.targets[0] if isinstance(s, ast.Assign) else s.target), ast.Subscript)
           and src((s.targets[0] if isinstance(s, ast.Assign) else s.target).value) == 'marked']
    if rec and ext:
        from sa import affine
        tgt = ext[0].targets[0] if isinstance(ext[0], ast.Assign) else ext[0].target
        try:
            L_ext = affine.from_ast(tgt.slice)
            L_rec = affine.from_ast(rec[0].args[0])
            ctx.decide('R04.6', mr.qual, 'marks extended on level %r, recursion on level %r' % (L_ext, L_rec), L_ext == L_rec, rec[0],
                       'the closure of the marking must propagate from the level that just received new marks; recursing elsewhere cuts the '
                       'propagation off after one step (level disparity is then violated for disparity >= 2)', definite=True)
        except affine.NonAffine:
            ctx.undecided('R04.6', mr.qual, 'recursion level', rec[0], 'level expressions not affine')
    ctx.note_precedence = None
    ss = ctx.prog.func(H + '.HSpace.spans_same_space_as')
    for iff in [s for s in ast.walk(ss.node) if isinstance(s, ast.If)]:
        t = iff.test
        if isinstance(t, ast.BoolOp) and isinstance(t.op, ast.And) and isinstance(t.values[0], ast.UnaryOp) and isinstance(t.values[0].op, ast.Not):
            ctx.note('%s:%d spans_same_space_as: `%s` parses as (not A) and B -- spaces with equal actfun but different deactfun compare equal '
                     '(cross-reference, outside the statement of C04)' % (ss.unit.rel, iff.lineno, src(t)))


def r04_7(ctx):
    """Ownership of the caller's containers.  active_cells(lv) / deactivated_cells(lv) hand out the internal sets, and the
    documentation of refine() invites `hs.refine({lv: hs.active_cells(lv)})`.  HMesh.refine removes the refined cells from
    those very sets, so HSpace.refine must work on its own copy of `marked` on EVERY path before the first state write --
    otherwise the marks are emptied under its feet and _functions_to_deactivate sees none."""
    rf = ctx.prog.func(H + '.HSpace.refine')
    getters = []
    for name in ('active_cells', 'deactivated_cells', 'active_functions', 'deactivated_functions'):
        g = ctx.prog.maybe_func(H + '.HSpace.' + name)
        if g is None:
            continue
        for r in guards.returns_of(g.node):
            t = src(r.value).replace(' ', '') if r.value is not None else ''
            if t.startswith('self.hmesh.active[') or t.startswith('self.hmesh.deactivated[') or t.startswith('self.actfun[') or t.startswith('self.deactfun['):
                getters.append((name, t))
    writes = [c for c in own_nodes(rf.node) if isinstance(c, ast.Call) and src(c.func) in ('self.hmesh.refine',)]
    if not writes:
        ctx.undecided('R04.7', rf.qual, 'copy of the caller\'s marks before the first state write', rf.node, 'state-writing call not recognised')
        return
    first = min(writes, key=lambda c: c.lineno)
    cp = sanitised_in(rf.node, first.lineno)
    if not getters:
        ctx.met('R04.7', rf.qual, 'no getter hands out an internal set', rf.node, nontrivial=False)
        return
    if cp is None:
        ctx.violated('R04.7', rf.qual, 'copy of the caller\'s marks before the first state write', first,
                     '`marked` reaches self.hmesh.refine() without being copied, but %s returns the internal set %s: refining the cells it '
                     'returns empties the marks while they are processed' % (getters[0][0], getters[0][1]))
        return
    conds = guards.path_conditions(cp, stop=rf.node)
    if conds:
        ctx.violated('R04.7', rf.qual, 'copy of the caller\'s marks before the first state write', cp,
                     'the copy `%s` is made only under `%s`; on the other path `marked` may alias the internal set returned by %s(lv) (%s), which '
                     'HMesh.refine empties (self.active[lv] -= cells) before _functions_to_deactivate reads the marks: refine({0: hs.active_cells(0)}) '
                     'with infinite disparity deactivates no function' % (src(cp)[:60], ' and '.join(t for (t, _p, _n) in conds), getters[0][0], getters[0][1]))
    else:
        ctx.met('R04.7', rf.qual, 'copy of the caller\'s marks before the first state write', cp, 'unconditional copy into fresh sets')


def r04_9(ctx):
    """A function of level l+1 is activated iff its support lies in the level-(l+1) REGION, the union of the active and the
    deactivated cells of that level.  The activation filter of HSpace.refine is a containment test (issubset / <=) against a
    set built from both self.hmesh.active[lv+1] and self.hmesh.deactivated[lv+1]; a test built from the cells of level lv alone
    (e.g. "support avoids the children of still-active coarse cells") forgets the regions of all coarser levels."""
    hr = ctx.prog.func(H + '.HSpace.refine')
    nf = [s_ for s_ in own_nodes(hr.node) if isinstance(s_, ast.Assign) and len(s_.targets) == 1 and src(s_.targets[0]) == 'newfuncs']
    adds = [s_ for s_ in own_nodes(hr.node) if isinstance(s_, ast.Expr) and isinstance(s_.value, ast.Call) and src(s_.value.func) == 'newfuncs.add']
    site = None
    test = None
    for s_ in nf:
        for comp in [x for x in ast.walk(s_.value) if isinstance(x, (ast.GeneratorExp, ast.SetComp, ast.ListComp))]:
            for g in comp.generators:
                if g.ifs:
                    site, test = s_, g.ifs[0]
    for a_ in adds:
        facts = guards.path_conditions(a_)
        if facts:
            site, test = a_, facts[-1][2] if False else facts[0][2]
    if site is None or test is None:
        ctx.undecided('R04.9', hr.qual, 'activation filter', hr.node, 'not recognised')
        return
    e = resolve.expand(test, site)
    t = src(e).replace(' ', '')
    region = 'self.hmesh.active[lv+1]' in t and 'self.hmesh.deactivated[lv+1]' in t
    contain = '.issubset(' in t or '<=' in t or '.issuperset(' in t or '>=' in t
    ctx.decide('R04.9', hr.qual, src(test)[:100], True if (region and contain) else (False if not region else None), site,
               'support contained in active[lv+1] | deactivated[lv+1]' if region and contain else
               'the activation test `%s` is not built from the region of level lv+1 (active and deactivated cells of that level): functions '
               'whose support sticks out of the level-(lv+1) region are activated (three levels, region of level l+1 touching the rim of '
               'the region of level l: incidence_matrix() raises, the HB basis becomes linearly dependent)' % src(e)[:120], definite=True)



def r04_10(ctx):
    """The marking mode of HSpace.refine / refine_region is the caller's explicit choice with default False (HB neighbourhoods, which bound
    the supports of the hierarchical B-splines): it is not taken from the space's evaluation flag `self.truncate`.  With T-neighbourhoods as
    the default of a truncate=True space, an active function of level k is nonzero on active cells of level k+d+1 after default refinement."""
    n = 0
    for name in ('refine', 'refine_region'):
        f = ctx.prog.maybe_func(H + '.HSpace.' + name)
        if f is None:
            continue
        a = f.node.args
        pos = a.posonlyargs + a.args
        dflt = {x.arg: d for x, d in zip(pos[::-1], a.defaults[::-1])}
        if 'truncate' not in dflt:
            continue
        n += 1
        d = dflt['truncate']
        from_self = [s for s in ast.walk(f.node) if isinstance(s, (ast.Assign, ast.IfExp, ast.BoolOp)) and 'self.truncate' in src(s)
                     and (not isinstance(s, ast.Assign) or any(isinstance(t, ast.Name) and t.id == 'truncate' for t in s.targets))]
        if from_self:
            ctx.violated('R04.10', f.qual, src(from_self[0])[:80], from_self[0],
                         'the marking mode defaults to the evaluation flag of the space: a THB space with finite disparity is refined with the '
                         'T-neighbourhood, which bounds only the truncated supports -- the disparity clause (no active function of level k on an '
                         'active cell of level k+d+1) fails after default refine() calls')
        else:
            ok = isinstance(d, ast.Constant) and d.value is False
            ctx.decide('R04.10', f.qual, 'truncate=%s' % src(d), True if ok else None, f.node, 'HB neighbourhoods unless the caller asks otherwise')
    ctx.floor('R04.10', 'refinement entry points with a marking mode', n, 1)


def run(ctx):
    r04_10(ctx)
    r04_9(ctx)
    # R04.8 = R05.6: structure of the truncation (HB <-> THB transforms and represent_fine are observed by this property)
    import rules.C05 as c05
    ctx.shared(c05.r05_6, 'R05.6', 'R04.8')
    r04_7(ctx)
    r04_1(ctx)
    r04_2(ctx)
    r04_3(ctx)
    r04_4(ctx)
    r04_5(ctx)
    r04_6(ctx)

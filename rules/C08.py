"""C08 -- assembly independent of symmetry flag, format, layout, subset, threads (structural clauses)."""
import ast
import re

from sa.program import src, own_nodes, call_name, parent, kwarg, AnchorMissing, enclosing_function
from sa import guards, exprmodel, resolve

EXPLANATION = (
    "Static rules over assemble.py, the generic assembly infrastructure (genericasm.pxi lowered through assemble_tools_cy.pyx), the "
    "generator template and vform.py: (R08.1) parallel write discipline: in every prange body and every closure handed to the "
    "thread pool, stores go only to slots indexed by the region's own iteration variable (or, in the symmetric kernel, to its image "
    "under the transposition index, written only by the lower-triangular owner because the early return/continue for diag > 0 "
    "dominates every store); no augmented assignment to shared storage; both chunk_tasks() of one map use the same chunk count; the "
    "commented-out prange of ml_matvec (y[I] += ...) is the negative control; (R08.2) the three symmetric paths mirror with swapped "
    "coordinates, exclude the diagonal and transpose component blocks; (R08.3) option forwarding along the assembly call chains: a "
    "callee parameter named like a caller parameter receives that parameter (frozen exceptions with reasons); (R08.4) update == "
    "fresh construction: update() writes the slice and source expression that __init__ uses, and no variable depending on an "
    "updatable input is precomputed; (R08.5) decision-table completeness of assemble_entries_vec over (layout, format, dim): "
    "the layout permutation precedes every exit of the multi-level path.")
DOES_NOT_DECIDE = "equality of the assembled operators to rounding; OpenMP runtime behaviour beyond the write discipline"
TECHNIQUE = "custom AST rules on Python + lowered Cython: parallel-region store classification, guard dominance, mirror comparison, parameter forwarding, emitted-code agreement"

A = 'pyiga.assemble'
AT = 'pyiga.assemble_tools_cy'
CG = 'pyiga.codegen.cython'
VF = 'pyiga.vform'
ML = 'pyiga.mlmatrix_cy'


# ------------------------------------------------------------------ R08.1
def is_prange(loop):
    return isinstance(loop, ast.For) and isinstance(loop.iter, ast.Call) and call_name(loop.iter) in ('prange', 'cython.parallel.prange')


def stores_in(body_nodes):
    for s in body_nodes:
        for n in ast.walk(s):
            if isinstance(n, ast.Assign):
                for t in n.targets:
                    for x in (t.elts if isinstance(t, ast.Tuple) else [t]):
                        if isinstance(x, ast.Subscript):
                            yield n, x, 'store'
            elif isinstance(n, ast.AugAssign) and isinstance(n.target, ast.Subscript):
                yield n, n.target, 'augmented'


def r08_1(ctx):
    n_regions = 0
    # (a) prange loops in all Cython units
    for unit in ctx.prog.units.values():
        if unit.lang != 'cy':
            continue
        for fi in [f for f in ctx.prog.functions.values() if f.unit is unit]:
            for loop in [l for l in own_nodes(fi.node) if is_prange(l)]:
                n_regions += 1
                var = src(loop.target)
                decls = getattr(fi.node, '_decls', {})
                # variables assigned inside the body are thread-private in Cython's prange
                private = {var}
                for n in ast.walk(loop):
                    if isinstance(n, ast.Assign):
                        for t in n.targets:
                            for x in (t.elts if isinstance(t, ast.Tuple) else [t]):
                                if isinstance(x, ast.Name):
                                    private.add(x.id)
                    if isinstance(n, ast.For) and isinstance(n.target, ast.Name):
                        private.add(n.target.id)
                any_store = False
                for stmt, target, kind in stores_in(loop.body):
                    any_store = True
                    idx = target.slice.elts if isinstance(target.slice, ast.Tuple) else [target.slice]
                    first = src(idx[0])
                    st = '%s in prange(%s)' % (src(stmt)[:90], var)
                    if first == var:
                        ctx.met('R08.1', fi.qual, st, stmt, 'slot owned by iteration %s' % var)
                    else:
                        ctx.violated('R08.1', fi.qual, st, stmt,
                                     'store to shared storage not indexed by the prange variable %s: two iterations can write the same slot' % var)
                # calls inside the prange body: kernel functions that receive the iteration variable
                for c in [c for s in loop.body for c in ast.walk(s) if isinstance(c, ast.Call) and isinstance(c.func, ast.Name)]:
                    callee = ctx.prog.maybe_func('%s.%s' % (unit.modname, c.func.id))
                    if callee is not None and var in [src(a) for a in c.args]:
                        pidx = [src(a) for a in c.args].index(var)
                        pname = callee.node.args.args[pidx].arg
                        check_kernel_stores(ctx, callee, pname, fi, var)
                        any_store = True
                if not any_store:
                    ctx.undecided('R08.1', fi.qual, 'prange(%s) without recognised stores' % var, loop, 'nothing to classify')
    # (b) thread-pool closures
    unit = ctx.prog.unit(AT)
    n_cl = 0
    for fi in [f for f in ctx.prog.functions.values() if f.unit is unit and f.outer is not None and f.name == 'asm_chunk']:
        n_cl += 1
        n_regions += 1
        outer = fi.outer
        maps = [c for c in ast.walk(outer.node) if isinstance(c, ast.Call) and isinstance(c.func, ast.Attribute) and c.func.attr == 'map'
                and c.args and src(c.args[0]) == fi.name]
        if not maps:
            ctx.undecided('R08.1', fi.qual, 'closure not passed to map()', fi.node, '')
            continue
        m = maps[0]
        feeds = m.args[1:]
        cts = [f for f in feeds if isinstance(f, ast.Call) and call_name(f) == 'chunk_tasks']
        counts = {src(f.args[1]) for f in cts if len(f.args) > 1}
        ok = len(cts) == len(feeds) == 2 and len(counts) == 1
        ctx.decide('R08.1', outer.qual, src(m)[:130], ok, m, 'index chunks and output chunks are cut with the same chunk count, so chunk k of the output belongs to chunk k of the indices')
        # equal lengths: result allocated with idx_arr.shape[0]
        alloc = [s for s in own_nodes(outer.node) if isinstance(s, ast.Assign) and src(s.targets[0]) == '_result']
        ok = bool(alloc) and 'idx_arr.shape[0]' in src(alloc[0].value)
        ctx.decide('R08.1', outer.qual, src(alloc[0]) if alloc else '_result', ok, alloc[0] if alloc else outer.node, 'output has one slot (block) per requested index')
        # the closure only writes through its own out chunk
        calls = [c for c in ast.walk(fi.node) if isinstance(c, ast.Call) and isinstance(c.func, ast.Attribute) and c.func.attr.endswith('_chunk')]
        ok = bool(calls) and [src(a) for a in calls[0].args] == ['idxchunk_', 'out_']
        ctx.decide('R08.1', fi.qual, src(calls[0]) if calls else 'chunk call', ok, calls[0] if calls else fi.node, 'each task writes only its own output chunk')
        ws = [s for s in own_nodes(fi.node) if isinstance(s, (ast.AugAssign,)) or (isinstance(s, ast.Assign) and any(isinstance(t, ast.Subscript) for t in s.targets))]
        ctx.decide('R08.1', fi.qual, 'no direct store in the closure', not ws, fi.node)
    ctx.floor('R08.1', 'thread-pool closures', n_cl, 6)
    # chunk workers write out[k] for their own k
    for fi in [f for f in ctx.prog.functions.values() if f.unit is unit and f.name in ('multi_entries_chunk', 'multi_blocks_chunk')]:
        calls = [c for c in ast.walk(fi.node) if isinstance(c, ast.Call) and isinstance(c.func, ast.Attribute) and c.func.attr == 'entry_impl']
        loop = [l for l in own_nodes(fi.node) if isinstance(l, ast.For)]
        ok = bool(calls and loop) and src(calls[0].args[2]).replace(' ', '') in ('__addr(out[k])', '__addr(out[k,0,0])') and src(loop[0].target) == 'k'
        ctx.decide('R08.1', fi.qual, src(calls[0].args[2]) if calls else 'entry_impl', ok, calls[0] if calls else fi.node, 'entry k of the chunk goes to slot k of the chunk\'s output')
    ctx.floor('R08.1', 'parallel regions', n_regions, 11)
    # negative control: the disabled prange in ml_matvec_* would violate the discipline
    for name in ('ml_matvec_2d', 'ml_matvec_3d'):
        fi = ctx.prog.func('%s.%s' % (ML, name))
        aug = [s for s in own_nodes(fi.node) if isinstance(s, ast.AugAssign) and isinstance(s.target, ast.Subscript)]
        outer = [l for l in own_nodes(fi.node) if isinstance(l, ast.For) and guards.in_loop(l, fi.node) is None]
        if not aug or not outer:
            raise AnchorMissing('R08.1: control construct in ' + name)
        var = src(outer[0].target)
        first = src(aug[0].target.slice.elts[0] if isinstance(aug[0].target.slice, ast.Tuple) else aug[0].target.slice)
        would_fire = first != var
        ctx.decide('R08.1', fi.qual, 'control: %s is NOT indexed by the outer variable %s' % (src(aug[0].target), var), would_fire, aug[0],
                   'the classifier must recognise this reduction as unsafe (which is why its loop is serial)')
        ctx.decide('R08.1', fi.qual, 'outer loop is serial: for %s in %s' % (var, src(outer[0].iter)), not is_prange(outer[0]), outer[0],
                   'y[I] += ... is a cross-iteration reduction; running it under prange would race')


def check_kernel_stores(ctx, callee, pname, caller, var):
    """Stores in a kernel that receives the prange variable as ``pname``."""
    fn = callee.node
    # local alias:  mu0 = _mu0
    alias = {pname}
    for s in own_nodes(fn):
        if isinstance(s, ast.Assign) and isinstance(s.value, ast.Name) and s.value.id in alias and isinstance(s.targets[0], ast.Name):
            alias.add(s.targets[0].id)
    for stmt, target, kind in stores_in(fn.body):
        base = src(target.value)
        decls = getattr(fn, '_decls', {})
        ct = decls.get(base)
        if ct is not None and ct.dims and not ct.mv_rank and base not in [a.arg for a in fn.args.args]:
            continue        # function-local fixed array (i[], j[])
        idx = target.slice.elts if isinstance(target.slice, ast.Tuple) else [target.slice]
        first = src(idx[0])
        st = '%s in %s (prange %s of %s)' % (src(stmt)[:100], callee.name, var, caller.name)
        if first in alias:
            if kind == 'augmented':
                ctx.met('R08.1', callee.qual, st, stmt, 'augmented store to the iteration\'s own slot')
            else:
                ctx.met('R08.1', callee.qual, st, stmt, 'slot owned by this iteration')
        elif re.match(r'^transp\d\[(%s)\]$' % '|'.join(alias), first):
            # mirrored store: allowed only if (1) under `symmetric` and (2) the owner is unique: an early
            # return/continue for diag > 0 dominates the store
            facts = guards.dominating_facts(stmt)
            sym = guards.has_literal(facts, 'symmetric', True)
            offdiag = any('diag' in t and '!= 0' in t and pol for (t, pol, _n) in facts)
            early = [n for n in own_nodes(fn) if isinstance(n, ast.If) and 'diag' in src(n.test) and '> 0' in src(n.test)
                     and any(isinstance(b, (ast.Return, ast.Continue)) for b in n.body)]
            ok = sym and offdiag and bool(early)
            ctx.decide('R08.1', callee.qual, st, ok, stmt,
                       'mirror slot transp[mu]: written only by the lower-triangular owner (upper blocks return/continue early: %d guards), '
                       'only off the diagonal, only when symmetric' % len(early))
        else:
            ctx.violated('R08.1', callee.qual, st, stmt, 'store to shared storage whose first index is not the region\'s own variable')


# ------------------------------------------------------------------ R08.2
def r08_2(ctx):
    ae = ctx.prog.func(A + '.assemble_entries')
    t = src(ae.node).replace(' ', '')
    ok = 'IJ=S.nonzero(lower_tri=symmetric)' in t
    ctx.decide('R08.2', ae.qual, 'IJ = S.nonzero(lower_tri=symmetric)', ok, ae.node, 'only the lower triangle is computed when symmetric')
    up = [s for s in own_nodes(ae.node) if isinstance(s, ast.Assign) and src(s.targets[0]) == 'A_upper']
    if not up:
        raise AnchorMissing('R08.2: mirrored part in assemble_entries')
    u = src(up[0].value).replace(' ', '')
    ok = 'coo_matrix((entries[off_diag],(J[off_diag],I[off_diag])),shape=S.shape)' in u
    bad = '(I[off_diag],J[off_diag])' in u
    ctx.decide('R08.2', ae.qual, src(up[0])[:130], True if ok else (False if bad else None), up[0], 'mirror: same values at swapped coordinates')
    od = [s for s in own_nodes(ae.node) if isinstance(s, ast.Assign) and src(s.targets[0]) == 'off_diag']
    o = src(od[0].value).replace(' ', '') if od else ''
    ok = o in ('np.nonzero(I!=J)[0]', 'np.flatnonzero(I!=J)', 'np.where(I!=J)[0]')
    ctx.decide('R08.2', ae.qual, src(od[0]) if od else 'off_diag', ok or None, od[0] if od else ae.node, 'diagonal entries are not mirrored (they would be doubled)')
    ctx.decide('R08.2', ae.qual, 'mirroring under `if symmetric`', guards.has_literal(guards.path_conditions(up[0]), 'symmetric', True), up[0])
    # bsr path
    av = ctx.prog.func(A + '.assemble_entries_vec')
    t = src(av.node).replace(' ', '')
    ok = '_coo_to_csr_indices((J[off_diag],I[off_diag]),S_base.shape)' in t and 'blocks_T=np.swapaxes(blocks[off_diag][permut],-1,-2)' in t
    ctx.decide('R08.2', av.qual, 'bsr: swapped block coordinates and transposed blocks', ok or None, av.node, 'mirror of a block is the transposed block at the transposed position')
    ok = "assertnc[0]==nc[1],'matrixwithnonsymmetricblocksizecannotbesymmetric'" in t
    ctx.decide('R08.2', av.qual, 'symmetric requires square component blocks', ok or None, av.node)
    # generic kernel (one per dimension)
    for d in (1, 2, 3):
        k = ctx.prog.func('%s._asm_core_vec_%dd_kernel' % (AT, d))
        st = [s for s in own_nodes(k.node) if isinstance(s, ast.Assign) and src(s.targets[0]).startswith('entries[transp')]
        if not st:
            raise AnchorMissing('R08.2: mirrored store in the %dD kernel' % d)
        lhs = src(st[0].targets[0]).replace(' ', '')
        rhs = src(st[0].value).replace(' ', '')
        mus = ','.join('mu%d' % i for i in range(d))
        trs = ','.join('transp%d[mu%d]' % (i, i) for i in range(d))
        ok = lhs == 'entries[%s,col*numcomp[0]+row]' % trs and rhs == 'entries[%s,row*numcomp[0]+col]' % mus
        ctx.decide('R08.2', k.qual, '%s = %s' % (lhs, rhs), ok or None, st[0], 'component block transposed into the mirrored slot (square blocks: symmetric => numcomp[0]==numcomp[1])')
        facts = guards.dominating_facts(st[0])
        off = any(('!= 0' in t_) and pol for (t_, pol, _n) in facts)
        ctx.decide('R08.2', k.qual, 'mirror only off the diagonal', off, st[0], 'diag != 0 for at least one level')
    g = ctx.prog.func(ML + '.get_transpose_idx_for_bidx')
    t = src(g.node).replace(' ', '')
    ok = 'jidict[j,i]=k' in t.replace('(j,i)', 'j,i') and 'transpose_bidx[k]=jidict[tuple(bidx[k])]' in t
    ctx.decide('R08.2', g.qual, 'transp[k] = position of the transposed index pair', ok or None, g.node, 'a bijection on a symmetric pattern')


# ------------------------------------------------------------------ R08.3
FORWARD_EXCEPTIONS = {
    ('pyiga.assemble._assemble_hspace', 'layout'): 'hierarchical spaces are scalar valued: layout has no meaning',
    ('pyiga.assemble.assemble', 'boundary'): 'boundary integrals are not supported for hierarchical spaces (only the TP route takes it)',
    ('pyiga.assemble.mass', 'format'): '1D route returns CSR directly',
    ('pyiga.assemble.stiffness', 'format'): '1D route returns CSR directly',
    ('pyiga.assemble.mass', 'geo'): '1D route asserts geo is None',
    ('pyiga.assemble.stiffness', 'geo'): '1D route asserts geo is None',
}
CHAINS = [
    ('pyiga.assemble.assemble', ('_assemble_hspace', 'instantiate_assembler', 'assemble_entries')),
    ('pyiga.assemble.assemble_entries', ('assemble_entries_vec',)),
    ('pyiga.assemble.assemble_vf', ('assemble',)),
    ('pyiga.assemble.Assembler.assemble', ('assemble_entries',)),
    ('pyiga.assemble.Assembler.__init__', ('instantiate_assembler',)),
    ('pyiga.assemble.Multipatch.assemble_system', ('assemble',)),
    ('pyiga.assemble.mass', ('bsp_mass_2d', 'bsp_mass_3d')),
    ('pyiga.assemble.stiffness', ('bsp_stiffness_2d', 'bsp_stiffness_3d')),
    ('pyiga.assemble.divdiv', ('assemble_entries_vec',)),
    ('pyiga.assemble._assemble_hspace', ('parse_vf',)),
]
OPTIONS = ('symmetric', 'format', 'layout', 'bfuns', 'boundary', 'args', 'geo', 'updatable')


def r08_3(ctx):
    n = 0
    for caller_q, callees in CHAINS:
        caller = ctx.prog.func(caller_q)
        cparams = [a.arg for a in caller.node.args.args + caller.node.args.kwonlyargs]
        for c in ast.walk(caller.node):
            if not isinstance(c, ast.Call):
                continue
            name = (call_name(c) or '').split('.')[-1]
            if name not in callees:
                continue
            callee = ctx.prog.maybe_func('pyiga.assemble.' + name) or ctx.prog.maybe_func('pyiga.vform.' + name)
            if callee is None:
                continue
            kparams = [a.arg for a in callee.node.args.args]
            passed = {}
            for i, a in enumerate(c.args):
                if i < len(kparams):
                    passed[kparams[i]] = a
            for k in c.keywords:
                if k.arg:
                    passed[k.arg] = k.value
            for p in OPTIONS:
                if p in kparams and p in cparams:
                    n += 1
                    got = passed.get(p)
                    st = '%s(... %s=%s)' % (name, p, src(got) if got is not None else '<default>')
                    if got is not None and (src(got) == p or src(got) in ('self.' + p, 'bool(%s)' % p)):
                        ctx.met('R08.3', caller_q, st, c, 'option forwarded')
                    elif (caller_q, p) in FORWARD_EXCEPTIONS:
                        ctx.met('R08.3', caller_q, st, c, 'frozen exception: ' + FORWARD_EXCEPTIONS[(caller_q, p)], nontrivial=False)
                    elif got is None:
                        ctx.violated('R08.3', caller_q, st, c, 'the caller\'s option %r is silently replaced by the callee\'s default' % p)
                    else:
                        ctx.undecided('R08.3', caller_q, st, c, 'option transformed before forwarding')
    ctx.floor('R08.3', 'forwarded options on the assembly call chains', n, 20)
    # Assembler keeps symmetric and uses it
    a = ctx.prog.func(A + '.Assembler.assemble')
    c = [x for x in ast.walk(a.node) if isinstance(x, ast.Call) and call_name(x) == 'assemble_entries']
    ok = bool(c) and src(kwarg(c[0], 'symmetric')) == 'self.symmetric' and src(c[0].args[0]) == 'self.asm'
    ctx.decide('R08.3', a.qual, src(c[0]) if c else 'assemble_entries', ok, c[0] if c else a.node, 'the same assembler object is reused with the stored symmetry flag')


# ------------------------------------------------------------------ R08.4
def r08_4(ctx):
    gi = ctx.prog.func(CG + '.AsmGenerator.generate_init')
    gu = ctx.prog.func(CG + '.AsmGenerator.generate_update')

    def field_write(fn):
        for c in ast.walk(fn):
            if isinstance(c, ast.Call) and src(c.func) == 'self.putf' and c.args and isinstance(c.args[0], ast.Constant) and '.base[' in str(c.args[0].value):
                return c
        return None
    wi, wu = field_write(gi.node), field_write(gu.node)
    if wi is None or wu is None:
        raise AnchorMissing('R08.4: emitted field assignment in generate_init/generate_update')
    ok = wi.args[0].value == wu.args[0].value
    ctx.decide('R08.4', gu.qual, wu.args[0].value, ok, wu, 'update() emits the same assignment template as __init__')
    ki = {k.arg: src(k.value) for k in wi.keywords}
    ku = {k.arg: src(k.value) for k in wu.keywords}
    ok = ku.get('ofs') == ki.get('ofs') == 'ofs' and ku.get('end') == ki.get('end') == 'ofs + sz' and ku.get('dims') == ki.get('dims')
    ctx.decide('R08.4', gu.qual, 'slice %s:%s' % (ku.get('ofs'), ku.get('end')), ok, wu, 'same slice bounds as in __init__')
    ok = ku.get('src') == 'self.parse_src(var)' and ("src = self.parse_src(var)" in src(gi.node))
    ctx.decide('R08.4', gu.qual, 'source expression from parse_src(var) in both', ok, wu)
    # EVERY stored variable whose source is an updatable input is refreshed: the emitting loop runs over the variable sequence
    # itself, not over a container keyed by the source (several variables -- c and grad(c) -- share one source)
    lp = guards.in_loop(wu, gu.node)
    if lp is None or not isinstance(lp, ast.For):
        ctx.undecided('R08.4', gu.qual, 'update() refreshes every variable fed by an updatable input', wu, 'emitting loop not recognised')
    else:
        it = lp.iter
        base = it
        while isinstance(base, ast.Call) and isinstance(base.func, ast.Attribute) and base.func.attr in ('items', 'values', 'keys') and not base.args:
            base = base.func.value
        direct = 'linear_deps' in src(base) and not isinstance(base, ast.Name)
        keyed = None
        if isinstance(base, ast.Name):
            defs = [s for s in own_nodes(gu.node) if isinstance(s, ast.Assign) and any(isinstance(x, ast.Name) and x.id == base.id for x in s.targets)]
            for d in defs:
                if isinstance(d.value, ast.DictComp):
                    keyed = (d, src(d.value.key))
                elif isinstance(d.value, ast.Call) and call_name(d.value) in ('dict', 'OrderedDict', 'collections.OrderedDict'):
                    keyed = (d, 'dict(...)')
        if direct:
            ctx.met('R08.4', gu.qual, 'update() refreshes every variable fed by an updatable input', lp, 'loop over ' + src(it))
        elif keyed is not None and 'var.name' not in keyed[1].replace('var.src.name', ''):
            ctx.violated('R08.4', gu.qual, 'update() refreshes every variable fed by an updatable input', keyed[0],
                         'the variables are first collected in a dict keyed by `%s`; two stored variables derived from the same input (its value and '
                         'its gradient) collide on that key, so update() rewrites only one of their slices and the other keeps the old field' % keyed[1])
        else:
            ctx.undecided('R08.4', gu.qual, 'update() refreshes every variable fed by an updatable input', lp, 'loop over ' + src(it)[:60])
    t = src(gu.node)
    ok = "var, sz, ofs = self.global_info[var.name]" in t and 'assert var.scope == vform.Scope.FIELD and var.is_global' in t
    ctx.decide('R08.4', gu.qual, 'offsets from global_info; only global field variables are updatable', ok, gu.node)
    # dependent precomputed variables: either excluded from precompute, recomputed in update(), or refused
    da = ctx.prog.func(VF + '.VForm.dependency_analysis')
    td = src(da.node)
    excluded = ('updatable' in td and 'descendants' in td and 'not in' in td)
    recomputed = 'precompute_fields' in t
    refused = any(isinstance(n, ast.Raise) for n in ast.walk(gu.node)) and 'precomp' in t
    pc = [s for s in own_nodes(da.node) if isinstance(s, ast.Assign) and src(s.targets[0]) == 'self.precomp' and isinstance(s.value, ast.ListComp)]
    if excluded or recomputed or refused:
        how = 'excluded from precompute in dependency_analysis' if excluded else ('recomputed by update()' if recomputed else 'refused at generation time')
        ctx.met('R08.4', da.qual, 'variables depending on an updatable input: ' + how, pc[0] if pc else da.node,
                'a precomputed copy would go stale when update() rewrites the input slice')
    else:
        ctx.violated('R08.4', da.qual, src(pc[0])[:120] if pc else 'self.precomp', pc[0] if pc else da.node,
                     'every non-basis-function variable is precomputed in the constructor, including those defined in terms of an updatable input '
                     'field; the generated update() only rewrites the input\'s own slice, so the next assembly mixes new field values with stale '
                     'derived values (e.g. g = let(exp(f)*f) with f updatable, integrand (f + g) u v)')
    # the same for PARAMETERS: the generated update_params() rewrites only the parameter's own slots of self.constants, so a
    # variable defined in terms of a parameter (c = let(a*a + 1), CSE temporaries) must not be precomputed either -- unless
    # update_params() recomputes the precomputed fields
    up0 = ctx.prog.func(CG + '.AsmGenerator.generate_update_params')
    recomputed_p = 'precompute' in src(up0.node)
    roots = [s_ for s_ in own_nodes(da.node) if isinstance(s_, ast.Assign) and isinstance(s_.value, ast.ListComp)
             and any(isinstance(c, ast.Call) and src(c.func) == 'isinstance' for c in ast.walk(s_.value))
             and 'updatable' in src(s_.value)]
    if roots:
        covers_params = 'Parameter' in src(roots[0].value)
        if covers_params or recomputed_p:
            ctx.met('R08.4', da.qual, 'variables depending on a parameter: ' + ('excluded from precompute' if covers_params else 'recomputed by update_params()'),
                    roots[0], 'a precomputed copy would go stale when update_params() rewrites the parameter slot')
        else:
            ctx.violated('R08.4', da.qual, src(roots[0])[:120], roots[0],
                         'only descendants of updatable INPUT FIELDS are kept out of the precomputed set; a variable defined in terms of a '
                         'parameter is precomputed by __init__, and the generated update_params() rewrites only the parameter\'s own slot: after '
                         'update_params(a=3) the next assembly still uses the old value inside c = let(a*a + 1) (sum 5 instead of 10)')
    # update_params writes the same constants slots that __init__ fills through update_params
    up = ctx.prog.func(CG + '.AsmGenerator.generate_update_params')
    tt = src(up.node)
    ok = 'ofs = self.constant_info[par.name][2]' in tt and 'sz = self.constant_info[par.name][1]' in tt and 'self.constants[{ofs} + i] = values[i]' in tt
    ctx.decide('R08.4', up.qual, 'parameters are written to their constant_info slot', ok, up.node)
    ok = "self.update_params({prms})" in src(gi.node)
    ctx.decide('R08.4', gi.qual, '__init__ sets parameters through update_params', ok, gi.node, 'construction and update share one code path for parameters')
    # the constants array (parameters, precomputed constants, Jac_to_boundary) is allocated once, by __init__: an emitted
    # `self.constants = ...` in any other generated method throws away every slot that method does not rewrite
    import re as _re
    alloc = []
    for f_ in ctx.prog.funcs_in(CG, include_nested=False):
        if f_.cls is None or f_.cls.name != 'AsmGenerator':
            continue
        for c in ast.walk(f_.node):
            if isinstance(c, ast.Call) and isinstance(c.func, ast.Attribute) and c.func.attr in ('put', 'putf') and c.args \
                    and isinstance(c.args[0], ast.Constant) and isinstance(c.args[0].value, str) \
                    and _re.match(r'^\s*self\.constants\s*=[^=]', c.args[0].value):
                alloc.append((f_, c))
    ctx.floor('R08.4', 'emitted allocations of self.constants', len(alloc), 1)
    for f_, c in alloc:
        ok = f_.name == 'generate_init'
        ctx.decide('R08.4', f_.qual, 'emits `%s`' % c.args[0].value.strip(), ok, c,
                   'the constants array is allocated by the generated __init__ only' if ok else
                   'the generated %s re-allocates self.constants: every parameter not passed in that call, every precomputed constant and '
                   'Jac_to_boundary become 0, so updating no longer equals constructing afresh' % f_.name.replace('generate_', ''), definite=True)


# ------------------------------------------------------------------ R08.5
def r08_5(ctx):
    av = ctx.prog.func(A + '.assemble_entries_vec')
    a = [s for s in av.node.body if isinstance(s, ast.Assert)]
    ok = bool(a) and src(a[0].test).replace(' ', '') == "layoutin('packed','blocked')"
    ctx.decide('R08.5', av.qual, src(a[0].test) if a else 'layout check', ok, a[0] if a else av.node, 'admitted layouts')
    top = [s for s in av.node.body if isinstance(s, ast.If) and 'layout' in src(s.test) and 'format' in src(s.test)]

    def taken(iff, env):
        """the block executed by the if-chain under the given values of the option names (tests built from those names,
        literals, comparisons, in / not in, and / or / not); None = not evaluable"""
        allowed = (ast.Name, ast.Constant, ast.Compare, ast.BoolOp, ast.UnaryOp, ast.Tuple, ast.List, ast.Set, ast.Load, ast.And, ast.Or, ast.Not,
                   ast.Eq, ast.NotEq, ast.Lt, ast.LtE, ast.Gt, ast.GtE, ast.In, ast.NotIn, ast.USub)
        cur = iff
        while True:
            for x in ast.walk(cur.test):
                if not isinstance(x, allowed) or (isinstance(x, ast.Name) and x.id not in env):
                    return None
            try:
                v = bool(eval(compile(ast.Expression(cur.test), '<option-test>', 'eval'), {'__builtins__': {}}, dict(env)))
            except Exception:
                return None
            if v:
                return cur.body
            if len(cur.orelse) == 1 and isinstance(cur.orelse[0], ast.If):
                cur = cur.orelse[0]
                continue
            return cur.orelse or None

    # the special case is taken for packed+bsr only; every other (layout, format) goes through the multi-level structure
    els = None
    if top:
        special = taken(top[0], {'layout': 'packed', 'format': 'bsr'})
        others = [taken(top[0], {'layout': l, 'format': f}) for l in ('packed', 'blocked') for f in ('bsr', 'csr', 'csc', 'coo', 'mlb')
                  if (l, f) != ('packed', 'bsr')]
        if special is None or any(o is None for o in others):
            ok = None
        else:
            ok = all(o is others[0] for o in others) and special is not others[0] and 'multi_blocks' in src(ast.Module(special, []))
            els = others[0] if ok else None
    else:
        ok = False
    ctx.decide('R08.5', av.qual, 'special case packed+bsr, everything else through the multi-level structure', ok, top[0] if top else av.node,
               definite=True)
    if els:
        # decision table over dim: the if-chain on `dim` is evaluated for dim = 1, 2, 3, 4; dim d <= 3 must reach the
        # d-dimensional kernel, dim 4 the dimension-independent fallback
        node = [s for s in els if isinstance(s, ast.If) and 'dim' in {x.id for x in ast.walk(s.test) if isinstance(x, ast.Name)}
                and 'layout' not in src(s.test) and 'format' not in src(s.test)]
        if not node:
            ctx.undecided('R08.5', av.qual, 'every dimension has a kernel or the generic fallback', els[0] if els else av.node, 'dispatch on dim not recognised')
        else:
            verdict, detail = True, []
            for d in (1, 2, 3, 4):
                body = taken(node[0], {'dim': d})
                if body is None:
                    verdict = None if verdict is not False else False
                    detail.append('dim %d: ?' % d)
                    continue
                t_ = src(ast.Module(body, [])).replace(' ', '')
                if d <= 3:
                    okd = ('generic_assemble_core_vec_%dd(' % d) in t_
                else:
                    okd = 'multi_blocks(' in t_
                detail.append('dim %d: %s' % (d, 'ok' if okd else 'WRONG BRANCH'))
                if not okd:
                    verdict = False
            ctx.decide('R08.5', av.qual, 'dispatch on dim reaches the matching kernel (%s)' % ', '.join(detail), verdict, node[0],
                       'every dimension has its kernel, higher dimensions the generic fallback', definite=True)
        t = src(ast.Module(els, [])).replace(' ', '')
        ok = "iflayout=='blocked':" in t and 'axes=(dim,)+tuple(range(dim))' in t and 'X=X.reorder(axes)' in t
        ctx.decide('R08.5', av.qual, "blocked: component level moved to the front", ok, av.node, 'packed -> blocked is the documented level permutation')
        # semantic: the layout handling must be executed before every exit of this branch (any format)
        lay = [i for i, s in enumerate(els) if isinstance(s, ast.If) and 'layout' in src(s.test)
               and any(isinstance(c, ast.Call) and isinstance(c.func, ast.Attribute) and c.func.attr == 'reorder' for c in ast.walk(s))]
        rets = [(i, r) for i, s in enumerate(els) for r in ast.walk(s) if isinstance(r, ast.Return)]
        if not lay:
            ctx.violated('R08.5', av.qual, 'no layout handling on the multi-level path', els[0],
                         'the `layout` option is not consulted on this path: blocked and packed give the same (packed) numbering')
        else:
            early = [r for i, r in rets if i < lay[0]]
            if early:
                ctx.violated('R08.5', av.qual, 'return before the layout permutation: ' + src(early[0]), early[0],
                             'this exit returns the operator in packed level order although layout=\'blocked\' may have been requested: '
                             'the result differs from the other formats by the packed<->blocked index permutation')
            else:
                ctx.met('R08.5', av.qual, 'the layout permutation precedes every exit of the multi-level path (%d returns)' % len(rets), els[lay[0]],
                        'all formats see the same numbering')
        ok = "ifformat=='mlb':" in t and 'returnX' in t and 'returnX.asmatrix(format)' in t
        ctx.decide('R08.5', av.qual, "format 'mlb' returns the MLMatrix, every other format through asmatrix(format)", ok, av.node)
        for d in ('1', '2', '3'):
            ok = ('assemble_tools.generic_assemble_core_vec_%sd(asm,X.structure.bidx[:dim],symmetric)' % d) in t
            ctx.decide('R08.5', av.qual, 'dim %s kernel receives the block structure and the symmetry flag' % d, ok, av.node)
    ae = ctx.prog.func(A + '.assemble_entries')
    t = src(ae.node).replace(' ', '')
    ok = "ifis_vector_valuedandlayout=='blocked':" in t and 'result=np.moveaxis(result,-1,0)' in t
    ctx.decide('R08.5', ae.qual, 'vectors: blocked layout moves the component axis to the front', ok, ae.node)
    ok = 'returnA.asformat(format)' in t
    ctx.decide('R08.5', ae.qual, 'scalar matrices: asformat(format)', ok, ae.node)


def r08_7(ctx):
    """The generic vector cores receive the per-level block patterns as a TUPLE (assemble_entries_vec passes
    X.structure.bidx[:dim], a slice of a tuple) and must take it apart element by element for EVERY dimension: the d-dimensional
    core unpacks exactly d patterns.  `bidx0 = bidx` (what a plain `a, b = t` template degenerates to for d = 1) binds the whole
    tuple to a typed memoryview and raises TypeError for every format that goes through the cores, while packed+bsr (which
    does not) still works."""
    av = ctx.prog.func(A + '.assemble_entries_vec')
    n = 0
    for d in (1, 2, 3):
        f = ctx.prog.maybe_func('pyiga.assemble_tools_cy.generic_assemble_core_vec_%dd' % d)
        if f is None:
            continue
        params = [a.arg for a in f.node.args.args]
        if len(params) < 2:
            continue
        pat = params[1]
        binds = [s_ for s_ in own_nodes(f.node) if isinstance(s_, ast.Assign) and isinstance(s_.value, ast.Name) and s_.value.id == pat]
        # what the caller passes for this parameter
        calls = [c for c in ast.walk(av.node) if isinstance(c, ast.Call) and (call_name(c) or '').endswith('generic_assemble_core_vec_%dd' % d)]
        passes_tuple = bool(calls) and len(calls[0].args) > 1 and isinstance(calls[0].args[1], ast.Subscript) \
            and isinstance(calls[0].args[1].slice, ast.Slice)
        for b in binds:
            n += 1
            t = b.targets[0]
            if isinstance(t, (ast.Tuple, ast.List)):
                ctx.decide('R08.7', f.qual, src(b), len(t.elts) == d, b, 'the %d-dimensional core unpacks %d block patterns' % (d, d), definite=True)
            elif passes_tuple:
                ctx.violated('R08.7', f.qual, src(b), b,
                             'assemble_entries_vec passes a tuple of block patterns (`%s`), but the %d-dimensional core binds the whole tuple to '
                             'one typed pattern instead of unpacking it: every format that is assembled through this core (csr, csc, coo, mlb) '
                             'raises TypeError for %d-dimensional vector-valued forms while packed+bsr works' % (src(calls[0].args[1]), d, d))
            else:
                ctx.undecided('R08.7', f.qual, src(b), b, 'caller argument not recognised')
    ctx.floor('R08.7', 'bindings of the block patterns in the generic vector cores', n, 3)


def r08_8(ctx):
    """One shape convention for a component block.  The kernels write a block row-major with numcomp[1] (test components) rows
    and numcomp[0] (trial components) columns -- `row*numcomp[0] + col`, row < numcomp[1] -- and the driver declares the BSR
    block size as num_components()[::-1] = (numcomp[1], numcomp[0]).  The array that multi_blocks() hands out must have that
    trailing shape; (numcomp[0], numcomp[1]) is the same memory for square blocks only: for non-square component blocks the
    blocks returned differ from the blocks of the assembled matrix and packed+bsr assembly fails."""
    av = ctx.prog.func(A + '.assemble_entries_vec')
    nc = [s_ for s_ in own_nodes(av.node) if isinstance(s_, ast.Assign) and src(s_.targets[0]) == 'nc']
    driver_reversed = bool(nc) and src(nc[0].value).replace(' ', '') == 'asm.num_components()[::-1]'
    n = 0
    for d in (1, 2, 3):
        k = ctx.prog.maybe_func('pyiga.assemble_tools_cy._asm_core_vec_%dd_kernel' % d)
        stride0 = None
        if k is not None:
            t = src(k.node).replace(' ', '')
            if 'row*numcomp[0]+col' in t and 'forrowinrange(numcomp[1])' in t:
                stride0 = True          # rows = numcomp[1], columns = numcomp[0]
        f = ctx.prog.maybe_func('pyiga.assemble_tools_cy.BaseVectorAssembler%dD.multi_blocks' % d)
        if f is None:
            continue
        z = [c for c in ast.walk(f.node) if isinstance(c, ast.Call) and call_name(c) in ('np.zeros', 'np.empty') and c.args
             and isinstance(c.args[0], ast.Tuple) and len(c.args[0].elts) == 3]
        if not z:
            ctx.undecided('R08.8', f.qual, 'allocation of the block array', f.node, 'not recognised')
            continue
        n += 1
        tail = [src(e).replace(' ', '') for e in z[0].args[0].elts[1:]]
        rows_cols = tail == ['self.numcomp[1]', 'self.numcomp[0]']
        cols_rows = tail == ['self.numcomp[0]', 'self.numcomp[1]']
        if not (driver_reversed and stride0):
            ctx.undecided('R08.8', f.qual, src(z[0]), z[0], 'kernel write order / driver block size not recognised')
        elif rows_cols:
            ctx.met('R08.8', f.qual, src(z[0]), z[0], 'blocks are numcomp[1] x numcomp[0], as the kernels write them and the driver declares them')
        elif cols_rows:
            ctx.violated('R08.8', f.qual, src(z[0]), z[0],
                         'the block array is declared numcomp[0] x numcomp[1], but the kernels fill each block row-major with numcomp[1] rows and '
                         'numcomp[0] columns and the driver passes blocksize=num_components()[::-1]: for non-square component blocks '
                         '(e.g. div(u)*p with 2 trial and 1 test component) multi_blocks() returns blocks of the wrong shape and '
                         "layout='packed', format='bsr' raises ValueError (mismatching blocksize) while the other formats work")
        else:
            ctx.undecided('R08.8', f.qual, src(z[0]), z[0], 'trailing shape not recognised')
    ctx.floor('R08.8', 'block array allocations in multi_blocks', n, 3)


def r08_9(ctx):
    """Assembler.update(**kwargs) hands ALL given fields to the compiled assembler.  Skipping a field because the function
    object `is` the one stored earlier treats identity as "unchanged": a BSplineFunc whose coefficients were overwritten in
    place, or a closure over the current time, is silently not re-evaluated."""
    f = ctx.prog.func(A + '.Assembler.update')
    kw = f.node.args.kwarg.arg if f.node.args.kwarg else None
    calls = [c for c in ast.walk(f.node) if isinstance(c, ast.Call) and src(c.func) == 'self.asm.update']
    if not calls or kw is None:
        ctx.undecided('R08.9', f.qual, 'self.asm.update(**kwargs)', f.node, 'forwarding call not recognised')
        return
    ident = [c for c in ast.walk(f.node) if isinstance(c, ast.Compare) and any(isinstance(o, (ast.Is, ast.IsNot)) for o in c.ops)
             and not any(isinstance(x, ast.Constant) and x.value is None for x in ast.walk(c))]
    for c in calls:
        direct = any(k.arg is None and src(k.value) == kw for k in c.keywords)
        st_ = c
        while st_ is not None and not isinstance(st_, ast.stmt):
            st_ = parent(st_)
        if direct and st_ is not None and parent(st_) is f.node:
            ctx.met('R08.9', f.qual, src(c), c, 'all given fields are forwarded unconditionally')
        elif ident:
            ctx.violated('R08.9', f.qual, src(ident[0])[:80], ident[0],
                         'fields are filtered by object identity before they are forwarded: passing the same function object again after it was '
                         'changed in place (new spline coefficients, a closure reading the current time) updates nothing and the old operator '
                         'is assembled')
        else:
            ctx.undecided('R08.9', f.qual, src(c), c, 'forwarding is conditional or filtered')


def r08_10(ctx):
    """The generated __init__ and update() store the grid values of an input field into the SAME slice fields[..., ofs:ofs+sz]:
    wherever the store statement is emitted (directly or through a helper of the generator), the end index handed to the
    template is the offset plus the size.  Passing the size alone gives ofs:sz -- an empty slice for every field that is not
    the first one, and numpy assigns into an empty slice without complaint: update() silently keeps the old field."""
    cls = ctx.prog.cls(CG + '.AsmGenerator')
    n = 0

    def is_sum_with(e, base):
        return isinstance(e, ast.BinOp) and isinstance(e.op, ast.Add) and (src(e.left) == src(base) or src(e.right) == src(base))

    for m in cls.methods.values():
        for c in ast.walk(m.node):
            if not (isinstance(c, ast.Call) and c.args and isinstance(c.args[0], ast.Constant) and isinstance(c.args[0].value, str)
                    and '{ofs}:{end}]' in c.args[0].value.replace(' ', '')):
                continue
            ofs_e, end_e = kwarg(c, 'ofs', 99), kwarg(c, 'end', 99)
            if ofs_e is None or end_e is None:
                ctx.undecided('R08.10', m.qual, src(c)[:90], c, 'template arguments not recognised')
                continue
            params = [a.arg for a in m.node.args.args]
            if isinstance(end_e, ast.Name) and end_e.id in params and isinstance(ofs_e, ast.Name) and ofs_e.id in params:
                # the template lives in a helper: the obligation moves to its call sites
                i_ofs, i_end = params.index(ofs_e.id) - 1, params.index(end_e.id) - 1      # without self
                for m2 in cls.methods.values():
                    for c2 in ast.walk(m2.node):
                        if isinstance(c2, ast.Call) and isinstance(c2.func, ast.Attribute) and c2.func.attr == m.node.name \
                                and isinstance(c2.func.value, ast.Name) and c2.func.value.id == 'self':
                            def arg(i, name):
                                if i < len(c2.args):
                                    return c2.args[i]
                                return kwarg(c2, name, 99)
                            a_ofs, a_end = arg(i_ofs, ofs_e.id), arg(i_end, end_e.id)
                            n += 1
                            if a_ofs is None or a_end is None:
                                ctx.undecided('R08.10', m2.qual, src(c2)[:90], c2, 'arguments not recognised')
                                continue
                            ok = is_sum_with(resolve.expand(a_end, c2), a_ofs)
                            ctx.decide('R08.10', m2.qual, src(c2)[:90], True if ok else False, c2,
                                       'slice ofs : ofs + size' if ok else
                                       'the helper `%s` expects the END index of the slice; this call passes `%s` for the offset `%s` -- the store '
                                       'goes to fields[..., %s:%s], an empty slice for every field after the first, and update() silently keeps '
                                       'the old field values' % (m.node.name, src(a_end), src(a_ofs), src(a_ofs), src(a_end)), definite=True)
            else:
                n += 1
                ok = is_sum_with(resolve.expand(end_e, c), ofs_e)
                ctx.decide('R08.10', m.qual, src(c)[:90], True if ok else (False if isinstance(end_e, ast.Name) else None), c,
                           'slice ofs : ofs + size' if ok else 'the end index of the field slice is `%s`, not the offset `%s` plus the size'
                           % (src(end_e), src(ofs_e)), definite=True)
    ctx.floor('R08.10', 'field stores emitted by the generator', n, 2)



def r08_11(ctx):
    """Block structure of the emitted update(): inside the emitting loops of the generator every `self.indent()` that opens a guard
    (`if <field>:`) is closed by a `self.dedent()` in the same loop iteration.  A guard left open nests the guards of all later fields
    inside it: update(g=...) without f is silently ignored (wave 8)."""
    n = 0
    for f in [f for f in ctx.prog.functions.values() if f.qual.startswith('pyiga.codegen.cython.AsmGenerator.generate_update')]:
        loops = [l for l in ast.walk(f.node) if isinstance(l, (ast.For, ast.While))]
        for l in loops:
            def level(call):
                # innermost loop around the call
                inner = [x for x in loops if x is not l and any(y is call for y in ast.walk(x)) and any(y is x for y in ast.walk(l))]
                return not inner
            ind = [c for c in ast.walk(l) if isinstance(c, ast.Call) and src(c.func) == 'self.indent' and level(c)]
            ded = [c for c in ast.walk(l) if isinstance(c, ast.Call) and src(c.func) == 'self.dedent' and level(c)]
            if not ind and not ded:
                continue
            n += 1
            if len(ind) > len(ded):
                ctx.violated('R08.11', f.qual, 'for %s in %s: %d indent(), %d dedent()' % (src(l.target)[:20], src(l.iter)[:40], len(ind), len(ded)), ind[0],
                             'a block opened per iteration is never closed: the guard `if <field>:` of the first updatable field encloses the guards of '
                             'all later fields, so update() of a later field alone changes nothing')
            else:
                ctx.decide('R08.11', f.qual, 'for %s in %s: blocks opened = blocks closed (%d)' % (src(l.target)[:20], src(l.iter)[:40], len(ind)),
                           True if len(ind) == len(ded) else None, l)
    ctx.floor('R08.11', 'emitting loops that open blocks in generate_update', n, 1)


def r08_12(ctx):
    """chunk_tasks: the chunk boundaries are computed in integer arithmetic (floor division, range steps).  Boundaries obtained by
    truncating a floating-point product (int(k * (len / c))) lose the last task for some (length, thread count) pairs -- int(7 * (61 / 7))
    is 60 -- so the result depends on the number of threads."""
    f = ctx.prog.maybe_func('pyiga.assemble_tools_cy.chunk_tasks')
    if f is None:
        ctx.undecided('R08.12', 'pyiga.assemble_tools_cy.chunk_tasks', 'definition', None, 'not found')
        return
    slices = [s for s in ast.walk(f.node) if isinstance(s, ast.Subscript) and isinstance(s.slice, ast.Slice)]
    if not slices:
        ctx.undecided('R08.12', f.qual, 'slices of the task list', f.node, 'not recognised')
        return
    for s in slices:
        bad = None
        for b in (s.slice.lower, s.slice.upper):
            if b is None:
                continue
            e = resolve.expand(b, s)
            for x in ast.walk(e):
                if isinstance(x, ast.BinOp) and isinstance(x.op, ast.Div):
                    bad = x
                if isinstance(x, ast.Call) and call_name(x) in ('int', 'round', 'np.floor', 'np.ceil', 'math.floor', 'math.ceil'):
                    inner = resolve.expand(x.args[0], s) if x.args else None
                    if inner is not None and any(isinstance(y, ast.BinOp) and isinstance(y.op, ast.Div) for y in ast.walk(inner)):
                        bad = x
        if bad is not None:
            ctx.violated('R08.12', f.qual, src(s)[:70], s,
                         'a chunk boundary is the truncation of a floating-point quotient (`%s`): for some lengths the last boundary rounds to '
                         'len-1 and the final entry is assigned to no chunk (stays 0) -- the assembled matrix depends on the thread count' % src(bad)[:50])
        else:
            ctx.met('R08.12', f.qual, src(s)[:70], s, 'integer chunk boundaries')


def run(ctx):
    r08_11(ctx)
    r08_12(ctx)
    r08_10(ctx)
    r08_9(ctx)
    r08_8(ctx)
    r08_7(ctx)
    r08_1(ctx)
    r08_2(ctx)
    r08_3(ctx)
    r08_4(ctx)
    r08_5(ctx)
    # R08.6 = R01.7: a bounding-box restricted (on-demand) assembler addresses the same Gauss nodes as the full one
    import rules.C01 as c01
    ctx.shared(c01.r01_7, 'R01.7', 'R08.6')

"""C05 -- transfers between nested spline spaces (structural clauses)."""
import ast

from sa.program import src, own_nodes, call_name, parent, kwarg, AnchorMissing
from sa import guards, affine, resolve
from sa.affine import Lin

EXPLANATION = (
    "Static rules over pyiga/bspline.py and hierarchical.py: (R05.1) the three row loops of knot_insertion tile the rows "
    "[0, n+1) of the (n+1) x n matrix exactly once (affine range chaining: start 0, consecutive bounds meet, end = row count), "
    "each row receives 1 or the convex pair (1-a, a) in columns (i-1, i), and the affected rows are those of span k; (R05.2) both "
    "constructions of the per-level prolongators (HMesh.add_level, HMesh.init_from_kvs) build bspline.prolongation(coarse, fine) "
    "per axis for consecutive levels in the same argument order and storage format; prolongation() itself solves the fine "
    "collocation system at the fine Greville points; (R05.3) HSplineFunc.eval / grid_eval / grid_jacobian / grid_hessian all sum "
    "the same route over coeffs_to_levelwise_funcs with the truncate flag forwarded unchanged, and the THB->HB transform is "
    "applied exactly once; (R05.4) virtual-hierarchy prolongators: identity block for kept dofs, restricted Kronecker rows for "
    "the refined ones, inverse truncation applied per level for THB; in represent_fine the rows zeroed by truncation and the "
    "column block selected per level come from the same per-level index lists (origin + element stores compared) and address "
    "levels k+1 resp. k; (R05.5 = R04.4) cached index lists are invalidated after every state write; (R05.6) every exit of "
    "truncate_one_level returns I +- A, truncation applies to every construction of the one-level prolongator, and the caller's "
    "row selection of represent_fine is read-only.")
DOES_NOT_DECIDE = ("that any prolongation matrix represents the identical function (the THB virtual-hierarchy and finite-disparity "
                   "prolongate_to defects quoted in the property are value-level and out of reach of these rules); pruning threshold effects")
TECHNIQUE = "custom AST rules: affine range tiling, sibling comparison of constructions, option forwarding"

B = 'pyiga.bspline'
H = 'pyiga.hierarchical'


def r05_1(ctx):
    f = ctx.prog.func(B + '.knot_insertion')
    fn = f.node
    loops = [l for l in fn.body if isinstance(l, ast.For)]
    ctx.floor('R05.1', 'row loops of knot_insertion', len(loops), 3)
    # single-assignment integer locals (first = k + 1 - p) are substituted into the loop bounds
    env = {}
    counts = {}
    for s in own_nodes(fn):
        if isinstance(s, (ast.Assign, ast.AugAssign)):
            for t in (s.targets if isinstance(s, ast.Assign) else [s.target]):
                for x in ast.walk(t):
                    if isinstance(x, ast.Name):
                        counts[x.id] = counts.get(x.id, 0) + 1
    for s in fn.body:
        if isinstance(s, ast.Assign) and len(s.targets) == 1 and isinstance(s.targets[0], ast.Name) and counts.get(s.targets[0].id) == 1 \
                and s.targets[0].id not in ('k', 'p', 'n'):
            try:
                v = affine.from_ast(s.value, env=env, opaque=False)
            except affine.NonAffine:
                continue
            if v.symbols() <= {'k', 'p', 'n'}:
                env[s.targets[0].id] = v
    _from_ast = affine.from_ast
    ivs = []
    for l in loops:
        it = l.iter
        rev = False
        if isinstance(it, ast.Call) and call_name(it) == 'reversed':
            it = it.args[0]
            rev = True
        if not (isinstance(it, ast.Call) and call_name(it) == 'range' and 1 <= len(it.args) <= 2):
            ctx.undecided('R05.1', f.qual, src(l.iter), l, 'loop range not recognised')
            return
        lo = affine.from_ast(it.args[0], env=env) if len(it.args) == 2 else Lin.const(0)
        hi = affine.from_ast(it.args[-1], env=env)
        ivs.append((lo, hi, l))
    # shape of P
    alloc = [s for s in fn.body if isinstance(s, ast.Assign) and src(s.targets[0]) == 'P']
    if not alloc:
        raise AnchorMissing('R05.1: allocation of P')
    shp = alloc[0].value.args[0]
    rows = affine.from_ast(shp.elts[0])
    cols = affine.from_ast(shp.elts[1])
    ctx.decide('R05.1', f.qual, 'P has shape (%r, %r)' % (rows, cols), rows == Lin.sym('n') + 1 and cols == Lin.sym('n'), alloc[0], '(n+1) x n')
    # order intervals by chaining: find the one starting at 0, then the one starting where it ends, ...
    K, P_, N = Lin.sym('k'), Lin.sym('p'), Lin.sym('n')
    chain = []
    cur = Lin.const(0)
    remaining = list(ivs)
    while remaining:
        nxt = [iv for iv in remaining if iv[0] == cur]
        if len(nxt) != 1:
            break
        chain.append(nxt[0])
        cur = nxt[0][1]
        remaining.remove(nxt[0])
    desc = ' , '.join('[%r, %r)' % (lo, hi) for lo, hi, _ in chain) or 'no chain from 0'
    if remaining:
        left = ' , '.join('[%r, %r)' % (lo, hi) for lo, hi, _ in remaining)
        ctx.violated('R05.1', f.qual, 'row ranges %s ; unchained: %s' % (desc, left), loops[0],
                     'the row loops do not tile [0, n+1): consecutive bounds do not meet (a gap leaves a zero row, an overlap writes a row twice)')
    else:
        ctx.decide('R05.1', f.qual, 'row ranges ' + desc, cur == rows, loops[0], 'rows tiled exactly once; end of the last range equals the row count %r' % rows)
    # what each loop writes
    for lo, hi, l in ivs:
        stores = [(src(s.targets[0]).replace(' ', ''), src(s.value).replace(' ', '')) for s in l.body if isinstance(s, ast.Assign) and src(s.targets[0]).startswith('P[')]
        if (lo == Lin.const(0)):
            ok = stores == [('P[i,i]', '1.0')]
            ctx.decide('R05.1', f.qual, 'rows below the span: %s' % stores, ok or None, l, 'coefficients before the affected area keep their index')
        elif hi == rows:
            ok = stores == [('P[i,i-1]', '1.0')]
            ctx.decide('R05.1', f.qual, 'rows above the span: %s' % stores, ok or None, l, 'coefficients after the affected area shift by one')
        else:
            d = dict(stores)
            ok = d.get('P[i,i-1]') == '1-a' and d.get('P[i,i]') == 'a'
            bad = set(d) == {'P[i,i-1]', 'P[i,i]'} and not ok
            ctx.decide('R05.1', f.qual, 'affected rows: %s' % stores, True if ok else (False if bad else None), l, 'Boehm: new coefficient i = (1-a) c[i-1] + a c[i]')
            a = [s for s in l.body if isinstance(s, ast.Assign) and src(s.targets[0]) == 'a']
            if a:
                ctx.expect('R05.1', f.qual, a[0].value, '(u - knots[i]) / (knots[i + p] - knots[i])', a[0], 'a_i = (u - t_i)/(t_{i+p} - t_i)', label=src(a[0]))
            ctx.decide('R05.1', f.qual, 'affected rows [%r, %r)' % (lo, hi), lo == K - P_ + 1 and hi == K + 1, l, 'rows k-p+1 .. k for the span index k = findspan(u)')
    ctx.expect_assign('R05.1', f, 'k', 'kv.findspan(u)', 'k is the span containing the new knot')


def r05_2(ctx):
    sites = {}
    for q in (H + '.HMesh.add_level', H + '.HMesh.init_from_kvs'):
        f = ctx.prog.func(q)
        gens = [g for g in ast.walk(f.node) if isinstance(g, ast.GeneratorExp) and 'bspline.prolongation' in src(g)]
        if not gens:
            raise AnchorMissing('R05.2: prolongator construction in ' + q)
        g = gens[0]
        elt = src(g.elt).replace(' ', '')
        tgt = src(g.generators[0].target).replace(' ', '')
        it = src(g.generators[0].iter).replace(' ', '')
        sites[q] = (elt, tgt, it, g)
        ok = elt == 'bspline.prolongation(k0,k1).tocsc()' and tgt in ('(k0,k1)', 'k0,k1')
        bad = elt == 'bspline.prolongation(k1,k0).tocsc()'
        ctx.decide('R05.2', q, '%s for %s in %s' % (elt, tgt, it), True if ok else (False if bad else None), g, 'prolongation(coarse, fine) per axis, CSC storage (function_children reads indptr/indices)')
    a, b = sites[H + '.HMesh.add_level'], sites[H + '.HMesh.init_from_kvs']
    ctx.expect('R05.2', H + '.HMesh.add_level', a[3].generators[0].iter, 'zip(self.meshes[-2].kvs, self.meshes[-1].kvs)', a[3],
               'consecutive levels, coarse first', label='level pair of add_level: ' + a[2])
    ctx.expect('R05.2', H + '.HMesh.init_from_kvs', b[3].generators[0].iter, 'zip(out.meshes[lv].kvs, out.meshes[lv + 1].kvs)', b[3],
               'consecutive levels, coarse first', label='level pair of init_from_kvs: ' + b[2])
    ctx.decide('R05.2', H + '.HMesh', 'both constructions use the same element expression', a[0] == b[0], a[3])
    al = ctx.prog.func(H + '.HMesh.add_level')
    order = [src(s).replace(' ', '')[:45] for s in al.node.body]
    ok = order and order[0].startswith('self.meshes.append(self.meshes[-1].refine())')
    ctx.decide('R05.2', al.qual, 'mesh appended before the prolongator is built', ok or None, al.node, 'meshes[-2] -> meshes[-1] must be the new pair')
    pr = ctx.prog.func(B + '.prolongation')
    why = 'P = C2(g)^-1 C1(g): interpolation of the coarse basis in the fine space at the fine Greville points'
    ctx.expect_assign('R05.2', pr, 'g', 'kv2.greville()', why)
    ctx.expect_assign('R05.2', pr, 'C1', 'collocation(kv1, g).toarray()', why)
    ctx.expect_assign('R05.2', pr, 'C2', 'collocation(kv2, g)', why)
    ctx.expect_assign('R05.2', pr, 'P', 'scipy.sparse.linalg.spsolve(C2, C1)', why)
    fc = ctx.prog.func(H + '.HMesh._function_children_1d')
    ctx.expect_assign('R05.2', fc, 'P', 'self.P[lv][dim]', 'prolongator of (level, axis)')
    ctx.expect_return('R05.2', fc, 'P.indices[P.indptr[j]:P.indptr[j + 1]]', 'children of j = row indices of column j (CSC indptr/indices)')
    tp = ctx.prog.func(H + '.HSpace.tp_prolongation')
    ctx.expect_assign('R05.2', tp, 'Ps', 'self.hmesh.P[lv]', 'tp_prolongation(lv) maps level lv to lv+1')


def r05_3(ctx):
    cls = ctx.prog.cls(H + '.HSplineFunc')
    route = 'self.hs.coeffs_to_levelwise_funcs(self.coeffs,truncate=self.truncate)'
    for name, inner in (('eval', 'f.eval(*x)'), ('grid_jacobian', 'f.grid_jacobian(gridaxes)'), ('grid_hessian', 'f.grid_hessian(gridaxes)')):
        m = cls.methods.get(name)
        if m is None:
            raise AnchorMissing('R05.3: HSplineFunc.' + name)
        r = guards.returns_of(m.node)[-1].value
        t = src(r).replace(' ', '')
        ok = t == 'sum((%sforfin%s))' % (inner, route)
        fwd = 'truncate=self.truncate' in t
        bad = ('coeffs_to_levelwise_funcs' in t) and not fwd
        ctx.decide('R05.3', m.qual, src(r), True if ok else (False if bad else None), r, 'sum of the level-wise contributions, truncate flag forwarded')
    ge = cls.methods['grid_eval']
    r = guards.returns_of(ge.node)[-1].value
    ok = src(r).replace(' ', '') == 'self.hs.grid_eval(self.coeffs,gridaxes,truncate=self.truncate)'
    bad = 'self.hs.grid_eval' in src(r) and 'truncate=self.truncate' not in src(r).replace(' ', '')
    ctx.decide('R05.3', ge.qual, src(r), True if ok else (False if bad else None), r, 'delegates with the truncate flag')
    hge = ctx.prog.func(H + '.HSpace.grid_eval')
    ctx.expect_return('R05.3', hge, 'sum(f.grid_eval(gridaxes) for f in self.coeffs_to_levelwise_funcs(coeffs, truncate=truncate))',
                      'sum of the level-wise contributions, truncate flag forwarded')
    cl = ctx.prog.func(H + '.HSpace.coeffs_to_levelwise_funcs')
    conv = [s for s in own_nodes(cl.node) if isinstance(s, ast.Assign) and 'thb_to_hb' in src(s.value)]
    ok = len(conv) == 1 and src(conv[0]).replace(' ', '') == 'coeffs=self.thb_to_hb()@coeffs' and guards.has_literal(guards.path_conditions(conv[0]), 'truncate', True)
    ctx.decide('R05.3', cl.qual, src(conv[0]) if conv else 'THB->HB', ok, conv[0] if conv else cl.node, 'THB coefficients converted exactly once, only when truncate')
    why = 'level lv: the coefficients of level lv are scattered to the active tensor-product indices of level lv'
    ctx.expect_assign('R05.3', cl, 'u_lv', 'self.split_coeffs(coeffs)', why)
    ctx.expect_assign('R05.3', cl, 'IA', 'self.active_indices()', why)
    ctx.expect_assign('R05.3', cl, 'n_tp', 'tuple(self.mesh(k).numbf for k in range(self.numlevels))', why)
    ctx.expect_call('R05.3', cl, 'bspline.BSplineFunc', 'bspline.BSplineFunc(self.knotvectors(lv), _reindex(n_tp[lv], IA[lv], uj))', why)
    gen = [g for g in ast.walk(cl.node) if isinstance(g, ast.GeneratorExp) and 'BSplineFunc' in src(g.elt)]
    if gen:
        ctx.expect('R05.3', cl.qual, gen[0].generators[0].iter, 'enumerate(u_lv)', gen[0], 'one function per level, in level order', label='levels enumerated: ' + src(gen[0].generators[0].iter))
    init = cls.methods['__init__']
    t = src(init.node).replace(' ', '')
    ok = 'iftruncateisNone:' in t and 'truncate=self.hs.truncate' in t and 'self.truncate=truncate' in t
    ctx.decide('R05.3', init.qual, 'truncate defaults to the space\'s flag', ok or None, init.node)
    for q in (H + '.HSpace.thb_to_hb', H + '.HSpace.hb_to_thb'):
        f = ctx.prog.func(q)
        in_loop = lambda s: guards.in_loop(s, f.node) is not None
        if q.endswith('thb_to_hb'):
            why = 'T = T_{L-2} ... T_1 T_0: the two transforms compose the same one-level factors in opposite order'
            ctx.expect_assign('R05.3', f, 'T', 'self.truncate_one_level(0)', why, which=lambda s: not in_loop(s), label='first factor of thb_to_hb')
            ctx.expect_assign('R05.3', f, 'T', 'self.truncate_one_level(k) @ T', why, which=in_loop, label='further factors of thb_to_hb multiply from the left')
        else:
            why = 'inverse in the reverse order: T_0^-1 T_1^-1 ...'
            ctx.expect_assign('R05.3', f, 'T', 'self.truncate_one_level(0, inverse=True)', why, which=lambda s: not in_loop(s), label='first factor of hb_to_thb')
            ctx.expect_assign('R05.3', f, 'T', 'T @ self.truncate_one_level(k, inverse=True)', why, which=in_loop, label='further factors of hb_to_thb multiply from the right')
        loops = [l for l in own_nodes(f.node) if isinstance(l, ast.For)]
        if loops:
            ctx.expect('R05.3', q, loops[0].iter, 'range(1, self.numlevels - 1)', loops[0], 'one factor per level pair (k, k+1), k = 0 .. L-2', label='levels of %s: %s' % (q.split('.')[-1], src(loops[0].iter)))
    tl = ctx.prog.func(H + '.HSpace.truncate_one_level')
    rets = [r for r in guards.returns_of(tl.node) if r.value is not None]
    why = 'A is nilpotent of index 2 (maps level <= k to level k+1), so (I-A)^-1 = I+A'
    inv = [r for r in rets if guards.has_literal(guards.path_conditions(r), 'inverse', True)]
    fwd = [r for r in rets if guards.has_literal(guards.path_conditions(r), 'inverse', False)]
    if len(inv) == 1 and len(fwd) == 1:
        ctx.expect('R05.3', tl.qual, inv[0].value, 'I + A', inv[0], why, label='inverse one-level truncation: ' + src(inv[0]))
        ctx.expect('R05.3', tl.qual, fwd[0].value, 'I - A', fwd[0], why, label='forward one-level truncation: ' + src(fwd[0]))
    else:
        ctx.undecided('R05.3', tl.qual, 'inverse: I + A ; forward: I - A', tl.node, 'branches on `inverse` not recognised')


def r05_4(ctx):
    f = ctx.prog.func(H + '.HSpace.virtual_hierarchy_prolongators')
    t = src(f.node).replace(' ', '')
    ok = 'P_rd=utils.kron_partial(Ps[lv],rows=IR[lv+1],restrict=True)[:,ID[lv]]' in t
    ctx.decide('R05.4', f.qual, 'P_rd = kron_partial(P_lv, rows=IR[lv+1], restrict=True)[:, ID[lv]]', ok or None, f.node,
               'refined (deactivated) functions of level lv expressed in active+deactivated functions of level lv+1')
    ok = 'IR=tuple((np.concatenate((iA,iD))foriA,iDinzip(IA,ID)))' in t.replace('(iA,iD)in', 'iA,iDin')
    ctx.decide('R05.4', f.qual, 'IR = active ++ deactivated raveled indices per level', ok or None, f.node, 'same order as the virtual canonical numbering (active first, then deactivated)')
    ok = 'scipy.sparse.bmat(((scipy.sparse.eye(nt[lv]),None),(None,P_rd)),format=\'csc\')' in t
    ctx.decide('R05.4', f.qual, 'block form [[I, 0], [0, P_rd]]', ok or None, f.node, 'kept dofs are carried over unchanged')
    ok = 'self.truncate_one_level(k,num_rows=P.shape[0],inverse=True)@P' in t
    ctx.decide('R05.4', f.qual, 'THB: inverse one-level truncation applied to each prolongator', ok or None, f.node)
    ok = 'iftruncateisNone:truncate=self.truncate' in t.replace('\n', '').replace('    ', '') or ('truncate=self.truncate' in t)
    ctx.decide('R05.4', f.qual, 'truncate defaults to the space\'s flag', ok or None, f.node)
    rf = ctx.prog.func(H + '.HSpace.represent_fine')
    t = src(rf.node).replace(' ', '')
    ok = 'iftruncate:' in t and 'Pj[act_indices[k+1],:]=0' in t
    ctx.decide('R05.4', rf.qual, 'truncation zeroes the rows of the active (and, on the top level, deactivated) functions of level k+1', ok or None, rf.node)
    ok = 'act_indices[lv]=np.concatenate((act_indices[lv],deact_indices))' in t and 'blocks.append(P[:,act_indices[k]])' in t and 'blocks.reverse()' in t
    ctx.decide('R05.4', rf.qual, 'column blocks per level in canonical order (coarse to fine)', ok or None, rf.node)
    # semantic: the functions a level is truncated against are the functions that represent that level in the output:
    #   Pj[X[k+1], :] = 0      and      blocks.append(P[:, Y[k]])      must use the same per-level index list (X is Y)
    zero = [s for s in own_nodes(rf.node) if isinstance(s, ast.Assign) and isinstance(s.targets[0], ast.Subscript)
            and src(s.targets[0].value) == 'Pj' and isinstance(s.value, ast.Constant) and s.value.value == 0]
    sel = [c for c in ast.walk(rf.node) if isinstance(c, ast.Call) and src(c.func) == 'blocks.append' and c.args and isinstance(c.args[0], ast.Subscript)]
    if zero and sel:
        assigns = [s for s in own_nodes(rf.node) if isinstance(s, ast.Assign) and len(s.targets) == 1]

        def strip(v):
            # list(E), E[:n], tuple(E): the same per-level lists (possibly a fresh outer container)
            while True:
                if isinstance(v, ast.Call) and isinstance(v.func, ast.Name) and v.func.id in ('list', 'tuple') and len(v.args) == 1:
                    v = v.args[0]
                elif isinstance(v, ast.Subscript) and isinstance(v.slice, ast.Slice):
                    v = v.value
                else:
                    return v

        def descriptor(e, depth=0):
            """(origin expression, frozenset of element stores applied to this container) of a per-level index list"""
            e = strip(e)
            if isinstance(e, ast.Name) and depth < 5:
                defs = [s for s in assigns if isinstance(s.targets[0], ast.Name) and s.targets[0].id == e.id]
                stores = frozenset(src(s).replace(' ', '') for s in assigns if isinstance(s.targets[0], ast.Subscript)
                                   and isinstance(s.targets[0].value, ast.Name) and s.targets[0].value.id == e.id)
                if len(defs) != 1:
                    return None
                d = descriptor(defs[0].value, depth + 1)
                if d is None:
                    return None
                fresh = strip(defs[0].value) is not defs[0].value     # list(...) / slice: stores do not reach the origin
                if stores and not fresh:
                    return None         # stores through an alias reach the origin as well: not modelled
                return (d[0], d[1] | stores)
            if isinstance(e, ast.Call):
                return (src(e).replace(' ', ''), frozenset())
            return None

        def index_list(sub):
            sl = sub.slice
            el = sl.elts if isinstance(sl, ast.Tuple) else [sl]
            for e in el:
                if isinstance(e, ast.Subscript) and not isinstance(e.slice, ast.Slice):
                    return e.value, e.slice
            return None, None
        X, xi = index_list(zero[0].targets[0])
        Y, yi = index_list(sel[0].args[0])
        dX = descriptor(X) if X is not None else None
        dY = descriptor(Y) if Y is not None else None
        ok = None if dX is None or dY is None else (dX == dY)
        ctx.decide('R05.4', rf.qual, 'rows zeroed by truncation and column block of a level come from the same per-level index lists', ok, zero[0],
                   'coarse functions are truncated against exactly the functions that make up the next level of the (virtual) basis; on an '
                   'intermediate virtual level that includes the deactivated functions of the top level'
                   + ('' if ok is not False else ' -- rows: %s with element stores %s; columns: %s with element stores %s'
                      % (dX[0], sorted(dX[1]) or 'none', dY[0], sorted(dY[1]) or 'none')), definite=True)
        if xi is not None:
            ctx.formula('R05.4', rf.qual, xi, 'k+1', zero[0], 'level k is truncated against level k+1',
                        label='level addressed by the truncation while processing level k')
        if yi is not None:
            ctx.formula('R05.4', rf.qual, yi, 'k', sel[0], 'the block of level k is selected by the index list of level k',
                        label='level addressed by the column selection while processing level k')
    else:
        ctx.undecided('R05.4', rf.qual, 'truncation / block selection statements', rf.node, 'not recognised')
    kp = ctx.prog.func('pyiga.utils.kron_partial')
    ctx.met('R05.4', kp.qual, 'kron_partial present (rows/restrict semantics checked under C15)', kp.node, nontrivial=False)


def r05_6(ctx):
    """Structure of the truncation (shared with C04 as R04.8)."""
    # (a) every exit of truncate_one_level returns I + A or I - A: the factor for level k truncates ALL coarser active
    #     functions against level k+1, so no shortcut may skip the representation matrix A
    tl = ctx.prog.func(H + '.HSpace.truncate_one_level')
    rets = [r for r in guards.returns_of(tl.node) if r.value is not None]
    ctx.floor('R05.6', 'returns of truncate_one_level', len(rets), 2)
    for r in rets:
        names = {n.id for n in ast.walk(r.value) if isinstance(n, ast.Name)}
        conds = ' and '.join(('' if p else 'not ') + t for (t, p, _n) in guards.path_conditions(r)) or 'always'
        if 'A' in names and 'I' in names:
            ctx.met('R05.6', tl.qual, 'exit under (%s) returns I +- A' % conds, r, src(r))
        elif 'A' not in names:
            ctx.violated('R05.6', tl.qual, 'exit under (%s) returns I +- A' % conds, r,
                         '`%s` does not involve the representation matrix A of the coarser functions in level k+1: the one-level factor '
                         'truncates every active function of levels 0..k, not only those of level k, so it is the identity only if A = 0' % src(r)[:80])
        else:
            ctx.undecided('R05.6', tl.qual, 'exit under (%s) returns I +- A' % conds, r, src(r)[:80])
    # (b) in represent_fine the rows of the next level are zeroed whenever truncate is set, however Pj was built
    rf = ctx.prog.func(H + '.HSpace.represent_fine')
    # (c) the caller's row selection is read-only: with restrict=True the result has exactly len(rows) rows (truncate_one_level
    #     resizes / stacks it on that assumption), so `rows` may not be replaced by "all rows" as an efficiency shortcut --
    #     needed_rows is the working variable for that
    rparams = {a.arg for a in rf.node.args.args}
    for pname in ('rows', 'restrict'):
        if pname not in rparams:
            continue
        rebinds = [s for s in own_nodes(rf.node) if isinstance(s, (ast.Assign, ast.AugAssign))
                   and any(isinstance(t, ast.Name) and t.id == pname for t in (s.targets if isinstance(s, ast.Assign) else [s.target]))]
        bad = [s for s in rebinds if isinstance(s, ast.Assign) and isinstance(s.value, ast.Constant)]
        if not rebinds:
            ctx.met('R05.6', rf.qual, 'parameter `%s` of represent_fine is not rebound' % pname, rf.node, 'the row selection requested by the caller is honoured')
        elif bad:
            ctx.violated('R05.6', rf.qual, 'parameter `%s` of represent_fine is not rebound' % pname, bad[0],
                         '`%s` (under %s) discards the caller\'s row selection; with restrict=True the function then returns all rows instead of '
                         'len(rows), and truncate_one_level -> thb_to_hb silently cut or pad the block'
                         % (src(bad[0]), ' and '.join(t for (t, _p, _n) in guards.path_conditions(bad[0])) or 'no condition'))
        else:
            ctx.undecided('R05.6', rf.qual, 'parameter `%s` of represent_fine is not rebound' % pname, rebinds[0], src(rebinds[0])[:80])
    zero = [s for s in own_nodes(rf.node) if isinstance(s, ast.Assign) and isinstance(s.targets[0], ast.Subscript)
            and isinstance(s.targets[0].value, ast.Name) and isinstance(s.value, ast.Constant) and s.value.value == 0
            and guards.in_loop(s, rf.node) is not None]
    pj = [s for s in own_nodes(rf.node) if isinstance(s, ast.Assign) and isinstance(s.targets[0], ast.Name) and zero
          and s.targets[0].id == zero[0].targets[0].value.id]
    if not zero or not pj:
        ctx.undecided('R05.6', rf.qual, 'truncation applies to every construction of the one-level prolongator', rf.node, 'statements not recognised')
    else:
        loop = guards.in_loop(zero[0], rf.node)
        zc = [(t, p) for (t, p, _n) in guards.path_conditions(zero[0], stop=loop)]
        extra = [(t, p) for (t, p) in zc if t.replace(' ', '') not in ('truncate', 'self.truncate')]
        built = [{(t, p) for (t, p, _n) in guards.path_conditions(s, stop=loop)} for s in pj]
        # a guard shared by every construction (e.g. the level is not the starting level) is not a restriction
        extra = [c for c in extra if not all(c in b for b in built)]
        clash = [c for c in extra if any((c[0], not c[1]) in b for b in built)]
        if not extra:
            ctx.met('R05.6', rf.qual, 'truncation applies to every construction of the one-level prolongator', zero[0],
                    '%d construction(s) of %s, zeroing guarded by the truncate flag only' % (len(pj), zero[0].targets[0].value.id))
        elif clash:
            ctx.violated('R05.6', rf.qual, 'truncation applies to every construction of the one-level prolongator', zero[0],
                         'the rows of level k+1 are zeroed only under `%s`, the condition that selects HOW the prolongator is built; on the other '
                         'path the coarse functions keep their components in the active functions of the next level and the basis no longer sums to one'
                         % ' and '.join(('' if p else 'not ') + t for t, p in clash))
        else:
            ctx.undecided('R05.6', rf.qual, 'truncation applies to every construction of the one-level prolongator', zero[0], 'guarded by %s' % extra)


def r05_7(ctx):
    """prolongate_to(fine): a coarse function that is replaced in `fine` is represented by fine functions as many levels
    down as `fine` was refined beyond `self` there -- a quantity no property of either mesh bounds (the level disparity limits
    which levels meet WITHIN one space, not how far two nested spaces are apart).  The ranges of target levels must therefore
    run to the finest level of `fine`; a bound that mentions the disparity drops the contributions to all deeper levels."""
    f = ctx.prog.func('pyiga.hierarchical.HSpace.prolongate_to')
    n = 0
    for l in [x for x in ast.walk(f.node) if isinstance(x, ast.For) and isinstance(x.iter, ast.Call) and src(x.iter.func) == 'range']:
        it = resolve.expand(l.iter, l)
        names = {x.id for x in ast.walk(it) if isinstance(x, ast.Name)} | {x.attr for x in ast.walk(it) if isinstance(x, ast.Attribute)}
        body = src(ast.Module(l.body, []))
        # the loops that walk target levels of the fine space: they index per-level data of `fine` with the loop variable
        tv = l.target.id if isinstance(l.target, ast.Name) else None
        if tv is None or not any(w in body for w in ('f_actfun_rav[%s]' % tv, 'f_deactfun_rav[%s]' % tv, 'needed_P_rows[%s - 1]' % tv)):
            continue
        n += 1
        if 'disparity' in names:
            ctx.violated('R05.7', f.qual, 'for %s in %s' % (tv, src(l.iter)), l,
                         'the target levels of the prolongation are cut at `disparity` levels below the coarse level: if `fine` is more than '
                         '`disparity` levels deeper than `self` where a coarse function was replaced (two further corner refinements with '
                         'disparity 1), the contributions to the deeper levels are dropped and P u is not the same function '
                         '(max deviation 0.40 for p=2, 4x4 cells)')
        elif names & {'f_numlevels', 'numlevels'}:
            ctx.met('R05.7', f.qual, 'for %s in %s' % (tv, src(l.iter)), l, 'runs to the finest level of the fine space')
        else:
            ctx.undecided('R05.7', f.qual, 'for %s in %s' % (tv, src(l.iter)), l, 'upper bound not recognised')
    ctx.floor('R05.7', 'loops over target levels in prolongate_to', n, 2)


def r05_8(ctx):
    """Order of the inverse one-level truncations.  hb_to_thb composes them as X_0 X_1 ... X_{L-2} (X_k = inverse truncation
    of level k); the consumer of virtual_hierarchy_prolongators applies the THB prolongators one after the other, so a THB
    prolongator of the form X_k P_k -- ONE factor, of its own level -- yields X_{L-2} P_{L-2} ... X_0 P_0 = X_{L-2} ... X_0 (P_{L-2} ... P_0)
    (P_k is the identity on everything X_j, j < k, touches): the reverse order.  The X_k commute only if no function of level k
    overlaps active functions of level k+2 (disparity 1), so for three or more levels and disparity >= 2 the composed map is
    not hb_to_thb of the prolongated coefficients.  A correct THB prolongator conjugates with the truncations of the lower
    levels: (X_0 ... X_k) P_k (X_{k-1}^-1 ... X_0^-1)."""
    vh = ctx.prog.func('pyiga.hierarchical.HSpace.virtual_hierarchy_prolongators')
    h2t = ctx.prog.func('pyiga.hierarchical.HSpace.hb_to_thb')
    # order in hb_to_thb
    order = None
    for s_ in ast.walk(h2t.node):
        if isinstance(s_, ast.Assign) and isinstance(s_.value, ast.BinOp) and isinstance(s_.value.op, ast.MatMult) and src(s_.targets[0]) == 'T':
            l, r = s_.value.left, s_.value.right
            if src(l) == 'T' and 'truncate_one_level' in src(r):
                order = 'ascending'         # T = T @ X_k  ->  X_0 X_1 ...
            elif src(r) == 'T' and 'truncate_one_level' in src(l):
                order = 'descending'
    # form of one THB prolongator
    exprs = [b for b in ast.walk(vh.node) if isinstance(b, ast.BinOp) and isinstance(b.op, ast.MatMult)
             and any(isinstance(c, ast.Call) and src(c.func).endswith('truncate_one_level') for c in ast.walk(b))]
    if not exprs or order is None:
        ctx.undecided('R05.8', vh.qual, 'THB conversion of the virtual-hierarchy prolongators', vh.node, 'form not recognised')
        return
    top = [b for b in exprs if not any(b is not o and any(x is b for x in ast.walk(o)) for o in exprs)]
    calls = [c for c in ast.walk(vh.node) if isinstance(c, ast.Call) and src(c.func).endswith('truncate_one_level')]
    lower = [c for c in calls if c.args and not (isinstance(c.args[0], ast.Name) and c.args[0].id == 'k')]
    single = len(calls) == 1 and isinstance(top[0].left, ast.Call) and src(top[0].left.func).endswith('truncate_one_level') \
        and any(kw.arg == 'inverse' and src(kw.value) == 'True' for kw in top[0].left.keywords)
    if single and order == 'ascending':
        ctx.violated('R05.8', vh.qual, src(top[0])[:100], top[0],
                     'each THB prolongator applies only the inverse truncation of its own level; applied level after level this composes the '
                     'inverse truncations in DESCENDING level order, while hb_to_thb composes them in ascending order (T = T @ X_k).  They commute '
                     'only when no level-k function overlaps active functions of level k+2: for a THB space with three levels and disparity >= 2 '
                     '(or inf) the composed prolongators do not reproduce the coarse function (max deviation 6.4e-2 for p=2, 4x4 cells, two corner '
                     'refinements, disparity inf)')
    elif lower:
        ctx.met('R05.8', vh.qual, src(top[0])[:100], top[0], 'the THB prolongator conjugates with the truncations of the lower levels')
    else:
        ctx.undecided('R05.8', vh.qual, src(top[0])[:100], top[0], 'composition order not recognised')


def r05_9(ctx):
    """represent_fine zeroes rows of the level prolongator IN PLACE (truncation).  That is sound only while the matrix it
    works on is private: every producer it is taken from (utils.multi_kron_sparse, utils.kron_partial) returns a freshly
    built matrix on every path -- a producer that hands back one of its arguments (the stored hmesh.P[k][0] for a 1D
    space) makes the first THB representation corrupt the stored tensor-product prolongators for good."""
    from sa import effects
    rf = ctx.prog.func('pyiga.hierarchical.HSpace.represent_fine')
    stores = [s_ for s_ in ast.walk(rf.node) if isinstance(s_, ast.Assign) and isinstance(s_.targets[0], ast.Subscript)
              and isinstance(s_.targets[0].value, ast.Name) and isinstance(s_.value, ast.Constant) and s_.value.value == 0]
    if not stores:
        ctx.met('R05.9', rf.qual, 'no in-place zeroing of a prolongator', rf.node, 'nothing to protect')
        return
    summ = effects.build_summaries(ctx.prog, modules={'pyiga.utils', 'pyiga.hierarchical'})
    for st in stores:
        name = st.targets[0].value.id
        defs = [d for d in own_nodes(rf.node) if isinstance(d, ast.Assign) and any(isinstance(t, ast.Name) and t.id == name for t in d.targets)]
        for d in defs:
            calls = [c for c in ast.walk(d.value) if isinstance(c, ast.Call) and (call_name(c) or '').split('.')[0] == 'utils']
            for c in calls:
                prod = (call_name(c) or '').split('.')[-1]
                fresh = summ.get(prod) == 'fresh'
                fi = ctx.prog.maybe_func('pyiga.utils.' + prod)
                ctx.decide('R05.9', rf.qual, '%s = %s(...); %s' % (name, call_name(c), src(st)[:50]), True if fresh else (False if fi is not None else None), c,
                           'utils.%s returns a freshly built matrix on every path' % prod if fresh else
                           'utils.%s can return one of its arguments (no copy on some path); represent_fine then zeroes rows of the STORED '
                           'prolongator hmesh.P[k] in place: after one THB representation of a univariate space every HB-side quantity '
                           '(represent_fine(truncate=False), virtual_hierarchy_prolongators, prolongate_to) is wrong' % prod, definite=True)


def r05_10(ctx):
    """bspline.prolongation returns a (numdofs(kv2) x numdofs(kv1)) matrix for EVERY pair: scipy's spsolve returns a 1-D
    array when the right-hand side has a single column, and csr_matrix of a 1-D array is a ROW -- the result must be brought
    back to the shape of the right-hand side."""
    f = ctx.prog.func('pyiga.bspline.prolongation')
    sp = [s_ for s_ in own_nodes(f.node) if isinstance(s_, ast.Assign) and any(isinstance(c, ast.Call) and (call_name(c) or '').endswith('spsolve') for c in ast.walk(s_.value))]
    if not sp:
        ctx.met('R05.10', f.qual, 'no spsolve with a matrix right-hand side', f.node)
        return
    text = src(f.node).replace(' ', '')
    reshaped = any(isinstance(c, ast.Call) and ((isinstance(c.func, ast.Attribute) and c.func.attr == 'reshape') or call_name(c) in ('np.reshape', 'np.atleast_2d', 'np.expand_dims'))
                   for c in ast.walk(f.node)) or any(k in text for k in ('.shape=', 'ndim', 'newaxis', ',None]', 'shape=('))
    ctx.decide('R05.10', f.qual, src(sp[0]), True if reshaped else False, sp[0],
               'the solution is given the shape of the right-hand side' if reshaped else
               'spsolve squeezes a one-column right-hand side to 1-D and csr_matrix turns that into a row: for a source basis with a single '
               'function (degree 0, one span) prolongation(kv1, kv2) has shape (1, n2) instead of (n2, 1)', definite=True)


def r05_11(ctx):
    """thb_to_hb / hb_to_thb are the product of the one-level (inverse) truncations of ALL levels 0 .. numlevels-2.  The loop over
    the levels is not left early: a level without active functions (its whole patch refined again) is followed by populated finer
    levels whose truncation still has to be applied; `break` there drops them, `continue` (skipping an identity factor) does not."""
    for name in ('thb_to_hb', 'hb_to_thb'):
        f = ctx.prog.func(H + '.HSpace.' + name)
        loops = [l for l in own_nodes(f.node) if isinstance(l, ast.For)]
        if not loops:
            ctx.undecided('R05.11', f.qual, 'loop over the levels', f.node, 'not recognised')
            continue
        for l in loops:
            exits = [x for x in ast.walk(l) if isinstance(x, (ast.Break, ast.Return))]
            it = src(l.iter).replace(' ', '')
            full = it in ('range(1,self.numlevels-1)', 'range(self.numlevels-1)', 'range(0,self.numlevels-1)')
            if exits:
                facts = ' and '.join(('' if p_ else 'not ') + t for (t, p_, _n) in guards.path_conditions(exits[0], stop=l)) or 'always'
                ctx.violated('R05.11', f.qual, '%s under %s' % (src(exits[0]), facts), exits[0],
                             'the product of the level truncations is cut off at this level: in a hierarchy where an intermediate level has lost all '
                             'its active functions (numactive = (7, 4, 0, 22)) the truncations against the finer, populated levels are never '
                             'applied -- THB evaluation disagrees with represent_fine(truncate=True) by O(1), partition of unity lost')
            else:
                ctx.decide('R05.11', f.qual, 'for %s in %s: no early exit' % (src(l.target), src(l.iter)), True if full else None, l,
                           'every level contributes its factor')
            # a level is not skipped because it has no active functions either: truncate_one_level(k) truncates ALL functions of levels
            # 0..k with respect to level k+1, so it is not the identity when level k is empty and level k+1 is populated
            for x in [x for x in ast.walk(l) if isinstance(x, ast.Continue)]:
                conds = guards.path_conditions(x, stop=l)
                txt = ' and '.join(('' if p_ else 'not ') + t for (t, p_, _n) in conds)
                if 'actfun' in txt or 'numactive' in txt or 'active_functions' in txt:
                    ctx.violated('R05.11', f.qual, 'continue under %s' % txt, x,
                                 'the factor of a level without active functions is skipped, but truncate_one_level(k) acts on the functions of all '
                                 'coarser levels (truncation against level k+1): for numactive = (36, 0, 4) the level-0 functions stay untruncated '
                                 'and T^T A T is not the THB Galerkin matrix (5.9e-1)')
                else:
                    ctx.undecided('R05.11', f.qual, 'continue under %s' % (txt or 'always'), x, 'a level factor is skipped under a condition this rule cannot judge')


def run(ctx):
    r05_11(ctx)
    r05_10(ctx)
    r05_9(ctx)
    r05_8(ctx)
    r05_7(ctx)
    r05_6(ctx)
    r05_1(ctx)
    r05_2(ctx)
    r05_3(ctx)
    r05_4(ctx)
    # R05.5 = R04.4: the cached index lists (ravel_global etc.) that place the rows and columns of every transfer matrix are
    # invalidated after each state write
    import rules.C04 as c04
    ctx.shared(c04.r04_4, 'R04.4', 'R05.5')

"""C13 -- compilation caching never substitutes a different assembler (structural clauses)."""
import ast
import os
import shutil
import subprocess
import sys
import tempfile

from sa.program import src, own_nodes, call_name, parent, kwarg, AnchorMissing, REPO
from sa import guards, exprmodel, resolve
import sa.program as program_mod

EXPLANATION = (
    "Static rules over pyiga/vform.py, compile.py, codegen/cython.py, scripts/generate-assemblers.py and the shipped generated "
    "sources: (R13.1) hash-key completeness of every expression class (shared with C06: every identifying attribute, in particular "
    "every attribute the generator reads, reaches the key through injective operations, and every combiner of child hashes keeps "
    "the operands positional); (R13.2) VForm.hash covers every configuration attribute of VForm / BasisFun / "
    "InputField / Parameter / AsmVar that the generator reads, directly or through a frozen derivation; (R13.3) every parameter of "
    "compile_vform that reaches generate() is part of the in-process cache key and seeding uses the same key constructor; (R13.4) the "
    "on-disk module name is a digest of exactly the source string that is written; (R13.5) the (form constructor, class name) pairs "
    "seeded into the cache equal those the generator script emits, and the classes exist in assemblers.pyx; (R13.7) hash totality: "
    "every table indexed by VForm.hash/AsmVar.hash is defined on the whole domain it is indexed over; (R13.6) freshness: the "
    "generator script is run on a scratch copy of the sources (the build step it is) and its output is compared with the shipped "
    "assemblers.pyx / genericasm.pxi as lowered Cython trees.")
DOES_NOT_DECIDE = "collisions of Python's 64-bit hash(); behavioural identity of two assemblers"
TECHNIQUE = "custom AST rules: attribute def/use vs. hash coverage, parameter flow into cache keys, table agreement; tree comparison of regenerated sources (R13.6 runs the repository's generator script)"
ASSUMPTIONS = ["R13.6 executes scripts/generate-assemblers.py from a scratch copy (stated exception to 'no execution'); its verdict is a tree comparison"]

VF = exprmodel.VF
CG = exprmodel.CG
CP = 'pyiga.compile'

# attributes that are hashed indirectly (confirmed by reading); value = the hashed attribute(s) they derive from
DERIVED = {
    'VForm': {
        'geo_dim': 'inputs: the geometry is declared as input "geo" with shape (geo_dim,) and InputField.hash covers the shape',
        'params': 'vars: parameter() declares every Parameter as a sourced variable, AsmVar.hash covers Parameter.hash()',
        'spacedims': 'dim, spacetime', 'timedim': 'dim, spacetime',
        'linear_deps': 'computed by finalize from exprs/vars', 'precomp': 'computed by finalize', 'kernel_deps': 'computed by finalize',
        'predefined_vars': 'constant table', 'Geo': 'inputs', '__hash': 'the cache itself', '__is_finalized': 'state flag',
    },
    'AsmVar': {'vform': 'back reference', 'scope': 'derived from expr/src', 'is_global': 'computed by finalize', 'as_expr': 'derived from shape',
               'expr': 'hashed through expr_hashes / exprhash', 'src': 'hashed through src.hash()'},
    'BasisFun': {'vform': 'back reference', 'scope': 'constant'},
    'InputField': {'vform': 'back reference', 'scope': 'constant'},
    'Parameter': {'scope': 'constant', 'symmetric': 'constant False'},
}


def _self_attrs_in(fn):
    out = set()
    for n in ast.walk(fn):
        if isinstance(n, ast.Attribute) and isinstance(n.value, ast.Name) and n.value.id == 'self':
            a = n.attr
            out.add(a)
    return out


def r13_2(ctx):
    prog = ctx.prog
    gen_unit = prog.unit(CG)
    # what the generator reads from each model class, by receiver naming convention
    receivers = {
        'VForm': ('vf', 'self.vform', 'vform'),
        'BasisFun': ('bfun', 'bf', 'basisfun'),
        'InputField': ('inp', 's'),
        'Parameter': ('par', 'param'),
        'AsmVar': ('var',),
    }
    for cname, recv in receivers.items():
        cls = prog.cls(VF + '.' + cname)
        init = exprmodel.init_attrs(cls)
        reads = {}
        for n in ast.walk(gen_unit.tree):
            if isinstance(n, ast.Attribute) and src(n.value) in recv:
                reads.setdefault(n.attr, n)
        # expand method reads to the attributes they read
        attrs_read = {}
        for a, node in reads.items():
            if a in init:
                attrs_read.setdefault(a, node)
            elif a in cls.methods:
                for b in _self_attrs_in(cls.methods[a].node):
                    if b in init:
                        attrs_read.setdefault(b, node)
                    elif b in cls.methods:
                        for c2 in _self_attrs_in(cls.methods[b].node):
                            if c2 in init:
                                attrs_read.setdefault(c2, node)
        h = cls.methods.get('hash')
        if h is None:
            raise AnchorMissing('R13.2: %s.hash' % cname)
        hashed = _self_attrs_in(h.node)
        # a helper extracted from hash() (a method the confirmed reference does not have, called from hash) is part of hash()
        from sa import alpha as _alpha
        for _depth in range(2):
            for c in [x for x in ast.walk(h.node) if isinstance(x, ast.Call) and isinstance(x.func, ast.Attribute)
                      and isinstance(x.func.value, ast.Name) and x.func.value.id == 'self' and x.func.attr in cls.methods]:
                mm = cls.methods[c.func.attr]
                if _alpha.is_new_function(mm.qual):
                    hashed |= _self_attrs_in(mm.node)
        ctx.count('R13.2 attributes of %s read by the generator' % cname, len(attrs_read))
        for a, node in sorted(attrs_read.items()):
            construct = '%s.%s.hash' % (VF, cname)
            st = 'attribute %s (read by the generator as %s)' % (a, src(node))
            if a in hashed or ('__' + a.lstrip('_')) in hashed:
                ctx.met('R13.2', construct, st, h.node, 'part of the hash')
            elif a in DERIVED.get(cname, {}):
                ctx.met('R13.2', construct, st, h.node, 'derived: ' + DERIVED[cname][a])
            else:
                ctx.violated('R13.2', construct, st, init[a],
                             '%s.%s influences the generated code but is not part of %s.hash(): two forms differing only in it share a cache entry'
                             % (cname, a, cname))
        if cname == 'VForm':
            ctx.floor('R13.2', 'VForm attributes read by the generator', len(attrs_read), 8)
    # the derivations that R13.2 relies on are themselves checked
    vinit = prog.func(VF + '.VForm.__init__')
    ok = "self.Geo = self.input('geo', shape=(geo_dim,))" in src(vinit.node)
    ctx.decide('R13.2', vinit.qual, "self.Geo = self.input('geo', shape=(geo_dim,))", ok, vinit.node, 'derivation of geo_dim through the hashed inputs')
    par = prog.func(VF + '.VForm.parameter')
    ok = 'return self.declare_sourced_var(name, shape, param)' in src(par.node)
    ctx.decide('R13.2', par.qual, 'parameter() declares a sourced variable', ok, par.node, 'derivation of params through the hashed vars')
    ah = prog.func(VF + '.AsmVar.hash')
    t = src(ah.node).replace(' ', '')
    ok = 'hash((self.name,src_hash,self.shape,self.symmetric,self.deriv))' in t
    ctx.decide('R13.2', ah.qual, 'AsmVar.hash = hash((name, src_hash, shape, symmetric, deriv))', ok or None, ah.node)


def r13_3(ctx):
    cv = ctx.prog.func(CP + '.compile_vform')
    params = [a.arg for a in cv.node.args.args]
    gen_calls = [c for c in ast.walk(cv.node) if isinstance(c, ast.Call) and call_name(c) == 'generate']
    if not gen_calls:
        raise AnchorMissing('R13.3: generate() call in compile_vform')
    flowing = set()
    for c in gen_calls:
        for a in list(c.args) + [k.value for k in c.keywords]:
            flowing |= {n.id for n in ast.walk(a) if isinstance(n, ast.Name) and n.id in params}
    key = [s for s in own_nodes(cv.node) if isinstance(s, ast.Assign) and src(s.targets[0]) == 'cache_key']
    if not key:
        raise AnchorMissing('R13.3: cache_key')
    # parameters that flow into the key, through local names if necessary
    frontier = {n.id for n in ast.walk(key[0].value) if isinstance(n, ast.Name)}
    seen_names = set()
    while frontier:
        nm = frontier.pop()
        if nm in seen_names:
            continue
        seen_names.add(nm)
        for s in own_nodes(cv.node):
            if isinstance(s, ast.Assign) and any(src(t) == nm for t in s.targets) and s.lineno <= key[0].lineno:
                frontier |= {n.id for n in ast.walk(s.value) if isinstance(n, ast.Name)}
    in_key = {n for n in seen_names if n in params}
    for p in sorted(flowing):
        ctx.decide('R13.3', cv.qual, 'parameter %r reaches generate() and the cache key' % p, p in in_key, key[0],
                   'cache_key = %s' % src(key[0].value))
    ctx.floor('R13.3', 'parameters flowing into generate()', len(flowing), 2)
    ok = 'vf.hash()' in src(key[0].value)
    ctx.decide('R13.3', cv.qual, 'form enters the key through vf.hash()', ok, key[0])
    # key computed before generate() (generate finalizes = rewrites the form)
    ok = key[0].lineno < min(c.lineno for c in gen_calls)
    ctx.decide('R13.3', cv.qual, 'cache key computed before generate()', ok, key[0], 'finalize() rewrites the expressions; the hash is frozen at first use')
    st = [s for s in own_nodes(cv.node) if isinstance(s, ast.Assign) and src(s.targets[0]).startswith('__vform_asm_cache[')]
    ok = bool(st) and src(st[0].targets[0]) == '__vform_asm_cache[cache_key]' and src(st[0].value) == 'asm'
    ctx.decide('R13.3', cv.qual, src(st[0]) if st else 'store', ok, st[0] if st else cv.node, 'stored under the key that was looked up')
    seed = ctx.prog.func(CP + '.__add_to_vform_asm_cache')
    k2 = [s for s in own_nodes(seed.node) if isinstance(s, ast.Assign) and src(s.targets[0]) == 'cache_key']
    def inlined(expr, fn, before):
        """source of expr with single-assignment locals (assigned before `before`) substituted"""
        import copy

        class Inl(ast.NodeTransformer):
            def visit_Name(self, n):
                ds = [s for s in own_nodes(fn) if isinstance(s, ast.Assign) and len(s.targets) == 1 and src(s.targets[0]) == n.id
                      and s.lineno < before]
                if len(ds) == 1 and isinstance(n.ctx, ast.Load):
                    return self.visit(copy.deepcopy(ds[0].value))
                return n
        return src(Inl().visit(copy.deepcopy(expr)))
    a = inlined(key[0].value, cv.node, key[0].lineno).replace('on_demand', 'X')
    # the key under which the seeding function stores: the subscript of its store into the cache, read through locals
    from sa import resolve as _resolve
    st2 = [s_ for s_ in own_nodes(seed.node) if isinstance(s_, ast.Assign) and isinstance(s_.targets[0], ast.Subscript)
           and src(s_.targets[0].value) == '__vform_asm_cache']
    if st2:
        kexpr = _resolve.expand(st2[0].targets[0].slice, st2[0])
        b = src(kexpr).replace('False', 'X')
        form_param = seed.node.args.args[0].arg if seed.node.args.args else 'vf'
        b = b.replace(form_param + '.hash()', 'vf.hash()')
        ctx.decide('R13.3', seed.qual, 'seeding key %s' % src(kexpr), a == b, st2[0],
                   'same key constructor as the lookup, with on_demand=False (shipped assemblers are not on-demand)')
    else:
        ctx.undecided('R13.3', seed.qual, 'seeding key', seed.node, 'store into the cache not recognised')
    hh = ctx.prog.func(VF + '.VForm.hash')
    ok = 'if self.__hash is None' in src(hh.node) and 'return self.__hash' in src(hh.node)
    ctx.decide('R13.3', hh.qual, 'hash computed once and cached', ok, hh.node)
    ad = ctx.prog.func(VF + '.VForm.add')
    # the memo field of hash(): assigned under `if self.<M> is None`
    memo = None
    for iff in [n for n in own_nodes(hh.node) if isinstance(n, ast.If)]:
        t = iff.test
        if isinstance(t, ast.Compare) and len(t.ops) == 1 and isinstance(t.ops[0], ast.Is) and isinstance(t.comparators[0], ast.Constant) \
                and t.comparators[0].value is None and isinstance(t.left, ast.Attribute) and src(t.left.value) == 'self':
            memo = t.left.attr
    guards_raise = [n for n in own_nodes(ad.node) if isinstance(n, ast.If) and any(isinstance(b, ast.Raise) for b in n.body)]
    if memo is None:
        ctx.undecided('R13.3', ad.qual, 'add() refuses to modify a hashed form', ad.node, 'memo field of hash() not recognised')
    elif not guards_raise:
        ctx.violated('R13.3', ad.qual, 'add() refuses to modify a hashed form', ad.node,
                     'hash() memoises the key in self.%s but add() never refuses: a term added after the key was taken is not part of it' % memo)
    else:
        def frozen_when_hashed(test):
            # true whenever self.<memo> is not None: the literal itself or a disjunction containing it
            if isinstance(test, ast.BoolOp) and isinstance(test.op, ast.Or):
                return any(frozen_when_hashed(v) for v in test.values)
            return isinstance(test, ast.Compare) and len(test.ops) == 1 and isinstance(test.ops[0], ast.IsNot) \
                and isinstance(test.comparators[0], ast.Constant) and test.comparators[0].value is None \
                and isinstance(test.left, ast.Attribute) and src(test.left.value) == 'self' and test.left.attr == memo
        okg = any(frozen_when_hashed(g.test) for g in guards_raise)
        other = sorted({n.attr for g in guards_raise for n in ast.walk(g.test) if isinstance(n, ast.Attribute) and src(n.value) == 'self'} - {memo})
        ctx.decide('R13.3', ad.qual, 'add() refuses to modify a hashed form', True if okg else (False if other else None), guards_raise[0],
                   'a form cannot change after its key was taken' if okg else
                   'add() refuses only under `%s`, which says nothing about the memoised key self.%s: vf.hash(); vf.add(term); compile_vform(vf) '
                   'looks up the key of the form WITHOUT the last term' % (src(guards_raise[0].test), memo), definite=True)


def r13_4(ctx):
    cm = ctx.prog.func(CP + '.compile_cython_module')
    mn = [s for s in own_nodes(cm.node) if isinstance(s, ast.Assign) and src(s.targets[0]) == 'modname']
    if not mn:
        raise AnchorMissing('R13.4: modname')
    t = src(mn[0].value).replace(' ', '')
    ok = 'hashlib.shake_128(src.encode()).hexdigest(' in t or 'hashlib.sha256(src.encode()).hexdigest(' in t
    ctx.decide('R13.4', cm.qual, src(mn[0]), ok, mn[0], 'module name is a process-independent digest of the whole source string')
    calls = [c for c in ast.walk(cm.node) if isinstance(c, ast.Call) and call_name(c) == '_compile_cython_module_nocache']
    ok = bool(calls) and [src(a) for a in calls[0].args[:2]] == ['src', 'modname']
    ctx.decide('R13.4', cm.qual, src(calls[0]) if calls else 'build call', ok, calls[0] if calls else cm.node, 'the digested string is the string that is built')
    nc = ctx.prog.func(CP + '._compile_cython_module_nocache')
    wr = [c for c in ast.walk(nc.node) if isinstance(c, ast.Call) and isinstance(c.func, ast.Attribute) and c.func.attr == 'write']
    ok = bool(wr) and src(wr[0].args[0]) == 'src'
    ctx.decide('R13.4', nc.qual, src(wr[0]) if wr else 'write', ok, wr[0] if wr else nc.node, 'exactly src is written to <modname>.pyx')
    imp = [c for c in ast.walk(nc.node) if isinstance(c, ast.Call) and call_name(c) == 'importlib.import_module']
    ok = bool(imp) and src(imp[0].args[0]) == 'modname'
    ctx.decide('R13.4', nc.qual, src(imp[0]) if imp else 'import', ok, imp[0] if imp else nc.node)
    ext = [c for c in ast.walk(nc.node) if isinstance(c, ast.Call) and call_name(c) == 'Extension']
    ok = bool(ext) and src(kwarg(ext[0], 'name')) == 'modname'
    ctx.decide('R13.4', nc.qual, 'Extension(name=modname, ...)', ok, ext[0] if ext else nc.node, 'built module carries the digest name')
    g = ctx.prog.func(CP + '.generate')
    r = src(guards.returns_of(g.node)[-1].value).replace(' ', '')
    ctx.decide('R13.4', g.qual, 'return ' + r, r == "codegen.preamble()+'\\n'+code.result()", g.node, 'source = preamble + generated class')


def seeded_pairs(node):
    """[(constructor call src, class-name prefix)] from calls f(vform.X(dim...), ... 'Name'+nD ...)"""
    out = []
    for c in ast.walk(node):
        if isinstance(c, ast.Call) and call_name(c) in ('__add_to_vform_asm_cache', 'gen') and len(c.args) == 2:
            vf, cls = c.args
            name = None
            for n in ast.walk(cls):
                if isinstance(n, ast.Constant) and isinstance(n.value, str) and n.value not in ('D',):
                    name = n.value
            out.append((src(vf).replace(' ', ''), name, c))
    return out


def r13_5(ctx):
    cp = ctx.prog.unit(CP)
    loop = [s for s in cp.tree.body if isinstance(s, ast.For) and 'dim' in src(s.target)]
    if not loop:
        raise AnchorMissing('R13.5: seeding loop in compile.py')
    seeded = seeded_pairs(loop[0])
    dims = src(loop[0].iter)
    gs = ctx.prog.func('scripts.generate-assemblers.generate')
    generated = seeded_pairs(gs.node)
    ctx.floor('R13.5', 'seeded (form, class) pairs', len(seeded), 7)
    ctx.floor('R13.5', 'generated (form, class) pairs', len(generated), 7)
    sp = {(a, b) for a, b, _ in seeded}
    gp = {(a, b) for a, b, _ in generated}
    for a, b, c in seeded:
        ctx.decide('R13.5', CP + '.<module>', 'seed %s -> %s<dim>D' % (a, b), (a, b) in gp, c,
                   'the generator script emits class %s for exactly this form' % b)
    for a, b, c in generated:
        if (a, b) not in sp:
            ctx.note('generator emits %s for %s which is not seeded into the cache (harmless: it would be compiled on demand)' % (b, a))
    # dims
    main = [s for s in ctx.prog.unit('scripts.generate-assemblers').tree.body if isinstance(s, ast.If)]
    gd = sorted({src(kwarg(c, 'dim')) for c in ast.walk(main[0]) if isinstance(c, ast.Call) and call_name(c) == 'generate'}) if main else []
    ctx.decide('R13.5', CP + '.<module>', 'seeded dims %s, generated dims %s' % (dims, gd), dims.replace(' ', '') == '(2,3)' and gd == ['2', '3'], loop[0])
    # classes exist in assemblers.pyx
    asm = ctx.prog.unit('pyiga.assemblers')
    classes = {s.name for s in asm.tree.body if isinstance(s, ast.ClassDef)}
    for a, b, c in seeded:
        for d in ('2D', '3D'):
            ctx.decide('R13.5', 'pyiga.assemblers', 'class %s%s exists' % (b, d), (b + d) in classes, c)
    # the form constructors exist in vform
    for a, b, c in seeded:
        fn = a.split('(')[0].split('.')[-1]
        ctx.decide('R13.5', VF + '.' + fn, 'constructor %s exists' % fn, ctx.prog.maybe_func(VF + '.' + fn) is not None, c)


def r13_7(ctx):
    """Map-domain coverage: expr_hashes is built over expressions reachable from self.exprs."""
    hh = ctx.prog.func(VF + '.VForm.hash')
    ah = ctx.prog.func(VF + '.AsmVar.hash')
    t = src(hh.node).replace(' ', '')
    over_all_vars = 'tuple((var.hash(expr_hashes)forvarinself.vars.values()))' in t
    table_reachable = 'expr_hashes=self.compute_recursive(' in t
    subs = [n for n in ast.walk(ah.node) if isinstance(n, ast.Subscript) and src(n.value) == 'expr_hashes']
    if not subs:
        ctx.met('R13.7', ah.qual, 'AsmVar.hash does not index a partial table', ah.node)
        return
    for s in subs:
        guarded = False
        p = parent(s)
        while p is not None and p is not ah.node:
            if isinstance(p, ast.IfExp) and 'in expr_hashes' in src(p.test):
                guarded = True
            if isinstance(p, ast.If) and 'in expr_hashes' in src(p.test):
                guarded = True
            if isinstance(p, ast.Try):
                guarded = True
            p = parent(p)
        if over_all_vars and table_reachable and not guarded:
            ctx.violated('R13.7', ah.qual, src(s), s,
                         'expr_hashes is defined on expressions reachable from the integrands, but it is indexed with var.expr for EVERY declared '
                         'variable: a form that defines (or merely touches, e.g. V.Jac) a variable it does not use raises KeyError in hash()')
        else:
            ctx.met('R13.7', ah.qual, src(s), s, 'lookup guarded by a membership test with a fallback' if guarded else 'domains agree')
    ev = ctx.prog.func(VF + '.VForm.hash')
    ok = 'tuple((expr_hashes[e]foreinself.exprs))' in t
    ctx.decide('R13.7', ev.qual, 'integrand hashes are looked up for e in self.exprs (inside the table\'s domain)', ok or None, ev.node)


def r13_6(ctx, seeds=(0,)):
    """Freshness of the shipped generated sources."""
    from sa import cyfront
    repo = program_mod.REPO
    for seed in seeds:
        d = tempfile.mkdtemp(prefix='verif_c13_')
        try:
            shutil.copytree(os.path.join(repo, 'pyiga'), os.path.join(d, 'pyiga'),
                            ignore=shutil.ignore_patterns('*.so', '*.c', '*.cpp', '__pycache__', 'build'))
            shutil.copytree(os.path.join(repo, 'scripts'), os.path.join(d, 'scripts'), ignore=shutil.ignore_patterns('__pycache__'))
            env = dict(os.environ, PYTHONPATH=d, PYTHONHASHSEED=str(seed), PYTHONDONTWRITEBYTECODE='1')
            p = subprocess.run([sys.executable, os.path.join(d, 'scripts', 'generate-assemblers.py'), '--generic'], cwd=d, env=env,
                               capture_output=True, text=True, timeout=300)
            if p.returncode != 0:
                ctx.undecided('R13.6', 'scripts/generate-assemblers.py', 'generator run (PYTHONHASHSEED=%d)' % seed, None,
                              'generator failed: ' + (p.stderr.strip().splitlines() or ['?'])[-1][:200], where='scripts/generate-assemblers.py')
                continue
            for rel in ('pyiga/assemblers.pyx', 'pyiga/genericasm.pxi'):
                new_text = open(os.path.join(d, rel)).read()
                old_text = open(os.path.join(repo, rel)).read()
                st = '%s regenerated (PYTHONHASHSEED=%d)' % (rel, seed)
                if new_text == old_text:
                    ctx.met('R13.6', rel, st, None, 'byte-identical to the shipped file', where=rel)
                    continue
                # compare as trees
                if rel.endswith('.pxi'):
                    # lower through the including module
                    a, _ = cyfront.lower_file(os.path.join(d, 'pyiga', 'assemble_tools_cy.pyx'))
                    b, _ = cyfront.lower_file(os.path.join(repo, 'pyiga', 'assemble_tools_cy.pyx'))
                else:
                    a, _ = cyfront.lower_file(os.path.join(d, rel))
                    b, _ = cyfront.lower_file(os.path.join(repo, rel))
                diff = first_tree_difference(a, b)
                if diff is None:
                    ctx.met('R13.6', rel, st, None, 'differs in text (comments/whitespace) but the trees are identical', where=rel)
                else:
                    ctx.violated('R13.6', rel, st, None,
                                 'the shipped file is not what the generator produces today: ' + diff, where=rel)
        finally:
            shutil.rmtree(d, ignore_errors=True)


def first_tree_difference(a, b):
    """Compare two lowered modules function by function; None if equal up to the order of
    top-level definitions, else a description of the first difference."""
    def index(mod):
        out = {}

        def rec(body, prefix):
            for s in body:
                if isinstance(s, ast.ClassDef):
                    rec(s.body, prefix + s.name + '.')
                elif isinstance(s, ast.FunctionDef):
                    out[prefix + s.name] = ast.dump(s, include_attributes=False)
        rec(mod.body, '')
        return out
    ia, ib = index(a), index(b)
    for k in sorted(set(ia) | set(ib)):
        if k not in ia:
            return 'shipped defines %s which the generator no longer emits' % k
        if k not in ib:
            return 'generator emits %s which is not in the shipped file' % k
        if ia[k] != ib[k]:
            return 'definition of %s differs' % k
    return None


def r13_8(ctx):
    """VForm.hash combines the hashes of its parts as an ORDERED SEQUENCE WITH MULTIPLICITY (tuple concatenation): the added
    expressions are summed by the generated kernel, so `vf.add(t); vf.add(t)` is the form 2t and must not share a key with t.
    A set / frozenset (or sorted-unique, or xor) of the component hashes forgets multiplicity."""
    cls = ctx.prog.cls(VF + '.VForm')
    h = cls.methods.get('hash')
    if h is None:
        raise AnchorMissing('R13.8: VForm.hash')
    from sa import alpha as _alpha
    nodes = [h.node]
    for c in ast.walk(h.node):
        if isinstance(c, ast.Call) and isinstance(c.func, ast.Attribute) and isinstance(c.func.value, ast.Name) and c.func.value.id == 'self' \
                and c.func.attr in cls.methods and _alpha.is_new_function(cls.methods[c.func.attr].qual):
            nodes.append(cls.methods[c.func.attr].node)
    bad = []
    for nd in nodes:
        for c in ast.walk(nd):
            if isinstance(c, ast.Call) and call_name(c) in ('frozenset', 'set', 'np.unique') and c.args \
                    and any(k in src(c) for k in ('hash', 'exprs')):
                bad.append(c)
            if isinstance(c, (ast.SetComp,)) and any(k in src(c) for k in ('hash', 'exprs')):
                bad.append(c)
            if isinstance(c, ast.BinOp) and isinstance(c.op, ast.BitXor) and 'hash' in src(c):
                bad.append(c)
    if bad:
        ctx.violated('R13.8', h.qual, src(bad[0])[:90], bad[0],
                     'component hashes are collected in a set: multiplicity (and order) of the added terms is lost -- a form with u*v*dx added twice '
                     '(the form 2 u v dx, whose kernel has two accumulation lines) gets the cache key of the mass form and is answered with '
                     'MassAssembler2D (max |A - 2M| = 5e-2)')
    else:
        ctx.met('R13.8', h.qual, 'component hashes are combined as tuples', h.node, 'order and multiplicity enter the key')


def run(ctx):
    r13_8(ctx)
    import rules.C06 as c06
    c06.r06_1(ctx, rule='R13.1')
    c06.hash_combiners(ctx, 'R13.1')
    r13_2(ctx)
    r13_3(ctx)
    r13_4(ctx)
    r13_5(ctx)
    r13_7(ctx)
    if os.environ.get('VERIF_NO_REGEN') != '1':
        r13_6(ctx, seeds=(0,))


def run_thorough(ctx):
    if os.environ.get('VERIF_NO_REGEN') != '1':
        r13_6(ctx, seeds=(1, 2, 3, 4))

"""C10 -- eliminating Dirichlet dofs is exact for any index set (structural clauses)."""
import ast
import copy

from sa.program import src, own_nodes, call_name, parent, kwarg, AnchorMissing
from sa import guards, resolve

EXPLANATION = (
    "Static rules over pyiga/assemble.py: (R10.1) order-provenance tagging in RestrictedLinearSystem: the selection matrix of the "
    "eliminated dofs lists them in increasing dof order (boolean-mask row selection), so every vector multiplied with its transpose "
    "must carry the same order tag -- the caller's (indices, values) pair must be brought into sorted order jointly or the matrix "
    "built in caller order; (R10.2) index/value pairs stay coupled in combine_bcs (np.unique(..., return_index=True) applied to the "
    "values), _drop_nans (one mask on both) and compute_dirichlet_bc (raveled slice indices and raveled coefficients are both "
    "lexicographic); (R10.3) multipatch boundary data address glued dofs through the patch-to-global map; (R10.4) blocked "
    "numbering offset j*prod(N), 'all' expands to all 2*dim faces, slice conventions for sides; (R10.5) restrict / extend / "
    "restrict_matrix / complete use one consistent set of selection matrices.  The order tags distinguish the sorting "
    "permutation (argsort) from the rank of the indices (np.unique(..., return_inverse=True)), which is its inverse.")
DOES_NOT_DECIDE = "interpolation accuracy of boundary data; the space-time initial condition beyond index pairing"
TECHNIQUE = "custom AST rules: order-provenance (pair-coupling) tags on arrays, def-use of selection matrices, table/convention agreement"

A = 'pyiga.assemble'


def order_tag(expr, fn, depth=0):
    """Order tag of a values/indices array inside RestrictedLinearSystem.__init__:
    'CALLER' (as passed in), 'SORTED' (jointly sorted with the indices), or None."""
    if depth > 5:
        return None
    if isinstance(expr, ast.Name):
        defs = [s for s in own_nodes(fn) if isinstance(s, ast.Assign) and any(src(t) == expr.id for t in s.targets)]
        tup = [s for s in own_nodes(fn) if isinstance(s, ast.Assign) and isinstance(s.targets[0], ast.Tuple)
               and any(src(t) == expr.id for t in s.targets[0].elts)]
        tags = set()
        for s in defs:
            tags.add(order_tag(s.value, fn, depth + 1))
        for s in tup:
            # indices, values = bcs   -> CALLER
            if isinstance(s.value, ast.Name):
                tags.add('CALLER')
            elif isinstance(s.value, ast.Tuple):
                i = [src(t) for t in s.targets[0].elts].index(expr.id)
                tags.add(order_tag(s.value.elts[i], fn, depth + 1))
        if not defs and not tup:
            return 'CALLER'
        if 'SORTED' in tags and 'CALLER' in tags:
            # e.g.  values = broadcast(...) in one branch, values = values[order] later: last definition wins if unconditional
            last = max(defs + tup, key=lambda s: s.lineno)
            v = last.value
            if isinstance(last.targets[0], ast.Tuple):
                i = [src(t) for t in last.targets[0].elts].index(expr.id)
                v = v.elts[i] if isinstance(v, ast.Tuple) else v
            if not isinstance(parent(last), (ast.If, ast.For, ast.While)) or _is_else_of_scalar_test(last):
                return order_tag(v, fn, depth + 1) if not isinstance(v, ast.Name) or v.id != expr.id else 'CALLER'
            return None
        if tags == {'UNIFORM', 'SORTED'} or tags == {'UNIFORM'}:
            return 'SORTED'
        if 'UNIFORM' in tags and 'CALLER' in tags:
            return 'CALLER'
        if len(tags) == 1:
            return tags.pop()
        return None
    if isinstance(expr, ast.Call):
        name = call_name(expr)
        if name == 'np.broadcast_to':
            return 'UNIFORM'          # a scalar repeated: order irrelevant
        if name in ('np.asarray', 'np.asanyarray', 'np.array', 'np.ravel'):
            return order_tag(expr.args[0], fn, depth + 1)
        if name in ('np.sort', 'sorted'):
            return 'SORTED-ALONE'
    if isinstance(expr, ast.Subscript):
        # values[order] with order = np.argsort(indices)
        sl = expr.slice
        if _is_argsort_of_indices(sl, fn):
            return 'SORTED'
        if _is_rank_of_indices(sl, fn):
            return 'RANK-PERMUTED'      # values[rank]: the INVERSE of the sorting permutation is applied
        return order_tag(expr.value, fn, depth + 1) if isinstance(sl, ast.Slice) else None
    if isinstance(expr, ast.Attribute) and src(expr) == 'self.values':
        defs = [s for s in own_nodes(fn) if isinstance(s, ast.Assign) and src(s.targets[0]) == 'self.values']
        if defs:
            return order_tag(defs[-1].value, fn, depth + 1)
    return None


def _is_else_of_scalar_test(stmt):
    p = parent(stmt)
    return isinstance(p, ast.If) and 'isscalar' in src(p.test) and stmt in p.orelse


def _is_rank_of_indices(e, fn):
    """name bound to the `inverse` output of np.unique(indices, return_inverse=True) (= rank of each index)
    or to argsort(argsort(indices))."""
    if isinstance(e, ast.Call) and call_name(e) == 'np.argsort' and e.args and _is_argsort_of_indices(e.args[0], fn):
        return True
    if isinstance(e, ast.Name):
        for s in own_nodes(fn):
            if isinstance(s, ast.Assign) and isinstance(s.targets[0], ast.Tuple) and isinstance(s.value, ast.Call) \
                    and call_name(s.value) == 'np.unique' and s.value.args and 'indices' in src(s.value.args[0]):
                kinds = [k.arg for k in s.value.keywords if isinstance(k.value, ast.Constant) and k.value.value is True]
                order = [k for k in ('return_index', 'return_inverse', 'return_counts') if k in kinds]
                names = [src(x) for x in s.targets[0].elts]
                if e.id in names and names.index(e.id) >= 1:
                    i = names.index(e.id) - 1
                    if i < len(order) and order[i] == 'return_inverse':
                        return True
    return False


def _is_argsort_of_indices(e, fn):
    if isinstance(e, ast.Call) and call_name(e) in ('np.argsort',) and e.args and 'indices' in src(e.args[0]):
        return True
    if isinstance(e, ast.Name):
        defs = [s for s in own_nodes(fn) if isinstance(s, ast.Assign) and src(s.targets[0]) == e.id]
        if defs:
            return all(_is_argsort_of_indices(s.value, fn) for s in defs)
        # first-occurrence positions of np.unique(indices, return_index=True) sort unique indices
        for s in own_nodes(fn):
            if isinstance(s, ast.Assign) and isinstance(s.targets[0], ast.Tuple) and isinstance(s.value, ast.Call) \
                    and call_name(s.value) == 'np.unique' and s.value.args and 'indices' in src(s.value.args[0]):
                kinds = [k.arg for k in s.value.keywords if isinstance(k.value, ast.Constant) and k.value.value is True]
                order = [k for k in ('return_index', 'return_inverse', 'return_counts') if k in kinds]
                names = [src(x) for x in s.targets[0].elts]
                if e.id in names and names.index(e.id) >= 1:
                    i = names.index(e.id) - 1
                    return i < len(order) and order[i] == 'return_index'
    return False


def r10_1(ctx):
    init = ctx.prog.func(A + '.RestrictedLinearSystem.__init__')
    fn = init.node
    relim = [s for s in own_nodes(fn) if isinstance(s, ast.Assign) and src(s.targets[0]) == 'self.R_elim']
    if not relim:
        raise AnchorMissing('R10.1: self.R_elim assignment')
    v = relim[0].value
    # row order of the selection matrix
    row_tag = None
    if isinstance(v, ast.Subscript):
        sel = src(v.slice)
        if 'mask' in sel or 'logical_not' in sel or sel.startswith('~'):
            row_tag = 'SORTED'          # boolean mask selects rows in increasing index order
        elif 'indices' in sel:
            row_tag = order_tag(v.slice, fn) or 'CALLER'
    ctx.decide('R10.1', init.qual, 'rows of R_elim = %s are in %s order' % (src(v), row_tag), True if row_tag else None, relim[0],
               'boolean-mask row selection of the identity lists eliminated dofs in increasing order')
    # every product R_elim.T.dot(X) in the class
    cls = ctx.prog.cls(A + '.RestrictedLinearSystem')
    n = 0
    vals_tag = order_tag(ast.Name('values', ast.Load()), fn)
    for mname, m in cls.methods.items():
        for c in ast.walk(m.node):
            if isinstance(c, ast.Call) and src(c.func) == 'self.R_elim.T.dot' and c.args:
                n += 1
                x = c.args[0]
                if src(x) == 'values' and m is init:
                    tag = vals_tag
                elif src(x) == 'self.values':
                    sv = [s for s in own_nodes(fn) if isinstance(s, ast.Assign) and src(s.targets[0]) == 'self.values']
                    # tag of self.values = tag of `values` at the point of the store; if values is re-sorted later, the store must follow
                    tag = vals_tag
                    if sv and vals_tag == 'SORTED':
                        resort = [s for s in own_nodes(fn) if isinstance(s, ast.Assign) and 'values' in [src(t) for t in s.targets]
                                  and isinstance(s.value, ast.Subscript)]
                        if resort and sv[0].lineno < max(r.lineno for r in resort):
                            tag = 'CALLER'
                else:
                    tag = None
                st = '%s with rows %s and vector %s' % (src(c), row_tag, tag)
                if row_tag is None or tag is None:
                    ctx.undecided('R10.1', m.qual, st, c, 'order provenance not determined')
                elif tag == row_tag or tag == 'UNIFORM':
                    ctx.met('R10.1', m.qual, st, c, 'vector and selection matrix agree on the order of the eliminated dofs')
                else:
                    ctx.violated('R10.1', m.qual, st, c,
                                 'the k-th row of R_elim is the k-th SMALLEST eliminated dof, the k-th value belongs to the k-th index AS PASSED: '
                                 'for unsorted indices the prescribed values are assigned to the wrong dofs (e.g. indices [3,0], values [30,10])')
    ctx.floor('R10.1', 'products with R_elim^T', n, 2)


def r10_2(ctx):
    cb = ctx.prog.func(A + '.combine_bcs')
    t = src(cb.node)
    u = [s for s in own_nodes(cb.node) if isinstance(s, ast.Assign) and isinstance(s.value, ast.Call) and call_name(s.value) == 'np.unique']
    if not u:
        raise AnchorMissing('R10.2: np.unique in combine_bcs')
    ri = kwarg(u[0].value, 'return_index')
    names = [src(x) for x in u[0].targets[0].elts] if isinstance(u[0].targets[0], ast.Tuple) else []
    r = guards.returns_of(cb.node)[-1].value
    ok = isinstance(ri, ast.Constant) and ri.value is True and len(names) == 2 and isinstance(r, ast.Tuple) and \
        src(r.elts[0]) == names[0] and src(r.elts[1]).replace(' ', '') == 'values[%s]' % names[1] and src(u[0].value.args[0]) == 'indices'
    # semantic part: which selector pairs the values with the unique indices?
    sel = None
    if isinstance(r, ast.Tuple) and len(r.elts) == 2:
        v = r.elts[1]
        if isinstance(v, ast.Name):
            ds = [s for s in own_nodes(cb.node) if isinstance(s, ast.Assign) and src(s.targets[0]) == v.id]
            v = ds[-1].value if ds else v
        if isinstance(v, ast.Subscript) and src(v.value) == 'values':
            sel = src(v.slice)
    kinds = {k.arg for k in u[0].value.keywords if isinstance(k.value, ast.Constant) and k.value.value is True}
    pos = {n: i for i, n in enumerate(names)}
    if ok:
        ctx.met('R10.2', cb.qual, '%s ; return %s' % (src(u[0]), src(r)), u[0],
                'unique indices with the positions of their first occurrences; the same positions select the values')
    elif sel is not None and sel in pos and pos[sel] >= 1:
        # outputs of np.unique in order: unique, [index], [inverse], [counts]
        order = [k for k in ('return_index', 'return_inverse', 'return_counts') if k in kinds]
        which = order[pos[sel] - 1] if pos[sel] - 1 < len(order) else None
        ctx.decide('R10.2', cb.qual, '%s ; values[%s]' % (src(u[0]), sel), which == 'return_index', u[0],
                   'values must be selected by the first-occurrence positions (return_index); %s gives %s' % (sel, which), definite=True)
    elif sel is not None and sel not in pos:
        ctx.violated('R10.2', cb.qual, '%s ; values[%s]' % (src(u[0]), sel), u[0],
                     'the values are selected by an expression unrelated to np.unique: indices and values are decoupled')
    else:
        ctx.undecided('R10.2', cb.qual, '%s ; return %s' % (src(u[0]), src(r)), u[0], 'pairing of unique indices and values not recognised')
    cat = {src(s.targets[0]): src(s.value).replace(' ', '') for s in own_nodes(cb.node) if isinstance(s, ast.Assign) and len(s.targets) == 1}
    ok = cat.get('indices') == 'np.concatenate([indforind,_inbcs])' and cat.get('values') == 'np.concatenate([valfor_,valinbcs])'
    ctx.decide('R10.2', cb.qual, 'indices/values concatenated over the same sequence in the same order', ok or None, cb.node)
    ctx.decide('R10.2', cb.qual, 'bcs = list(bcs) before two passes', 'bcs = list(bcs)' in t, cb.node, 'a generator argument must be materialised before it is traversed twice')
    dn = ctx.prog.func(A + '._drop_nans')
    rr = [x.value for x in guards.returns_of(dn.node)]
    ok = any(isinstance(x, ast.Tuple) and len(x.elts) == 2 and isinstance(x.elts[0], ast.Subscript) and isinstance(x.elts[1], ast.Subscript)
             and src(x.elts[0].slice) == src(x.elts[1].slice) and src(x.elts[0].value) == 'indices' and src(x.elts[1].value) == 'values' for x in rr)
    ctx.decide('R10.2', dn.qual, ' | '.join(src(x) for x in rr), ok, dn.node, 'one selector applied to both arrays')
    cd = ctx.prog.func(A + '.compute_dirichlet_bc')
    d = {src(s.targets[0]): s for s in own_nodes(cd.node) if isinstance(s, ast.Assign) and len(s.targets) == 1}
    bi = d.get('bdindices')
    ok = bi is not None and call_name(bi.value) == 'slice_indices' and src(kwarg(bi.value, 'ravel')) == 'True' and \
        [src(a).replace(' ', '') for a in bi.value.args[:3]] == ['bdax', '0ifbdside==0else-1', 'N']
    ctx.decide('R10.2', cd.qual, src(bi) if bi else 'bdindices', ok, bi or cd.node, 'raveled (lexicographic) indices of the face on axis bdax, first or last layer')
    rets = [src(x.value).replace(' ', '') for x in guards.returns_of(cd.node)]
    ok = '_drop_nans(bdindices,dircoeffs.ravel())' in rets
    ctx.decide('R10.2', cd.qual, 'scalar case: _drop_nans(bdindices, dircoeffs.ravel())', ok or None, cd.node,
               'C-order ravel of the face coefficients matches itertools.product order of the remaining axes')
    gen = [g for g in ast.walk(cd.node) if isinstance(g, ast.GeneratorExp) and 'bdindices' in src(g)]
    if gen:
        e = src(gen[0].elt).replace(' ', '')
        ctx.decide('R10.2', cd.qual, src(gen[0]), e == '(bdindices+j*NN,dircoeffs[...,j].ravel())' or None, gen[0],
                   'component j: indices shifted by j*NN paired with the j-th coefficient component')
    # vector data: the indices are blocked (component j occupies bdindices + j*NN), so the values must be taken component by
    # component.  A C-order ravel of the whole coefficient array -- component axis LAST -- is point-major (interleaved)
    def strip(e):
        while True:
            if isinstance(e, ast.Call) and isinstance(e.func, ast.Attribute) and e.func.attr in ('reshape', 'copy', 'astype', 'squeeze') :
                e = e.func.value
            elif isinstance(e, ast.Call) and (call_name(e) or '') in ('np.reshape', 'np.asarray', 'np.ascontiguousarray') and e.args:
                e = e.args[0]
            else:
                return e
    for c in ast.walk(cd.node):
        recv = None
        if isinstance(c, ast.Call) and isinstance(c.func, ast.Attribute) and c.func.attr in ('ravel', 'flatten') :
            recv = c.func.value
            if any(k.arg == 'order' and src(k.value) in ("'F'", '"F"') for k in c.keywords):
                continue
        elif isinstance(c, ast.Call) and (call_name(c) or '') == 'np.ravel' and c.args:
            recv = c.args[0]
        if recv is None:
            continue
        base = strip(recv)
        if not (isinstance(base, ast.Name) and base.id == 'dircoeffs'):
            continue
        facts = guards.dominating_facts(c)
        scalar = any(t_.replace(' ', '') == 'extra_dims==0' and p_ for (t_, p_, _n) in facts)
        vector = any((t_.replace(' ', '') == 'extra_dims==1' and p_) or (t_.replace(' ', '') == 'extra_dims==0' and not p_) for (t_, p_, _n) in facts)
        if scalar or not vector:
            continue
        ctx.violated('R10.2', cd.qual, src(c), c,
                     'vector data: the whole coefficient array is raveled with the component axis last, i.e. point by point (interleaved), '
                     'while the indices are numbered component by component (bdindices + j*NN): the values do not belong to the dofs they '
                     'are returned with')
    si = ctx.prog.func(A + '.slice_indices')
    t = src(si.node)
    ok = 'itertools.product(*axdofs)' in t and 'np.ravel_multi_index(multi_indices.T, shape)' in t and 'axdofs[ax] = [idx]' in t
    ctx.decide('R10.2', si.qual, 'product over per-axis ranges with axis ax pinned, raveled with the full shape', ok or None, si.node)
    wrap = [s for s in own_nodes(si.node) if isinstance(s, ast.If) and src(s.test).replace(' ', '') == 'idx<0']
    ok = bool(wrap) and src(wrap[0].body[0]).replace(' ', '') == 'idx+=shape[ax]'
    ctx.decide('R10.2', si.qual, 'negative idx wraps by shape[ax]', ok or None, wrap[0] if wrap else si.node)


def r10_3(ctx):
    m = ctx.prog.func(A + '.Multipatch.compute_dirichlet_bcs')
    ap = [c for c in ast.walk(m.node) if isinstance(c, ast.Call) and src(c.func) == 'bcs.append']
    if not ap:
        raise AnchorMissing('R10.3: bcs.append in Multipatch.compute_dirichlet_bcs')
    ok = src(ap[0].args[0]).replace(' ', '') == '(idx[bc[0]],bc[1])'
    ctx.decide('R10.3', m.qual, src(ap[0]), ok or None, ap[0], 'local boundary dofs are mapped through the patch-to-global index array, values kept')
    ok = any(src(s).replace(' ', '') == 'idx=p2g[p]' for s in own_nodes(m.node)) and 'p2g[p] = self.patch_to_global_idx(p)' in src(m.node)
    ctx.decide('R10.3', m.qual, 'idx = patch_to_global_idx(p) (cached per patch)', ok or None, m.node)
    r = guards.returns_of(m.node)[-1]
    ctx.decide('R10.3', m.qual, src(r), src(r.value) == 'combine_bcs(bcs)', r, 'dofs shared between patches get one value')


def r10_4(ctx):
    cd = ctx.prog.func(A + '.compute_dirichlet_bc')
    d = {src(s.targets[0]): s for s in own_nodes(cd.node) if isinstance(s, ast.Assign) and len(s.targets) == 1}
    nn = d.get('NN')
    n_ = d.get('N')
    ok = nn is not None and src(nn.value) == 'np.prod(N)' and n_ is not None and src(n_.value).replace(' ', '') == 'tuple((kv.numdofsforkvinkvs))'
    ctx.decide('R10.4', cd.qual, 'NN = np.prod(N), N = dofs per axis', ok, nn or cd.node, 'blocked numbering: component j starts at j*prod(N)')
    cds = ctx.prog.func(A + '.compute_dirichlet_bcs')
    comp = [c for c in ast.walk(cds.node) if isinstance(c, ast.ListComp)]
    if not comp:
        raise AnchorMissing("R10.4: expansion of 'all'")
    gens = [(src(g.target), src(g.iter).replace(' ', '')) for g in comp[0].generators]
    ok = gens == [('ax', 'range(len(kvs))'), ('bd', '(0,1)')] and src(comp[0].elt).replace(' ', '') == '((ax,bd),dir_func)'
    ctx.decide('R10.4', cds.qual, src(comp[0]), ok, comp[0], "'all' = every axis x both sides = 2*dim faces")
    # semantic: the side generator enumerates exactly {0, 1}, the axis generator range(len(kvs))
    for g in comp[0].generators:
        if isinstance(g.iter, (ast.Tuple, ast.List)) and all(isinstance(e, ast.Constant) for e in g.iter.elts):
            sides = sorted(e.value for e in g.iter.elts)
            ctx.decide('R10.4', cds.qual, "'all': sides %s" % sides, sides == [0, 1], g.iter, 'both the lower and the upper face of every axis', definite=True)
        elif isinstance(g.iter, ast.Call) and call_name(g.iter) == 'range':
            ctx.decide('R10.4', cds.qual, "'all': axes " + src(g.iter), src(g.iter).replace(' ', '') in ('range(len(kvs))', 'range(0,len(kvs))'), g.iter,
                       'every axis of the space')
    for q in (A + '.boundary_dofs', A + '.boundary_cells'):
        f = ctx.prog.func(q)
        d = {src(s.targets[0]): src(s.value).replace(' ', '') for s in own_nodes(f.node) if isinstance(s, ast.Assign) and len(s.targets) == 1}
        ok = d.get('idx') == '0ifbdside==0else-1' and d.get('(bdax, bdside)') == 'bspline._parse_bdspec(bdspec,len(kvs))'
        ctx.decide('R10.4', q, 'idx = 0 if bdside == 0 else -1', ok, f.node, 'side 0 = first layer, side 1 = last layer')
        want = 'numdofs' if q.endswith('dofs') else 'numspans'
        ctx.decide('R10.4', q, 'N = ' + d.get('N', '?'), d.get('N') == 'tuple((kv.%sforkvinkvs))' % want, f.node)
    ic = ctx.prog.func(A + '.compute_initial_condition_01')
    d = {src(s.targets[0]): src(s.value).replace(' ', '') for s in own_nodes(ic.node) if isinstance(s, ast.Assign) and len(s.targets) == 1}
    ok = d.get('firstidx') == '0ifbdside==0else-2' and \
        d.get('bdindices') == 'np.concatenate((slice_indices(bdax,firstidx,N,ravel=True),slice_indices(bdax,firstidx+1,N,ravel=True)))'
    ctx.decide('R10.4', ic.qual, 'two adjacent boundary layers starting at %s' % d.get('firstidx'), ok or None, ic.node,
               'value and derivative conditions fix the two outermost coefficient layers')
    iff = [s for s in own_nodes(ic.node) if isinstance(s, ast.If) and src(s.test).replace(' ', '') == 'bdside==0']
    if iff:
        a = src(iff[0].body[0].value).replace(' ', '')
        b = src(iff[0].orelse[0].value).replace(' ', '')
        ok = a.endswith('[:2,:2]') and b.endswith('[:2,-2:]') and '0.0,1)' in a and '1.0,1)' in b
        ctx.decide('R10.4', ic.qual, 'boundary collocation blocks %s | %s' % (a[-9:], b[-10:]), ok or None, iff[0],
                   'first two basis functions at the lower end, last two at the upper end')


def _r10_5_textual(ctx):       # superseded by r10_5 below (kept for reference, not run)
    cls = ctx.prog.cls(A + '.RestrictedLinearSystem')
    want = {
        'restrict': 'self.R_free.dot(u)',
        'restrict_rhs': 'self.R_free_v.dot(f)',
        'extend': 'self.R_free.T.dot(u)',
        'complete': 'self.extend(u) + self.R_elim.T.dot(self.values)',
        'restrict_matrix': 'self.R_free_v.dot(B).dot(self.R_free.T)',
    }
    for k, w in want.items():
        m = cls.methods.get(k)
        if m is None:
            raise AnchorMissing('R10.5: RestrictedLinearSystem.%s' % k)
        r = src(guards.returns_of(m.node)[-1].value)
        ctx.decide('R10.5', m.qual, 'return ' + r, (r == w) or None, m.node, 'rows: R_free_v, columns: R_free; eliminated part re-inserted through R_elim^T')
    init = cls.methods['__init__']
    d = {src(s.targets[0]): s for s in own_nodes(init.node) if isinstance(s, ast.Assign) and len(s.targets) == 1}
    rf, re_ = d.get('self.R_free'), d.get('self.R_elim')
    ok = rf is not None and re_ is not None and src(rf.value) == 'I[mask]' and src(re_.value) in ('I[np.logical_not(mask)]', 'I[~mask]')
    ctx.decide('R10.5', init.qual, 'R_free = I[mask], R_elim = I[not mask]', ok or None, rf or init.node, 'free and eliminated dofs partition all dofs')
    mk = [s for s in own_nodes(init.node) if isinstance(s, ast.Assign) and src(s.targets[0]).startswith('mask[')]
    ok = bool(mk) and src(mk[0]).replace(' ', '') in ('mask[list(indices)]=False', 'mask[indices]=False')
    ctx.decide('R10.5', init.qual, src(mk[0]) if mk else 'mask', ok or None, mk[0] if mk else init.node)
    b = d.get('self.b')
    ok = b is not None and src(b.value).replace(' ', '') == 'self.restrict_rhs(b-A.dot(self.R_elim.T.dot(values)))'
    ctx.decide('R10.5', init.qual, src(b) if b else 'self.b', ok or None, b or init.node, 'right-hand side lifted by the prescribed values: b - A u_D on the kept rows')
    a = d.get('self.A')
    ctx.decide('R10.5', init.qual, src(a) if a else 'self.A', (a is not None and src(a.value) == 'self.restrict_matrix(A)') or None, a or init.node)


def r10_5(ctx):
    cls = ctx.prog.cls(A + '.RestrictedLinearSystem')
    want = {
        'restrict': 'self.R_free.dot(u)',
        'restrict_rhs': 'self.R_free_v.dot(f)',
        'extend': 'self.R_free.T.dot(u)',
        'complete': 'self.R_free.T.dot(u) + self.R_elim.T.dot(self.values)',
        'restrict_matrix': 'self.R_free_v.dot(B).dot(self.R_free.T)',
    }
    why = {
        'restrict': 'unknowns are selected by the free dofs (columns)',
        'restrict_rhs': 'equations are selected by the kept rows R_free_v -- the same rows restrict_matrix keeps; with elim_rows these are not the free dofs',
        'extend': 'transpose of restrict',
        'complete': 'extension by zero plus the prescribed values on the eliminated dofs',
        'restrict_matrix': 'rows: R_free_v, columns: R_free',
    }
    single = {}
    for k in want:
        m = cls.methods.get(k)
        if m is None:
            raise AnchorMissing('R10.5: RestrictedLinearSystem.%s' % k)
        rets = [r for r in guards.returns_of(m.node) if r.value is not None]
        params = [a.arg for a in m.node.args.args][1:]
        if len(rets) == 1 and len(params) == 1:
            single[k] = (params[0], rets[0].value)

    def inline(e, depth=0):
        """replace self.<m>(arg) by the body of the single-return method m (one parameter), up to depth 3"""
        class T(ast.NodeTransformer):
            def visit_Call(self, node):
                self.generic_visit(node)
                f = node.func
                if isinstance(f, ast.Attribute) and isinstance(f.value, ast.Name) and f.value.id == 'self' and f.attr in single \
                        and len(node.args) == 1 and not node.keywords and depth < 3:
                    par, body = single[f.attr]
                    arg = node.args[0]

                    class S(ast.NodeTransformer):
                        def visit_Name(self, n):
                            return copy.deepcopy(arg) if n.id == par else n
                    return inline(S().visit(copy.deepcopy(body)), depth + 1)
                return node
        return ast.fix_missing_locations(T().visit(copy.deepcopy(e)))
    for k, w in want.items():
        m = cls.methods[k]
        rets = [r for r in guards.returns_of(m.node) if r.value is not None]
        if not rets:
            ctx.undecided('R10.5', m.qual, 'return', m.node, 'no return value')
            continue
        ctx.expect('R10.5', m.qual, inline(rets[-1].value), w, rets[-1], why[k], label='%s returns %s' % (k, w))
    init = cls.methods['__init__']
    ctx.expect_assign('R10.5', init, 'self.R_free', 'I[mask]', 'free and eliminated dofs partition all dofs')
    ctx.expect_assign('R10.5', init, 'self.R_elim', 'I[np.logical_not(mask)]', 'free and eliminated dofs partition all dofs')
    ctx.expect_assign('R10.5', init, 'self.R_free_v', 'I[maskv]', 'kept and eliminated rows partition all rows',
                      which=lambda s: guards.has_literal(guards.path_conditions(s), 'elim_rows is not None', True))
    ctx.expect_assign('R10.5', init, 'self.R_elim_v', 'I[np.logical_not(maskv)]', 'kept and eliminated rows partition all rows',
                      which=lambda s: guards.has_literal(guards.path_conditions(s), 'elim_rows is not None', True))
    ctx.expect_assign('R10.5', init, 'self.R_free_v', 'self.R_free', 'without elim_rows the rows are the free dofs',
                      which=lambda s: not guards.has_literal(guards.path_conditions(s), 'elim_rows is not None', True), label='default rows: R_free_v = R_free')
    ctx.expect_assign('R10.5', init, 'self.R_elim_v', 'self.R_elim', 'without elim_rows the rows are the free dofs',
                      which=lambda s: not guards.has_literal(guards.path_conditions(s), 'elim_rows is not None', True), label='default rows: R_elim_v = R_elim')
    ctx.expect_assign('R10.5', init, 'mask', 'np.ones(A.shape[1], dtype=bool)', 'one flag per column (dof)')
    ctx.expect_assign('R10.5', init, 'maskv', 'np.ones(A.shape[0], dtype=bool)', 'one flag per row (equation)')
    mk = [s for s in own_nodes(init.node) if isinstance(s, ast.Assign) and src(s.targets[0]).startswith('mask[')]
    ok = bool(mk) and src(mk[0]).replace(' ', '') in ('mask[list(indices)]=False', 'mask[indices]=False')
    ctx.decide('R10.5', init.qual, src(mk[0]) if mk else 'mask', ok or None, mk[0] if mk else init.node)
    ctx.expect_assign('R10.5', init, 'maskv[elim_rows]', 'False', 'eliminated rows are cleared in the row mask')
    ctx.expect_assign('R10.5', init, 'self.b', 'self.restrict_rhs(b - A.dot(self.R_elim.T.dot(values)))',
                      'right-hand side lifted by the prescribed values: b - A u_D on the kept rows')
    ctx.expect_assign('R10.5', init, 'self.A', 'self.restrict_matrix(A)', 'restricted matrix')
    # the lifted right-hand side as a matrix expression (read through local temporaries): b - A R_elim^T values.  The same
    # factors in another order or transposition, e.g. (R_elim A)^T values = A^T R_elim^T values, agree for symmetric A only
    from sa import matchain, resolve
    sb = [s_ for s_ in own_nodes(init.node) if isinstance(s_, ast.Assign) and src(s_.targets[0]) == 'self.b']
    if sb and isinstance(sb[-1].value, ast.Call) and sb[-1].value.args:
        arg = resolve.expand(sb[-1].value.args[0], sb[-1], keep=('A', 'b', 'values', 'self'))
        want_e = ast.parse('b - A.dot(self.R_elim.T.dot(values))', mode='eval').body
        v = matchain.compare(arg, want_e)
        ctx.decide('R10.5', init.qual, 'lifted right-hand side = ' + matchain.show(arg), True if v == 'equal' else (False if v == 'same-atoms' else None),
                   sb[-1], 'b - A R_elim^T values' if v == 'equal' else
                   'the lifting is built from the same factors as b - A R_elim^T values but in another order / transposition (%s): it agrees '
                   'with it for symmetric A only; with a nonsymmetric matrix and nonzero prescribed values the completed solution does not '
                   'satisfy the free equations' % matchain.show(arg), definite=True)


def r10_6(ctx):
    """A scalar prescribed value is expanded to one value per eliminated dof WITHOUT changing its type: np.broadcast_to /
    np.full(n, v).  An expansion that takes its dtype from the integer index array (np.full_like(indices, v), zeros_like +
    fill) truncates 0.5 to 0."""
    init = ctx.prog.func(A + '.RestrictedLinearSystem.__init__')
    n = 0
    for s_ in own_nodes(init.node):
        if isinstance(s_, ast.Assign) and src(s_.targets[0]) == 'values' and isinstance(s_.value, ast.Call):
            nm = call_name(s_.value) or ''
            if not any((t_.replace(' ', '') == 'np.isscalar(values)') and p_ for (t_, p_, _n) in guards.path_conditions(s_)):
                continue
            n += 1
            like_idx = nm.endswith('_like') and s_.value.args and 'ind' in src(s_.value.args[0])
            dt = kwarg(s_.value, 'dtype', 99)
            from_idx = dt is not None and 'ind' in src(dt)
            ok = nm in ('np.broadcast_to', 'np.full', 'np.repeat', 'np.tile') and not from_idx
            ctx.decide('R10.6', init.qual, src(s_), True if ok else (False if (like_idx or from_idx) else None), s_,
                       'the scalar keeps its type' if ok else
                       'the scalar value is expanded into an array with the dtype of the INDEX array: a non-integer value (0.5, -1.25) is '
                       'truncated, so lifting and complete() use another value than the one prescribed', definite=True)
    if n == 0:
        ctx.undecided('R10.6', init.qual, 'expansion of a scalar value', init.node, 'not recognised')


def r10_7(ctx):
    """compute_initial_condition_01 evaluates the two boundary basis functions AT THE END OF THE KNOT VECTOR'S SUPPORT on the
    chosen side; a literal parameter value (0.0 / 1.0) is that end only for a time axis [0, 1]."""
    f = ctx.prog.func(A + '.compute_initial_condition_01')
    n = 0
    for c in ast.walk(f.node):
        if isinstance(c, ast.Call) and (call_name(c) or '').split('.')[-1] == 'active_deriv' and len(c.args) >= 2:
            n += 1
            a = resolve.expand(c.args[1], c)
            lit = isinstance(a, ast.Constant) and isinstance(a.value, (int, float))
            from_support = any(isinstance(x, ast.Call) and src(x.func).endswith('.support') for x in ast.walk(a)) or \
                any(isinstance(x, ast.Attribute) and x.attr == 'kv' for x in ast.walk(a))
            ctx.decide('R10.7', f.qual, src(c)[:80], True if from_support else (False if lit else None), c,
                       'evaluated at the end of the support' if from_support else
                       'the boundary basis functions are evaluated at the literal parameter %s: for a time axis other than [0, 1] this is not the '
                       'end of the domain -- the initial data are not reproduced ([0, 1.5]: value error 1; [1, 2]: NaN; [0, 2]: singular matrix)'
                       % src(a), definite=True)
    ctx.floor('R10.7', 'boundary evaluations in compute_initial_condition_01', n, 2)


def r10_8(ctx):
    """Building a RestrictedLinearSystem leaves the caller's matrix, right-hand side and boundary data untouched: the lifted
    right-hand side b - A g is a new array.  (np.asarray does not copy a float64 array: `b = np.asarray(b); b -= ...` writes
    into the caller's vector -- the completed solution then fails the equations of the system the caller holds, and a second
    system built from the same (A, b) is lifted twice.)"""
    from sa import effects
    fi = ctx.prog.func(A + '.RestrictedLinearSystem.__init__')
    ws = effects.external_writes(fi.node)
    bad = [w for w in ws if w['definite'] and any(r.startswith('param:') for r in w['external'])]
    if bad:
        w = bad[0]
        ctx.violated('R10.8', fi.qual, src(w['node'])[:80], w['node'],
                     'in-place %s on storage of the argument %s: the right-hand side the caller passed is overwritten with the lifted one '
                     '(free-equation residual of the completed solution 30.6 instead of 1e-15; a second system from the same data is wrong)'
                     % (w['kind'], ', '.join(sorted(x[6:] for x in w['external']))))
    else:
        ctx.met('R10.8', fi.qual, 'no in-place write to A, b or the boundary data', fi.node)


def r10_9(ctx):
    """compute_dirichlet_bc: vector-valued boundary data yield one block of conditions per COMPONENT OF THE DATA
    (dircoeffs.shape[-1]); the number of space directions of the geometry is a different number (three fields on a 2D patch)."""
    f = ctx.prog.func(A + '.compute_dirichlet_bc')
    loops = [l for l in ast.walk(f.node) if isinstance(l, (ast.For, ast.comprehension)) and isinstance(l.iter, ast.Call)
             and call_name(l.iter) == 'range' and len(l.iter.args) == 1]
    n = 0
    for l in loops:
        v = l.target.id if isinstance(l.target, ast.Name) else None
        scope = l if isinstance(l, ast.For) else parent(l)
        if v is None or not any(isinstance(x, ast.Subscript) and 'dircoeffs' in src(x.value) and v in {y.id for y in ast.walk(x.slice) if isinstance(y, ast.Name)}
                                for x in ast.walk(scope)):
            continue
        n += 1
        bound = resolve.expand(l.iter.args[0], scope if isinstance(scope, ast.stmt) else resolve.stmt_of(scope), keep=('dircoeffs', 'geo', 'kvs'))
        t = src(bound).replace(' ', '')
        from_data = 'dircoeffs.shape[-1]' in t or 'dircoeffs.shape[dircoeffs.ndim-1]' in t or 'np.shape(dircoeffs)[-1]' in t
        from_geo = 'geo.dim' in t or 'len(kvs)' in t or 'geo.sdim' in t
        ctx.decide('R10.9', f.qual, 'components of the data: range(%s)' % src(l.iter.args[0]), True if from_data else (False if from_geo else None), l.iter,
                   'one block per component of the boundary data' if from_data else
                   'the number of blocks is taken from the geometry (%s), not from the data: for three fields (u_x, u_y, w) on a 2D patch the '
                   'third block is never constrained (14 of 21 boundary dofs returned); fewer components raise IndexError' % t, definite=True)
    if n == 0:
        ctx.undecided('R10.9', f.qual, 'loop over the components of the Dirichlet data', f.node, 'not recognised')


def run(ctx):
    r10_8(ctx)
    r10_9(ctx)
    r10_7(ctx)
    r10_6(ctx)
    r10_1(ctx)
    r10_2(ctx)
    r10_3(ctx)
    r10_4(ctx)
    r10_5(ctx)

"""C01 -- compiled assemblers compute the integrand the form denotes (structural clauses)."""
import ast
import re

from sa.program import src, own_nodes, call_name, parent, kwarg, AnchorMissing
from sa import guards, exprmodel, resolve

EXPLANATION = (
    "Static rules over the code generator, its emitted code (string templates and the shipped generated sources lowered from "
    "Cython), vform.py, compile.py and the assembly drivers: (R01.1) dispatch exhaustiveness: every scalar expression class is a key "
    "of the generator's dispatch table or is eliminated by a finalize transform; every non-scalar class defines at() with arity = "
    "rank; (R01.2) every builtin function a form can contain is cimported from libc.math in the emitted preamble and in the shipped "
    "file, and (R01.8) the extension is linked against libm because -ffast-math vectorises those calls through libmvec; (R01.3) "
    "every buffer whose address reaches entry_impl(..., out) is zero-initialised and the emitted entry_impl returns early (no common "
    "support) before any write to the result; (R01.4) all sites choosing the number of Gauss nodes use max degree + 1; (R01.5) "
    "basis-jet layout: stride numderiv+1 and offset D[k] in gen_pderiv, derivs= in the emitted init and the stacking in "
    "compute_values_derivs refer to the same count, with one x-last reversal; (R01.6) emitted signatures and call sites of combine / "
    "precompute_fields list the same argument groups under the same conditions; (R01.7) support intervals, offsets and slices are all "
    "in Gauss-node units (cells x nqp); (R01.9) the structural hash that common-subexpression extraction merges on separates "
    "expressions that differ in an identifying attribute (injective flow into hash_key) or in the order of their operands "
    "(no order-destroying combiner of the child hashes); (R01.10) the context-free emitter parenthesises every infix expression; "
    "R01.4 also requires the nqp template to cover all used spaces, R01.7 parses the emitted offset / support conversions and "
    "requires the common node count as unit.")
DOES_NOT_DECIDE = "equality of any matrix entry with the Gauss sum; that the C compiler accepts the module on every platform; numerical kernels beyond these rules"
TECHNIQUE = "custom AST rules over generator, emitted-code templates and lowered generated Cython: table agreement, zero-initialisation provenance, guard dominance, sibling comparison of emitted protocol"

VF = exprmodel.VF
CG = exprmodel.CG
CP = 'pyiga.compile'
AT = 'pyiga.assemble_tools_cy'
ASM = 'pyiga.assemblers'
FINALIZE_ELIMINATED = {'VolumeMeasureExpr', 'SurfaceMeasureExpr'}


def r01_1(ctx):
    classes = exprmodel.expr_classes(ctx.prog)
    table, node = exprmodel.dispatch_table(ctx.prog)
    ctx.floor('R01.1', 'Expr subclasses', len(classes), 14)
    ctx.floor('R01.1', 'dispatch entries', len(table), 5)
    fin = ctx.prog.func(VF + '.VForm.finalize')
    eliminated = set()
    for c in ast.walk(fin.node):
        if isinstance(c, ast.Call) and src(c.func) == 'self.transform':
            t = kwarg(c, 'type')
            if t is not None:
                eliminated.add(src(t))
    gen = ctx.prog.cls(CG + '.CodegenVisitor')
    for c in classes:
        if exprmodel.fixed_scalar(c):
            if c.name in table:
                meth = table[c.name].split('.')[-1]
                ctx.decide('R01.1', c.qual, 'scalar class dispatched to %s' % table[c.name], meth in gen.methods, node, 'dispatch value must be an existing method')
            elif c.name in eliminated and c.name in FINALIZE_ELIMINATED:
                ctx.met('R01.1', c.qual, 'scalar class eliminated by finalize (transform type=%s)' % c.name, fin.node)
            else:
                ctx.violated('R01.1', c.qual, 'scalar expression class without code generation', c.node,
                             'not a key of CodegenVisitor.gencode\'s dispatch table and not eliminated by finalize: any form containing it '
                             'raises KeyError during generation')
        else:
            at = ctx.prog.mro_lookup(c, 'at')
            shape_rank = None
            a = exprmodel.init_attrs(c).get('shape')
            if a is not None and isinstance(a.value, ast.Tuple):
                shape_rank = len(a.value.elts)
            if at is None or at.cls is None:
                # classes whose shape is data dependent (ScalarOper: x.shape; TensorOper) -- ScalarOperExpr is scalar by assertion
                if c.name == 'ScalarOperExpr':
                    ctx.decide('R01.1', c.qual, 'scalar class dispatched to %s' % table.get(c.name), c.name in table, node)
                else:
                    ctx.violated('R01.1', c.qual, 'non-scalar class without at()', c.node, '_to_literal_vec_mat / gen_assign index it element-wise')
            else:
                nargs = len(at.node.args.args) - 1
                var = at.node.args.vararg is not None
                ok = var or shape_rank is None or nargs == shape_rank
                ctx.decide('R01.1', c.qual, 'at(%s) for rank %s' % (', '.join(x.arg for x in at.node.args.args[1:]) + ('*I' if var else ''), shape_rank), ok, at.node,
                           'element access arity equals the rank')
    for k, v in table.items():
        ctx.decide('R01.1', CG + '.CodegenVisitor.gencode', 'dispatch key %s is an expression class' % k, any(c.name == k for c in classes), node)


def builtin_names(prog):
    names = {}
    for unit in prog.units.values():
        if not unit.modname.startswith('pyiga'):
            continue
        for c in ast.walk(unit.tree):
            if isinstance(c, ast.Call) and (call_name(c) or '').split('.')[-1] == 'BuiltinFuncExpr' and c.args and isinstance(c.args[0], ast.Constant):
                names.setdefault(c.args[0].value, c)
    return names


def r01_2(ctx):
    names = builtin_names(ctx.prog)
    ctx.floor('R01.2', 'builtin function names constructible in forms', len(names), 7)
    gen = ctx.prog.cls(CG + '.CodegenVisitor')
    f2c = {}
    for s in gen.node.body:
        if isinstance(s, ast.Assign) and src(s.targets[0]) == 'func_to_code' and isinstance(s.value, ast.Dict):
            f2c = {k.value: v.value for k, v in zip(s.value.keys, s.value.values)}
    pre = ctx.prog.func(CG + '.preamble')
    text = ''.join(n.value for n in ast.walk(pre.node) if isinstance(n, ast.Constant) and isinstance(n.value, str))
    m = re.search(r'from libc\.math cimport ([^\n]+)', text)
    if not m:
        raise AnchorMissing('R01.2: libc.math cimport in preamble()')
    cimported = {x.strip() for x in m.group(1).split(',')}
    asm = ctx.prog.unit(ASM)
    shipped = set()
    for s in asm.tree.body:
        if isinstance(s, ast.ImportFrom) and s.module == 'cimport:libc.math':
            shipped |= {a.name for a in s.names}
    for name, node in sorted(names.items()):
        c = f2c.get(name, name)
        ctx.decide('R01.2', CG + '.preamble', 'builtin %r emitted as %s() is cimported' % (name, c), c in cimported, node,
                   'a form using %s would fail to compile (undeclared name) otherwise; cimported: %s' % (name, sorted(cimported)))
        ctx.decide('R01.2', ASM, 'builtin %r (%s) cimported in the shipped assemblers.pyx' % (name, c), c in shipped, node)
    gb = gen.methods['gencode_builtinfunc']
    t = src(gb.node).replace(' ', '')
    ok = 'f=self.func_to_code.get(expr.funcname,expr.funcname)' in t and "return'%s(%s)'%(f,self.gencode(expr.x))" in t
    ctx.decide('R01.2', gb.qual, 'emits <mapped name>(<argument>)', ok or None, gb.node)


def r01_8(ctx):
    nc = ctx.prog.func(CP + '._compile_cython_module_nocache')
    flags = [s for s in own_nodes(nc.node) if isinstance(s, ast.Assign) and src(s.targets[0]) == 'extra_compile_args']
    ext = [c for c in ast.walk(nc.node) if isinstance(c, ast.Call) and call_name(c) == 'Extension']
    if not flags or not ext:
        raise AnchorMissing('R01.8: Extension / extra_compile_args in compile.py')
    fl = [e.value for e in flags[0].value.elts if isinstance(e, ast.Constant)] if isinstance(flags[0].value, (ast.List, ast.Tuple)) else []
    fast = '-ffast-math' in fl and any(f.startswith('-O') and f not in ('-O0', '-O1') for f in fl)
    libs = kwarg(ext[0], 'libraries')
    la = kwarg(ext[0], 'extra_link_args')
    has_m = (isinstance(libs, (ast.List, ast.Tuple)) and any(isinstance(e, ast.Constant) and e.value in ('m', 'mvec') for e in libs.elts)) or \
        (la is not None and ('-lm' in src(la) or '-lmvec' in src(la)))
    names = builtin_names(ctx.prog)
    transcend = sorted(set(names) & {'sin', 'cos', 'tan', 'exp', 'log'})
    if fast and transcend:
        ctx.decide('R01.8', nc.qual, 'Extension(..., libraries=%s) with %s' % (src(libs) if libs is not None else 'None', fl), has_m, ext[0],
                   'with -O3 -ffast-math GCC calls the vectorised libmvec variants of %s; without -lm the extension compiles but fails to load '
                   '(undefined symbol _ZGV..._%s)' % (transcend, transcend[0]))
    else:
        ctx.met('R01.8', nc.qual, 'no fast-math vectorisation of libm calls (%s)' % fl, ext[0], nontrivial=False)


# ------------------------------------------------------------------ R01.3
def zero_init_origin(fi, name, depth=0):
    """Is ``name`` in function ``fi`` (FuncInfo) zero-initialised storage?  (True/False/None, why).
    Follows aliases (typed-memoryview rebinding), address-of, and closure parameters that are fed
    from chunk_tasks(<array>, n) through thread_pool.map in the enclosing function."""
    if depth > 6:
        return None, 'too deep'
    fn = fi.node
    for s in own_nodes(fn):
        v = None
        if isinstance(s, ast.AnnAssign) and isinstance(s.target, ast.Name) and s.target.id == name and s.value is not None:
            v = s.value
        elif isinstance(s, ast.Assign) and len(s.targets) == 1 and isinstance(s.targets[0], ast.Name) and s.targets[0].id == name:
            v = s.value
        if v is None:
            continue
        if isinstance(v, ast.Constant) and v.value == 0:
            return True, 'cdef double %s = 0.0' % name
        if isinstance(v, ast.Name):
            return zero_init_origin(fi, v.id, depth + 1)
        if isinstance(v, ast.Call):
            n = call_name(v)
            if n == '__addr' and isinstance(v.args[0], ast.Subscript) and isinstance(v.args[0].value, ast.Name):
                return zero_init_origin(fi, v.args[0].value.id, depth + 1)
            if n == 'np.zeros':
                return True, 'np.zeros'
            if n in ('np.empty', 'np.ndarray', 'np.empty_like'):
                return False, n
    params = [x.arg for x in fn.args.args]
    if name in params and fi.outer is not None:
        pidx = params.index(name)
        for m in ast.walk(fi.outer.node):
            if isinstance(m, ast.Call) and isinstance(m.func, ast.Attribute) and m.func.attr == 'map' and m.args and src(m.args[0]) == fi.name:
                feed = m.args[1 + pidx] if len(m.args) > 1 + pidx else None
                if isinstance(feed, ast.Call) and call_name(feed) == 'chunk_tasks' and isinstance(feed.args[0], ast.Name):
                    ok, why = zero_init_origin(fi.outer, feed.args[0].id, depth + 1)
                    return ok, 'chunks of %s (%s)' % (feed.args[0].id, why)
    return None, 'no allocation found'


def r01_3(ctx):
    unit = ctx.prog.unit(AT)
    n = 0
    funcs = [f for f in ctx.prog.functions.values() if f.unit is unit]
    from sa.program import enclosing_function
    for fi in funcs:
        for c in ast.walk(fi.node):
            if not (isinstance(c, ast.Call) and isinstance(c.func, ast.Attribute) and c.func.attr == 'entry_impl' and len(c.args) == 3):
                continue
            if enclosing_function(c) is not fi.node:
                continue
            n += 1
            out = c.args[2]
            target = None
            if isinstance(out, ast.Call) and call_name(out) == '__addr':
                a = out.args[0]
                target = a.value.id if isinstance(a, ast.Subscript) and isinstance(a.value, ast.Name) else (a.id if isinstance(a, ast.Name) else None)
            elif isinstance(out, ast.Name):
                target = out.id
            construct = fi.qual
            params = [x.arg for x in fi.node.args.args]
            if target is None:
                ctx.undecided('R01.3', construct, src(c), c, 'output argument not recognised')
                continue
            if target in params:
                # every call site of this function (same class for methods) must pass zero-initialised storage
                callers = []
                for g in funcs:
                    if fi.cls is not None and g.cls is not fi.cls:
                        continue
                    for cc in ast.walk(g.node):
                        if not isinstance(cc, ast.Call) or g is fi or enclosing_function(cc) is not g.node:
                            continue
                        if (isinstance(cc.func, ast.Attribute) and cc.func.attr == fi.name) or (isinstance(cc.func, ast.Name) and cc.func.id == fi.name):
                            callers.append((g, cc))
                if not callers:
                    ctx.undecided('R01.3', construct, src(c), c, 'parameter %s: no in-module caller found' % target)
                    continue
                is_method = bool(params) and params[0] == 'self'
                pos = params.index(target) - (1 if is_method else 0)
                for g, cc in callers:
                    if pos >= len(cc.args):
                        continue
                    arg = cc.args[pos]
                    ok, why = (None, 'argument not a name')
                    if isinstance(arg, ast.Name):
                        ok, why = zero_init_origin(g, arg.id)
                    ctx.decide('R01.3', construct, '%s <- %s in %s' % (target, src(arg), g.qual.split('.', 2)[-1]), ok, cc,
                               'storage handed to entry_impl must start at zero because entry_impl returns without writing when supports do not meet (%s)' % why)
            else:
                ok, why = zero_init_origin(fi, target)
                ctx.decide('R01.3', construct, '%s passed to entry_impl' % target, ok, c, ('zero-initialised by ' + why) if ok else 'allocated by %s' % why)
    ctx.floor('R01.3', 'entry_impl call sites in the generic infrastructure', n, 15)
    # emitted entry_impl (shipped): early return before the kernel call, and entry_impl itself never writes result
    asm = ctx.prog.unit(ASM)
    k = 0
    for f in [f for f in ctx.prog.functions.values() if f.unit is asm and f.name == 'entry_impl']:
        k += 1
        calls = [c for c in ast.walk(f.node) if isinstance(c, ast.Call) and (call_name(c) or '').endswith('.combine')]
        rets = [r for r in guards.returns_of(f.node)]
        writes = [s for s in own_nodes(f.node) if isinstance(s, (ast.Assign, ast.AugAssign)) and 'result' in src(s.targets[0] if isinstance(s, ast.Assign) else s.target)]
        arity2 = any('intersect_intervals' in src(x) for x in ast.walk(f.node) if isinstance(x, ast.Call))
        ok = bool(calls) and all(r.lineno < calls[0].lineno for r in rets) and not writes
        ctx.decide('R01.3', f.qual, '%d early return(s) before combine(), no direct store to result' % len(rets), ok, f.node,
                   'empty common support leaves the (zero) output untouched')
        if arity2:
            tests = [src(p.test).replace(' ', '') for p in own_nodes(f.node) if isinstance(p, ast.If) and any(isinstance(b, ast.Return) for b in p.body)]
            ctx.decide('R01.3', f.qual, 'early return tests %s' % sorted(set(tests)), set(tests) == {'intv.a>=intv.b'}, f.node, 'empty intersection <=> a >= b')
    ctx.floor('R01.3', 'shipped entry_impl implementations', k, 14)
    # the template emits the same test
    cg = ctx.prog.unit(CG)
    lit = [n.value for n in ast.walk(cg.tree) if isinstance(n, ast.Constant) and isinstance(n.value, str) and 'intv.a' in n.value and 'return' in n.value]
    ok = bool(lit) and all(l.replace(' ', '').startswith('ifintv.a>=intv.b:return') for l in lit)
    ctx.decide('R01.3', CG + '.AsmGenerator.gen_entry_impl_header', lit[0] if lit else 'early return', ok, cg.tree, 'emitted early return')
    iv = ctx.prog.func(AT + '.intersect_intervals')
    t = src(iv.node).replace(' ', '')
    ok = 'max(' in t and 'min(' in t
    ctx.decide('R01.3', iv.qual, 'intersection = (max of starts, min of ends)', ok or None, iv.node)


# ------------------------------------------------------------------ R01.4
def nqp_form(e):
    """max(<p over knot vectors>) + c  -> c ; kv.p + c -> c ; else None"""
    if isinstance(e, ast.BinOp) and isinstance(e.op, ast.Add) and isinstance(e.right, ast.Constant):
        l = e.left
        if isinstance(l, ast.Call) and call_name(l) == 'max' and '.p' in src(l):
            return e.right.value
        if isinstance(l, ast.Attribute) and l.attr == 'p':
            return e.right.value
    if isinstance(e, ast.Call) and call_name(e) == 'max' and '.p' in src(e):
        return 0
    return None


def r01_4(ctx):
    sites = []
    cg = ctx.prog.unit(CG)
    for n in ast.walk(cg.tree):
        if isinstance(n, ast.Constant) and isinstance(n.value, str) and n.value.strip().startswith('self.nqp ='):
            try:
                e = ast.parse(n.value.strip().replace('{kvs}', 'kvs0 + kvs1')).body[0].value
                sites.append((CG + '.AsmGenerator.generate_init (template)', e, n))
            except SyntaxError:
                pass
    asm = ctx.prog.unit(ASM)
    for f in [f for f in ctx.prog.functions.values() if f.unit is asm and f.name == '__init__']:
        for s in own_nodes(f.node):
            if isinstance(s, ast.Assign) and src(s.targets[0]) == 'self.nqp':
                sites.append((f.qual, s.value, s))
    for q in ('pyiga.assemble.inner_products', 'pyiga.assemble.integrate', 'pyiga.bspline.load_vector'):
        f = ctx.prog.func(q)
        for s in own_nodes(f.node):
            if isinstance(s, ast.Assign) and src(s.targets[0]) == 'nqp':
                sites.append((q, s.value, s))
    ctx.floor('R01.4', 'sites choosing the number of Gauss nodes', len(sites), 18)
    for q, e, node in sites:
        c = nqp_form(e)
        ctx.decide('R01.4', q, 'nqp = ' + src(e), (c == 1) if c is not None else None, node,
                   'max-degree + 1 nodes per span (exact for products of two splines)')
    # a tensor-product routine takes the maximum over ALL its directions: the degree of one fixed direction (kvs[-1].p) under-integrates
    # the others for mixed degrees
    for q, e, node in sites:
        for a in ast.walk(e):
            if isinstance(a, ast.Attribute) and a.attr == 'p' and isinstance(a.value, ast.Subscript) and isinstance(a.value.value, ast.Name) \
                    and a.value.value.id.startswith('kvs') and not any(isinstance(c_, ast.Call) and call_name(c_) == 'max' for c_ in ast.walk(e)):
                ctx.violated('R01.4', q, 'nqp = ' + src(e), node,
                             'the node count is taken from the degree of ONE direction (`%s`) of a tensor-product space: for mixed degrees '
                             '(4, 1) the higher-degree directions get too few Gauss nodes and load vectors of polynomial data are no longer exact' % src(a))
    # all knot vectors of both spaces enter the maximum
    for q, e, node in sites:
        if 'kvs0' in src(e):
            ok = 'kvs0 + kvs1' in src(e) or 'kvs0' in src(e) and 'kvs1' not in src(e) and 'kvs1 = kvs0' in src(ctx.prog.functions[q].node) if q in ctx.prog.functions else True
            ctx.decide('R01.4', q, 'degrees of all spaces considered: ' + src(e), bool(ok) or None, node)
    # the template's {kvs} placeholder is filled with ALL used spaces (the test space may have the higher degree)
    gi = ctx.prog.func(CG + '.AsmGenerator.generate_init')
    fills = [c for c in ast.walk(gi.node) if isinstance(c, ast.Call) and src(c.func) in ('self.putf', 'self.put') and c.args
             and isinstance(c.args[0], ast.Constant) and isinstance(c.args[0].value, str) and c.args[0].value.strip().startswith('self.nqp =')]
    if not fills:
        ctx.undecided('R01.4', gi.qual, 'nqp template covers all used spaces', gi.node, 'emission of self.nqp not found')
    for c in fills:
        kv = kwarg(c, 'kvs')
        if kv is None:
            ctx.undecided('R01.4', gi.qual, 'nqp template covers all used spaces', c, 'no kvs= argument')
            continue
        names = {n.id for n in ast.walk(kv) if isinstance(n, ast.Name)}
        joined = isinstance(kv, ast.Call) and isinstance(kv.func, ast.Attribute) and kv.func.attr == 'join' and 'used_kvs' in names \
            and isinstance(kv.func.value, ast.Constant) and '+' in str(kv.func.value.value)
        single = any(isinstance(s, ast.Subscript) and src(s.value) == 'used_kvs' for s in ast.walk(kv)) or (isinstance(kv, ast.Constant))
        ctx.decide('R01.4', gi.qual, 'nqp template covers all used spaces: kvs=%s' % src(kv), True if joined else (False if single else None), c,
                   'the maximum degree is taken over the knot vectors of every used space' if joined else
                   'only one space enters the maximum degree (`%s`): for a form whose other space has the higher degree the rule has too few nodes '
                   'and the matrix is under-integrated' % src(kv), definite=True)
    gr = ctx.prog.func('pyiga.quadrature.gauss_rule')
    t = src(gr.node).replace(' ', '')
    ok = 'm=0.5*(a+b)' in t and 'h=0.5*(b-a)' in t and 'nodes=np.outer(h,x)+m[:,np.newaxis]' in t and 'weights=np.outer(h,w)' in t and 'np.polynomial.legendre.leggauss(deg)' in t
    ctx.decide('R01.4', gr.qual, 'affine map of the reference rule: nodes h*x+m, weights h*w', ok or None, gr.node)
    mi = ctx.prog.func('pyiga.quadrature.make_iterated_quadrature')
    ok = src(guards.returns_of(mi.node)[-1].value).replace(' ', '') == 'gauss_rule(nqp,intervals[:-1],intervals[1:])'
    ctx.decide('R01.4', mi.qual, 'one rule per span (mesh[:-1], mesh[1:])', ok, mi.node)


# ------------------------------------------------------------------ R01.5
def r01_5(ctx):
    gp = ctx.prog.func(CG + '.AsmGenerator.gen_pderiv')
    t = src(gp.node).replace(' ', '')
    rev = [s for s in own_nodes(gp.node) if isinstance(s, ast.Assign) and src(s.targets[0]) == 'D']
    ok = len(rev) == 1 and src(rev[0].value).replace(' ', '') == 'tuple(reversed(D))'
    ctx.decide('R01.5', gp.qual, 'x-last reversal applied exactly once: ' + (src(rev[0]) if rev else '%d assignments' % len(rev)), ok, rev[0] if rev else gp.node,
               'derivative tuples are (x, y, z); storage axes are (z, y, x)')
    fmt = [n.value for n in ast.walk(gp.node) if isinstance(n, ast.Constant) and isinstance(n.value, str) and 'VD{var}' in n.value]
    ok = bool(fmt) and fmt[0].replace(' ', '') == 'VD{var}{k}[{nderiv}*{idx}{k}+{ofs}]'
    ctx.decide('R01.5', gp.qual, fmt[0] if fmt else 'factor template', ok or None, gp.node, 'entry = stride * node index + derivative order')
    ok = 'ofs=D[k]' in t and 'nderiv=self.numderiv+1' in t
    bad = 'nderiv=self.numderiv,' in t or 'nderiv=self.numderiv)' in t
    ctx.decide('R01.5', gp.qual, 'stride self.numderiv + 1, offset D[k]', True if ok else (False if bad else None), gp.node, 'jets hold derivatives 0..numderiv')
    gi = ctx.prog.func(CG + '.AsmGenerator.generate_init')
    lit = [c for c in ast.walk(gi.node) if isinstance(c, ast.Call) and any(isinstance(a, ast.Constant) and isinstance(a.value, str) and 'compute_values_derivs' in a.value for a in c.args)]
    ok = bool(lit) and 'derivs={maxderiv}' in lit[0].args[0].value and src(kwarg(lit[0], 'maxderiv')) == 'self.numderiv'
    ctx.decide('R01.5', gi.qual, 'emitted: compute_values_derivs(..., derivs={maxderiv}) with maxderiv=self.numderiv', ok, lit[0] if lit else gi.node, 'same count as the stride')
    g = ctx.prog.func(CG + '.AsmGenerator.generate')
    ok = 'self.numderiv = self.vform.find_max_deriv()' in src(g.node)
    ctx.decide('R01.5', g.qual, 'numderiv = vform.find_max_deriv()', ok, g.node)
    cv = ctx.prog.func('pyiga.assemble_tools.compute_values_derivs')
    t = src(cv.node).replace(' ', '')
    ok = 'bspline.collocation_derivs(kv,grid,derivs=derivs)' in t and 'np.stack(colloc,axis=-1)' in t
    ctx.decide('R01.5', cv.qual, 'derivs+1 matrices stacked on the last axis', ok, cv.node, 'last axis has length derivs+1 = stride')
    cd = ctx.prog.func('pyiga.bspline.collocation_derivs')
    ok = 'for d in range(derivs + 1)' in src(cd.node)
    ctx.decide('R01.5', cd.qual, 'returns derivs + 1 matrices', ok, cd.node)
    # the emitted pointer takes the jet at the first Gauss node of the common support
    hdr = ctx.prog.func(CG + '.AsmGenerator.gen_entry_impl_header')
    lit = [n.value for n in ast.walk(hdr.node) if isinstance(n, ast.Constant) and isinstance(n.value, str) and 'values_{name}[{k}]' in n.value]
    ok = bool(lit) and lit[0].replace(' ', '') == 'values_{name}[{k}]=&self.S{space}_C{k}[{idx}[{k}],g_sta[{k}],0]'
    ctx.decide('R01.5', hdr.qual, lit[0] if lit else 'values pointer', ok or None, hdr.node, 'axes (basis function, node, derivative)')


# ------------------------------------------------------------------ R01.6
def emitted_arg_groups(fn, after_marker):
    """Sequence of (text, condition) put() calls between a marker put and the closing put."""
    out = []
    active = False
    for s in fn.body:
        for c in ast.walk(s):
            pass
    return out


def put_sequence(fn):
    """Flatten top-level statements into (kind, text, cond) where cond is the enclosing `if` test source."""
    seq = []

    def rec(stmts, cond):
        for s in stmts:
            if isinstance(s, ast.Expr) and isinstance(s.value, ast.Call) and src(s.value.func) in ('self.put', 'self.putf'):
                a = s.value.args[0]
                seq.append((src(a), cond, s))
            elif isinstance(s, ast.If):
                rec(s.body, (cond + ' and ' if cond else '') + src(s.test))
                rec(s.orelse, (cond + ' and ' if cond else '') + 'not (' + src(s.test) + ')')
            elif isinstance(s, ast.For):
                rec(s.body, (cond + ' and ' if cond else '') + 'for ' + src(s.target) + ' in ' + src(s.iter))
    rec(fn.body, '')
    return seq


def r01_6(ctx):
    gk = ctx.prog.func(CG + '.AsmGenerator.generate_kernel')
    ge = ctx.prog.func(CG + '.AsmGenerator.generate_entry_impl')
    sig = put_sequence(gk.node)
    call = put_sequence(ge.node)

    def groups(seq, start_pred, end_pred):
        out = []
        on = False
        for text, cond, node in seq:
            if not on and start_pred(text):
                on = True
                continue
            if on and end_pred(text):
                break
            if on:
                out.append((classify(text), cond))
        return out

    def classify(t):
        t = t.replace(' ', '')
        if 'size_tn{}' in t or 'g_end[{0}]-g_sta[{0}]' in t or 'gaussgrid[{}].shape[0]' in t:
            return 'sizes'
        if '_gw{}' in t or 'gaussweights{' in t:
            return 'gauss weights'
        if '_temp_fields' in t or "'temp_fields,'" in t:
            return 'temp fields'
        if '_fields' in t or 'self.fields' in t:
            return 'fields'
        if 'constants' in t:
            return 'constants'
        if 'VD%s' in t or 'values_%s' in t:
            return 'basis jets'
        if 'result' in t:
            return 'result'
        if t.startswith("'#"):
            return 'comment'
        return t[:30]
    g_sig = [g for g in groups(sig, lambda t: 'combine(' in t, lambda t: 'noexcept nogil' in t) if g[0] != 'comment']
    g_call = [g for g in groups(call, lambda t: 'combine(' in t, lambda t: t.replace(' ', '') == "')'") if g[0] != 'comment']
    ctx.floor('R01.6', 'argument groups of combine (signature)', len(g_sig), 5)
    ok = [a for a, _ in g_sig] == [a for a, _ in g_call]
    ctx.decide('R01.6', CG + '.AsmGenerator', 'combine: signature groups %s vs call groups %s' % ([a for a, _ in g_sig], [a for a, _ in g_call]), ok, gk.node,
               'emitted definition and emitted call must list the same argument groups in the same order')
    cs = [c for a, c in g_sig if a == 'constants']
    cc = [c for a, c in g_call if a == 'constants']
    ctx.decide('R01.6', CG + '.AsmGenerator', 'constants argument emitted under %s (signature) / %s (call)' % (cs, cc), cs == cc and cs == ['self.num_constants > 0'], gk.node,
               'conditional argument present on both sides under the same condition')
    gp = ctx.prog.func(CG + '.AsmGenerator.generate_precomp')
    gi = ctx.prog.func(CG + '.AsmGenerator.generate_init')
    p_sig = [g for g in groups(put_sequence(gp.node), lambda t: 'precompute_fields(' in t, lambda t: 'noexcept nogil' in t) if g[0] != 'comment']
    p_call = [g for g in groups(put_sequence(gi.node), lambda t: 'precompute_fields(' in t, lambda t: t.replace(' ', '') == "')'") if g[0] != 'comment']
    ok = [a for a, _ in p_sig] == [a for a, _ in p_call] and len(p_sig) >= 4
    ctx.decide('R01.6', CG + '.AsmGenerator', 'precompute_fields: signature groups %s vs call groups %s' % ([a for a, _ in p_sig], [a for a, _ in p_call]), ok, gp.node)
    # shipped code: every combine call passes as many arguments as the definition takes
    asm = ctx.prog.unit(ASM)
    n = 0
    for cls in [c for c in ctx.prog.classes.values() if c.unit is asm]:
        comb = cls.methods.get('combine')
        ei = cls.methods.get('entry_impl')
        if comb is None or ei is None:
            continue
        calls = [c for c in ast.walk(ei.node) if isinstance(c, ast.Call) and (call_name(c) or '') == cls.name + '.combine']
        if calls:
            n += 1
            ctx.decide('R01.6', cls.qual, 'combine takes %d arguments, entry_impl passes %d' % (len(comb.node.args.args), len(calls[0].args)),
                       len(comb.node.args.args) == len(calls[0].args), calls[0])
    ctx.floor('R01.6', 'shipped classes with combine/entry_impl', n, 14)


# ------------------------------------------------------------------ R01.7
def r01_7(ctx):
    gi = ctx.prog.func(CG + '.AsmGenerator.generate_init')
    lits = [n.value for n in ast.walk(gi.node) if isinstance(n, ast.Constant) and isinstance(n.value, str)]

    def has(frag):
        return any(frag in l.replace(' ', '') for l in lits)
    ctx.decide('R01.7', gi.qual, 'meshsupp = self.nqp * mesh_support_idx_all()', has('_meshsupp{k}=self.nqp*kvs{sp}[{k}].mesh_support_idx_all()'), gi.node,
               'support intervals converted from cells to Gauss nodes')
    ctx.decide('R01.7', gi.qual, 'bbox_ofs = bb[0] * self.nqp', has('self.bbox_ofs[:]=tuple(bb[0]*self.nqpforbbinbbox)'), gi.node, 'box offset converted from cells to Gauss nodes')
    # semantic form of the two conversions: the emitted assignment is parsed and the factor that turns cell indices into
    # node indices must be the common node count nqp (the tensor Gauss grid has nqp = max degree + 1 nodes per cell on
    # EVERY axis, R01.4) -- a per-axis quantity such as kv.p + 1 addresses other nodes on the lower-degree axes
    for frag, what in (('self.bbox_ofs[:]', 'offset of the bounding box'), ('self.S{sp}_meshsupp{k}', 'support intervals')):
        lines = [l for l in lits if l.replace(' ', '').startswith(frag.replace(' ', '') + '=') and 'np.arange(2' not in l]
        if not lines:
            ctx.undecided('R01.7', gi.qual, '%s in Gauss-node units' % what, gi.node, 'emitted assignment not found')
            continue
        try:
            tree = ast.parse(lines[0].replace('{k}', '0').replace('{sp}', '0').strip())
        except SyntaxError:
            ctx.undecided('R01.7', gi.qual, '%s in Gauss-node units' % what, gi.node, 'emitted line is not parsable')
            continue
        mults = [b for b in ast.walk(tree) if isinstance(b, ast.BinOp) and isinstance(b.op, ast.Mult)]
        unit_ok = None
        for b in mults:
            sides = [src(b.left), src(b.right)]
            cellside = [s for s in sides if 'bb[0]' in s or 'mesh_support_idx_all' in s]
            if cellside:
                other = [s for s in sides if s not in cellside]
                unit_ok = bool(other) and other[0].replace(' ', '') in ('self.nqp', 'nqp')
                culprit = other[0] if other else '?'
        if unit_ok is None:
            ctx.undecided('R01.7', gi.qual, '%s in Gauss-node units' % what, gi.node, 'conversion factor not recognised in `%s`' % lines[0].strip()[:80])
        else:
            ctx.decide('R01.7', gi.qual, '%s in Gauss-node units' % what, unit_ok, gi.node,
                       'cell indices are multiplied by the common node count nqp' if unit_ok else
                       'emitted `%s`: cell indices are multiplied by `%s`, not by the common node count nqp that the quadrature grid uses on every axis: '
                       'on an axis of lower degree the window of Gauss nodes is shifted' % (lines[0].strip()[:90], culprit), definite=True)
    hdr = ctx.prog.func(CG + '.AsmGenerator.gen_entry_impl_header')
    hl = [n.value.replace(' ', '') for n in ast.walk(hdr.node) if isinstance(n, ast.Constant) and isinstance(n.value, str)]
    ok = any(l.startswith('g_sta[{k}]=intv.a-self.bbox_ofs[{k}]') for l in hl) and any(l.startswith('g_end[{k}]=intv.b-self.bbox_ofs[{k}]') for l in hl)
    ctx.decide('R01.7', hdr.qual, 'on demand: g_sta/g_end = node interval minus node offset of the box', ok, hdr.node, 'both operands in Gauss-node units')
    ge = ctx.prog.func(CG + '.AsmGenerator.generate_entry_impl')
    gl = [n.value.replace(' ', '') for n in ast.walk(ge.node) if isinstance(n, ast.Constant) and isinstance(n.value, str)]
    ok = 'g_end[{0}]-g_sta[{0}]' in gl and '&self.gaussweights{0}[g_sta[{0}]]' in gl and 'g_sta[{0}]:g_end[{0}]' in gl
    ctx.decide('R01.7', ge.qual, 'kernel receives node counts, weights and fields sliced by the same node interval', ok, ge.node)
    ms = ctx.prog.func(AT + '.make_intv')
    ctx.met('R01.7', ms.qual, 'interval helper present', ms.node, nontrivial=False)
    bd = [l for l in lits if '_meshsupp{k}=np.arange(2' in l.replace(' ', '')]
    ctx.decide('R01.7', gi.qual, 'boundary axis: support [0,1) with a single node', bool(bd), gi.node, 'one Gauss node (weight 1) in the normal direction')
    mb = ctx.prog.func('pyiga.quadrature.make_boundary_quadrature')
    t = src(mb.node).replace(' ', '')
    ok = 'bdcoord=meshes[bdax][0ifbdside==0else-1]' in t and 'gauss[bdax]=(np.array([bdcoord]),np.ones((1,)))' in t
    ctx.decide('R01.7', mb.qual, 'boundary rule: one node at the face coordinate with weight 1', ok, mb.node)


def _delimited(e):
    """True / False / None: does the string expression e start with an opening and end with a closing delimiter?
    (concatenation chains, %-formats and f-strings of literal pieces; None when not a recognised string construction)"""
    if isinstance(e, ast.BinOp) and isinstance(e.op, ast.Add):
        parts = []

        def flat(x):
            if isinstance(x, ast.BinOp) and isinstance(x.op, ast.Add):
                flat(x.left)
                flat(x.right)
            else:
                parts.append(x)
        flat(e)
        first, last = parts[0], parts[-1]
        if isinstance(first, ast.Constant) and isinstance(first.value, str) and isinstance(last, ast.Constant) and isinstance(last.value, str):
            return first.value.lstrip().startswith('(') and last.value.rstrip().endswith(')')
        if isinstance(first, ast.Constant) and isinstance(first.value, str) and not first.value.lstrip().startswith('('):
            return False
        return False if all(not (isinstance(p, ast.Constant) and isinstance(p.value, str) and ('(' in p.value or ')' in p.value)) for p in parts) else None
    if isinstance(e, ast.BinOp) and isinstance(e.op, ast.Mod) and isinstance(e.left, ast.Constant) and isinstance(e.left.value, str):
        s = e.left.value.strip()
        return s.endswith(')') and (s.startswith('(') or re.match(r'^[%\w{}.]+\(', s) is not None)
    if isinstance(e, ast.Call) and isinstance(e.func, ast.Attribute) and e.func.attr == 'format' and isinstance(e.func.value, ast.Constant):
        s = str(e.func.value.value).strip()
        return s.endswith(')') and (s.startswith('(') or re.match(r'^[\w{}.]+\(', s) is not None)
    if isinstance(e, ast.Call) and isinstance(e.func, ast.Attribute) and e.func.attr == 'join':
        # ''.join(('(', <chain>, ')')): a concatenation spelled as a join of literal pieces
        if isinstance(e.func.value, ast.Constant) and e.func.value.value == '' and len(e.args) == 1 and isinstance(e.args[0], (ast.Tuple, ast.List)) \
                and e.args[0].elts:
            first, last = e.args[0].elts[0], e.args[0].elts[-1]
            if isinstance(first, ast.Constant) and isinstance(first.value, str) and isinstance(last, ast.Constant) and isinstance(last.value, str):
                return first.value.lstrip().startswith('(') and last.value.rstrip().endswith(')')
            return None
        return False            # a bare infix chain
    if isinstance(e, ast.Name):
        return None
    return None


def r01_10(ctx):
    """The expression emitter is context free: gencode(x) gets no precedence information about where the text will be
    placed.  An infix expression that is emitted without enclosing parentheses is therefore re-associated by C as soon as
    it becomes the operand of a tighter or non-associative operator (x / (a*b) -> x / a * b)."""
    gen = ctx.prog.cls(CG + '.CodegenVisitor')
    m = gen.methods.get('gencode_scalaroper')
    if m is None:
        raise AnchorMissing('R01.10: CodegenVisitor.gencode_scalaroper')
    ctxfree = all(len(c.args) == 1 and not c.keywords for c in ast.walk(m.node) if isinstance(c, ast.Call) and src(c.func) == 'self.gencode')
    local = {}
    for s in own_nodes(m.node):
        if isinstance(s, ast.Assign) and len(s.targets) == 1 and isinstance(s.targets[0], ast.Name):
            local.setdefault(s.targets[0].id, []).append(s.value)
    rets = [r for r in guards.returns_of(m.node) if r.value is not None]
    ctx.floor('R01.10', 'returns of gencode_scalaroper', len(rets), 1)
    for r in rets:
        v = r.value
        if isinstance(v, ast.Name) and len(local.get(v.id, [])) == 1:
            v = local[v.id][0]
        d = _delimited(v)
        conds = ' and '.join(('' if p else 'not ') + t for (t, p, _n) in guards.path_conditions(r)) or 'always'
        if d is True:
            ctx.met('R01.10', m.qual, 'infix expression emitted in parentheses (%s)' % conds, r, src(r.value)[:80])
        elif d is False and ctxfree:
            ctx.violated('R01.10', m.qual, 'infix expression emitted in parentheses (%s)' % conds, r,
                         '`%s` returns the operator chain without enclosing parentheses, but operands are emitted context-free: as the divisor '
                         'of a quotient or the subtrahend of a difference the text is re-associated by C (x / (a*b) becomes x / a * b)' % src(r)[:90])
        else:
            ctx.undecided('R01.10', m.qual, 'infix expression emitted in parentheses (%s)' % conds, r, 'string construction not recognised')
    # unary minus binds tighter than any infix operator only if its operand is atomic or parenthesised: operands are
    # ScalarOperExpr (parenthesised above), calls, constants, references
    ng = gen.methods.get('gencode_neg')
    if ng is not None:
        ctx.expect_return('R01.10', ng, "'-' + self.gencode(expr.x)", 'negation of a self-delimiting operand')


def r01_9(ctx):
    """The compiled kernel computes the integrand only if common-subexpression extraction merges equal expressions
    exclusively: the structural hash must separate expressions that differ in an identifying attribute or in the order
    of their operands (analysis shared with R06.1/R06.2 and R13.1)."""
    import rules.C06 as c06
    c06.r06_1(ctx, rule='R01.9')
    c06.hash_combiners(ctx, 'R01.9')


def r01_12(ctx):
    """Numeric literals of the form reach the generated kernel with full precision: the emitter formats them with repr (or an
    explicit round-trip format: %r, !r, .17g, float.hex); '%g', '%f', '%e', str.format('{:g}') keep six significant digits."""
    f = ctx.prog.func(CG + '.CodegenVisitor.gencode_const')
    rets = [r for r in guards.returns_of(f.node) if r.value is not None]
    if not rets:
        ctx.undecided('R01.12', f.qual, 'emitted text of a constant', f.node, 'no return value')
        return
    for r in rets:
        v = resolve.expand(r.value, r)
        t = src(v).replace(' ', '')
        exact = (isinstance(v, ast.Call) and call_name(v) == 'repr') or '%r' in t or '!r' in t or '.17g' in t or '.17e' in t or '.hex(' in t
        lossy = None
        for x in ast.walk(v):
            if isinstance(x, ast.Constant) and isinstance(x.value, str):
                import re as _re
                for m in _re.finditer(r'%(\.\d+)?[gfe]|\{[^}]*:(\.\d+)?[gfe]\}', x.value):
                    prec = m.group(1) or m.group(2)
                    if prec is None or int(prec[1:]) < 17:
                        lossy = m.group(0)
            if isinstance(x, ast.JoinedStr):
                for fv in x.values:
                    if isinstance(fv, ast.FormattedValue) and fv.format_spec is not None:
                        spec = src(fv.format_spec).strip("f'\"")
                        import re as _re
                        m = _re.search(r'(\.\d+)?[gfe]$', spec)
                        if m and (m.group(1) is None or int(m.group(1)[1:]) < 17):
                            lossy = spec
        if isinstance(v, ast.Call) and call_name(v) == 'str':
            exact = True        # str(float) is the shortest round-trip text in Python 3
        ctx.decide('R01.12', f.qual, src(r)[:80], True if (exact and not lossy) else (False if lossy else None), r,
                   'round-trip text of the literal' if exact and not lossy else
                   'the literal is emitted through the format `%s`, which keeps six (or too few) significant digits: (1/3)*u*v*dx is compiled '
                   'with 0.333333, sin(pi*x) with 3.14159 -- the kernel integrates a different integrand (relative error 1e-7 .. 1e-6)' % lossy,
                   definite=True)


def r01_13(ctx):
    """A boundary assembly derives Jac_to_boundary from ITS OWN boundary argument on every call: the entry is stored
    unconditionally (not setdefault / `if key not in args`), so an argument dictionary reused for another side is refreshed."""
    f = ctx.prog.func('pyiga.assemble.instantiate_assembler')
    sites = []
    for n in ast.walk(f.node):
        if isinstance(n, ast.Constant) and n.value == 'Jac_to_boundary':
            sites.append(n)
    if not sites:
        ctx.undecided('R01.13', f.qual, "store of 'Jac_to_boundary'", f.node, 'not recognised')
        return
    for n in sites:
        st = resolve.stmt_of(n)
        p = parent(n)
        if isinstance(p, ast.Subscript) and isinstance(p.ctx, ast.Store) and isinstance(st, ast.Assign):
            facts = guards.path_conditions(st)
            cond = [t for (t, pol, _n) in facts if 'Jac_to_boundary' in t]
            ctx.decide('R01.13', f.qual, src(st)[:90], False if cond else True, st,
                       'recomputed from the boundary of this call' if not cond else
                       'the entry is only stored when it is absent (%s): a dictionary that already went through a boundary assembly keeps the '
                       'matrix of the EARLIER side, ds and n are computed for the wrong face (errors of order 1)' % cond[0], definite=True)
        elif isinstance(p, ast.Call) and isinstance(p.func, ast.Attribute) and p.func.attr == 'setdefault':
            ctx.violated('R01.13', f.qual, src(st)[:90], st,
                         'setdefault keeps an entry that is already present: an argument dictionary reused for a second boundary assembly on another '
                         'side keeps the Jac_to_boundary matrix of the first side -- ds and n are computed for the wrong face (errors of order 1)')
        elif isinstance(p, ast.Call) and isinstance(p.func, ast.Attribute) and p.func.attr == 'update':
            ctx.met('R01.13', f.qual, src(st)[:90], st, 'stored unconditionally')


def run(ctx):
    # R01.14 = R06.12: a literal of small magnitude is not folded to zero (the kernel integrates the form as written)
    import rules.C06 as c06
    ctx.shared(c06.r06_12, 'R06.12', 'R01.14')
    r01_12(ctx)
    r01_13(ctx)
    # R01.11 = R08.4: after update() / update_params() the kernel integrates the NEW data: every stored array of an updatable input
    # is refreshed, nothing derived from it stays precomputed
    import rules.C08 as c08
    ctx.shared(c08.r08_4, 'R08.4', 'R01.11')
    r01_1(ctx)
    r01_2(ctx)
    r01_8(ctx)
    r01_3(ctx)
    r01_4(ctx)
    r01_5(ctx)
    r01_6(ctx)
    r01_7(ctx)
    r01_9(ctx)
    r01_10(ctx)
